"""IRP — IR producer/consumer protocol rules (DESIGN §3.7) over the two template tables:
irtpl (what intermediate.rs produces) and luatpl (what lua.rs writes for each IR op)."""
from hir import (nodes, walk, fn_body, callee, last, line_of, peel, pp, norm_path, pat_alternatives, pat_variant,
                 pat_bindings, pat_strip)
from engines import matches_on
import irtpl
import luatpl

IRP = "sylt_compiler::intermediate::IR"
NR = "sylt_compiler::name_resolution::"

OPEN = {"If", "Loop", "Function"}
CLOSE = {"End"}


class Tables:
    def __init__(self, F):
        self.F = F
        self.T = luatpl.LuaTemplates(F)
        self.S = {n: luatpl.summary(self.T, n) for n in self.T.arms}
        # guarded arms (`IR::Float(t, f) if f.is_infinite() => ..`): (variant, guard node, refs, summary)
        self.G = [(n, g["guard"], g["refs"], luatpl.summary(self.T, n, g)) for n, gs in sorted(self.T.guarded.items()) for g in gs]
        self.variants = [v["name"] for v in F.adt(IRP)["variants"]]
        self.ev_e, self.expr = irtpl.arm_templates(F, "expression", NR + "Expression")
        self.ev_s, self.stmt = irtpl.arm_templates(F, "statement", NR + "Statement")
        self.ev_c, self.top = irtpl.arm_templates(F, "compile", NR + "Statement")
        self.ev_d, self.definition = irtpl.fn_template(F, "definition")
        self.ev_b, self.block = irtpl.fn_template(F, "expression_block")
        self.counted = count_table(F)
        self.unknown = self.ev_e.unknown + self.ev_s.unknown + self.ev_c.unknown + self.ev_d.unknown + self.ev_b.unknown

    def all_templates(self):
        for a in self.expr:
            if a["items"] is not None:
                yield "expression|" + a["label"], a["items"], a["result"], a["arm"]
        for a in self.stmt:
            if a["items"] is not None:
                yield "statement|" + a["label"], a["items"], None, a["arm"]
        for a in self.top:
            if a["items"] is not None:
                yield "compile|" + a["label"], a["items"], None, a["arm"]
        yield "definition", self.definition, None, None
        yield "expression_block", self.block, None, None


def count_table(F):
    """{variant: {pos or (pos,'*') or (pos,'*',i): increment}} from intermediate::count_usages"""
    fn = F.fn("sylt_compiler::intermediate::count_usages")
    body = fn_body(fn)
    out = {}
    for m in matches_on(body, IRP):
        for arm in m["arms"]:
            # increments in the arm body, keyed by binding *name* (or-patterns bind the same names)
            incs = {}
            loops = {}
            for n, parents in walk(arm["body"]):
                if n.get("k") == "ForLoop":
                    it = peel(n["iter"])
                    base = it
                    while base.get("k") == "MethodCall":
                        base = peel(base["recv"])
                    bname = base.get("name")
                    p = pat_strip(n["pat"])
                    if p.get("k") == "Tuple":
                        for i, sub in enumerate(p["pats"]):
                            for b in pat_bindings(sub):
                                loops[b["hid"]] = (bname, "*", i)
                    else:
                        for b in pat_bindings(p):
                            loops[b["hid"]] = (bname, "*")
                if n.get("k") == "AssignOp" and n.get("op") in ("Add", "AddAssign"):
                    lhs = peel(n["l"])
                    ent = None
                    for c in nodes(lhs, "MethodCall"):
                        if c["m"] == "entry":
                            ent = c
                    if ent is None:
                        continue
                    key = peel(ent["args"][0])
                    inc = peel(n["r"])
                    k = inc.get("v") if inc.get("k") == "Lit" and isinstance(inc.get("v"), int) else 10 ** 6  # not a literal: no count can match (fail closed)
                    if key.get("k") == "Path" and key.get("res") == "Local":
                        if key["hid"] in loops:
                            incs[loops[key["hid"]]] = incs.get(loops[key["hid"]], 0) + k
                        else:
                            incs[key["name"]] = incs.get(key["name"], 0) + k
            for alt in pat_alternatives(arm["pat"]):
                v = pat_variant(alt)
                if not v:
                    out["_"] = {}
                    continue
                name = last(v)
                pos = {}
                p = pat_strip(alt)
                if p.get("k") == "TupleStruct":
                    for i, sub in enumerate(p["pats"]):
                        for b in pat_bindings(sub):
                            pos[b["name"]] = i
                tab = {}
                for key, k in incs.items():
                    if isinstance(key, tuple):
                        if key[0] in pos:
                            tab[(pos[key[0]],) + key[1:]] = k
                    elif key in pos:
                        tab[pos[key]] = k
                out[name] = tab
        break
    return out


# --------------------------------------------------------------------------- template walks

def flat_ops(items, path=()):
    """yield (op item, path) for every op in a template, alternatives and repetitions included"""
    for it in items:
        if it[0] == "op":
            yield it, path
        elif it[0] == "rep":
            yield from flat_ops(it[2], path + (("rep", it[1]),))
        elif it[0] == "alt":
            for lab, a in zip(it[2], it[1]):
                yield from flat_ops(a, path + (("alt", lab),))


def _merge(a, b):
    d = dict(a or {})
    d.update(b or {})
    return d


def _compatible(ch):
    """a joint choice of alternatives is impossible when one arm is labelled `P[x:A,B]` (taken only if x is A or B) or
    `P[x:!A,B]` and another case split, whose labels are values of x, chose differently"""
    import re as _re
    chosen = {key: key[idx] for key, idx in ch.items()}
    for key, lab in chosen.items():
        for part in lab.split("|"):
            m = _re.search(r"\[(\w+):(!?)([\w,]+)\]$", part)
            if not m:
                continue
            vals = set(m.group(3).split(","))
            for key2, lab2 in chosen.items():
                if key2 is key:
                    continue
                universe = {l.split("[")[0] for k in key2 for l in k.split("|")}
                if not vals <= universe:
                    continue
                picked = {l.split("[")[0] for l in lab2.split("|")}
                inside = bool(picked & vals)
                if (m.group(2) == "" and not inside) or (m.group(2) == "!" and picked <= vals):
                    return False
    return True


def linearisations(items, limit=96, choice=None, outer=None):
    """the alternative straight-line sequences of a template (alts expanded, reps kept as items).
    Alternatives that come from the same case split (identical label tuple, e.g. the three parts
    (pre_code, current, post_code) of `match target`) are chosen together."""
    if choice is None:
        # enumerate the joint choices of all distinct label tuples at this level
        groups = []
        for it in items:
            if it[0] == "alt":
                key = tuple(it[2])
                if key not in groups:
                    groups.append(key)
        out = []

        def rec(gi, ch):
            if len(out) >= limit:
                return
            if gi == len(groups):
                if _compatible(_merge(outer, ch)):
                    out.extend(linearisations(items, limit, dict(ch), outer))
                return
            for idx in range(len(groups[gi])):
                ch[groups[gi]] = idx
                rec(gi + 1, ch)
            del ch[groups[gi]]
        rec(0, {})
        return out[:limit]
    seqs = [[]]
    for it in items:
        if it[0] == "alt":
            key = tuple(it[2])
            a = it[1][choice[key]] if choice[key] < len(it[1]) else []
            new = []
            for s in seqs:
                for sub in linearisations(a, limit, None, _merge(outer, choice)):
                    new.append(s + sub)
            seqs = new[:limit]
        else:
            if it[0] == "op":
                # an operand that is itself an alternative of the same case split takes the chosen value
                allc = _merge(outer, choice)
                ops = [(o[1][allc[tuple(o[2])]] if isinstance(o, tuple) and o and o[0] == "altval" and tuple(o[2]) in allc
                        and allc[tuple(o[2])] < len(o[1]) else o) for o in it[2]]
                it = (it[0], it[1], ops) + tuple(it[3:])
            seqs = [s + [it] for s in seqs]
    return seqs


def bracket_delta(items):
    """(constant, {over: coefficient}) net block depth change of a straight-line sequence; None if the
    alternatives inside a rep disagree"""
    const = 0
    coef = {}
    minpref = 0
    for it in items:
        if it[0] == "op":
            if it[1] in OPEN:
                const += 1
            elif it[1] in CLOSE:
                const -= 1
        elif it[0] == "rep":
            ds = set()
            for lin in linearisations(it[2]):
                d = bracket_delta(lin)
                if d is None:
                    return None
                if d[1]:
                    return None  # nested repetition with non-zero per-iteration delta: not supported
                ds.add(d[0])
            if len(ds) > 1:
                return None
            d = ds.pop() if ds else 0
            if d:
                coef[it[1]] = coef.get(it[1], 0) + d
        minpref = min(minpref, const)
    return const, {k: v for k, v in coef.items() if v}, minpref


def fresh_defs(items):
    """{fresh-site: [defining op names]} and uses for the fresh temporaries of a template"""
    defs = {}
    for it, path in flat_ops(items):
        pass
    return defs
