"""C05 — blob, enum, tuple, loop and entry-point shape rules (DESIGN §4 C05)."""
from hir import (nodes, walk, fn_body, callee, call_args, last, line_of, peel, pp, norm_path, pat_alternatives, pat_variant,
                 pat_bindings, pat_is_catchall, diverges, find_formats)
from engines import matches_on, arm_alternatives, ty_is
from flow import Flow, uncond_nodes
import tc
import c03
import c04
from tc import TC, TCM, NR, TY

EXPLANATION = (
    "Decides: (BLOB) the blob-instantiation arm reports declared-but-not-given fields as MissingField and "
    "given-but-not-declared fields as UnknownField, returns the collected errors when non-empty, rejects externblob types "
    "(ExternBlobInstance) and non-blob types, and unifies every given value with its field; (SHAPE-ACCEPT) the handlers "
    "of the Field / Variant / TotalEnum / ConstantIndex constraints accept Unknown and the matching shape only: a missing "
    "field, an unknown variant, missing or extra variants of a total `case`, an index >= the tuple length and a non-tuple "
    "are Err; sub_unify rejects tuples of different length; (DISCHARGE) those constraints are checked where they are "
    "added (field access, variant construction, every case branch, total case, constant index); (CTX) `inside_loop` is "
    "true exactly for loop bodies, false for function bodies and inherited everywhere else; break/continue test "
    "!ctx.inside_loop and return Err; (START) resolve() errors when the main module has no global `start`, solve() "
    "unifies it with fn -> void and has an error arm for a missing start."
    " (START agreement) the resolver accepts only a variable defined in the main file as `start`, and the checker and the lowering look for exactly that variable; (BINDER-TYPED) `self` of a blob literal has the instance's type, so field accesses through it are checked; (COPY is-a-declaration) the name a variant or blob literal is built from is shown to be a declaration (not a parameter or local of that name whose unknown type defers the variant check for ever)."
    ' (ACCEPT tuple-length-guard, shared with C03) operator checkers recurse element-wise only into tuples of equal length.'
    ' (VISIT-tc Blob, shared) no non-error exit stands in front of the field checks of a blob literal; a missing field is an error in every row of the Field handler.'
)
UNDECIDED = "nothing about run-time shapes (that is C02); error wording."

MANIFEST = dict(
    text=EXPLANATION + " Not decided: " + UNDECIDED,
    technique="per-arm obligation extraction, accept-set extraction, constraint discharge (must-pass-through) and context-flag abstract interpretation over resolved HIR",
)

E, S = NR + "Expression", NR + "Statement"
SHAPE_CONSTRAINTS = {"Field", "Variant", "TotalEnum", "ConstantIndex", "Enum"}


def run(F, rep, tier):
    rep.explanation = EXPLANATION
    rep.undecided = UNDECIDED
    blob_arm(F, rep)
    shape_handlers(F, rep)
    n = c03.discharge(F, rep, only=SHAPE_CONSTRAINTS)
    rep.floor("DISCHARGE", "shape add_constraint sites", n, 6)
    loop_flag(F, rep)
    start_rules(F, rep)
    c03.binder_typed(F, rep)
    # a variant / blob can only be built from a declaration: a variable that merely has the name is no enum
    import c02
    c02.copy_discipline(F, rep, only_declaration=True)
    # a function inside its own body has one type: shape requirements on its parameters hold for the recursive call too
    c02.copy_discipline(F, rep, only_generalised=True)
    # shape checks on a value typed through an annotation need the named declaration to be known at that point
    c03.declared_types_known(F, rep)
    # a shape requirement (field, variant, index) recorded on a node survives that node being unified with another
    c03.unification_core(F, rep)
    # a `ret` of a tuple of the wrong length deep in a block is compared with the other returns: what a block's statements return is
    # unified with what its last statement returns; and every requirement on a node is looked at when the node is checked - a handler
    # that ends the loop (`return` in the Equ arm) leaves the index / field / variant requirements behind it unchecked (shared with C03)
    import core as _core5
    _core5.borrow(rep, c03.obligations, lambda o: o["key"].startswith("expression_block|"), F)
    _core5.borrow(rep, lambda F_, r_: c03.accept(F_, r_, "ACCEPT"), lambda o: o["rule"] == "ACCEPT" and o["key"].startswith("check_constraints|"), F)
    # tuples of different lengths do not unify (in either direction)
    import core
    core.borrow(rep, c03.obligations, lambda o: "tuple-length" in o["key"], F)
    # .. and the operator checkers recurse element-wise only into tuples of the same length
    core.borrow(rep, lambda F_, r_: c03.accept(F_, r_, "ACCEPT"), lambda o: o["key"].endswith("|tuple-length-guard"), F)
    # the field checks of a blob literal are reached for every literal: no way out of the arm in front of them that is not an error
    core.borrow(rep, c03.visit, lambda o: o["rule"] == "VISIT-tc" and "|Blob." in o["key"], F)


def blob_arm(F, rep):
    fexpr = F.fn(TC + "expression")
    rep.analysed(fexpr)
    arms = tc.arm_of(F, fexpr, E, "Blob")
    if not arms:
        rep.anchor_missing("Blob arm of TypeChecker::expression")
        return
    arm = arms[0][0]
    where = line_of(arm)
    fl = Flow(fexpr, fn_body(fexpr))
    # the match on the declared type
    tm = [m for m in nodes(arm["body"], "Match") if ty_is(m.get("scrut_ty", ""), TY)]
    extern_err = nonblob_err = False
    if tm:
        for a in tm[0]["arms"]:
            for alt in pat_alternatives(a["pat"]):
                v = pat_variant(alt)
                if v and v.endswith("Type::ExternBlob"):
                    extern_err = tc.is_err_value(a["body"]) and tc.err_kind(a["body"]) == "ExternBlobInstance"
                if v is None and pat_is_catchall(alt):
                    nonblob_err = tc.is_err_value(a["body"])
    rep.ob("BLOB", "expression|Blob|externblob", extern_err, "instantiating an externblob is Err(ExternBlobInstance)", where)
    rep.ob("BLOB", "expression|Blob|non-blob", nonblob_err, "instantiating something that is not a blob type is an error", where)
    # two field-set loops pushing errors
    loops = []
    for n in uncond_nodes(arm["body"]):
        if n.get("k") == "ForLoop":
            pushes = []
            for i in nodes(n["body"], "If"):
                c = peel(i["c"])
                if c.get("k") == "Unary" and c.get("op") == "Not" and peel(c["e"]).get("k") == "MethodCall" and peel(c["e"])["m"] == "contains_key":
                    ck = peel(c["e"])
                    kinds = {tc.err_kind(p) for p in nodes(i["t"], "MethodCall") if p["m"] == "push"}
                    loops.append((pp(peel(n["iter"])), pp(peel(ck["recv"])), kinds))
    missing = any(("blob_fields" in it and "given_fields" in recv and "MissingField" in kinds) for it, recv, kinds in loops)
    unknown = any(("given_fields" in it and "blob_fields" in recv and "UnknownField" in kinds) for it, recv, kinds in loops)
    rep.ob("BLOB", "expression|Blob|missing-field", missing,
           "every declared field that is not given is reported as MissingField (%s)" % [(a, b, sorted(k)) for a, b, k in loops], where)
    rep.ob("BLOB", "expression|Blob|unknown-field", unknown,
           "every given field that is not declared is reported as UnknownField", where)
    # `blob_fields` must be the declared type's field table and `given_fields` built from the literal's fields
    gf = None
    for hid, o in fl.origin.items():
        if fl.names.get(hid) == "given_fields" and o["kind"] == "let":
            gf = tc.root_field(fl, tc._iter_base(o["src"]))
    rep.ob("BLOB", "expression|Blob|given-from-literal", gf == "fields", "the given-field set is built from the literal's fields (%s)" % gf, where)
    ret_errs = False
    for n in uncond_nodes(arm["body"]):
        if n.get("k") == "If":
            c = peel(n["c"])
            if c.get("k") == "Unary" and c.get("op") == "Not" and "errors.is_empty" in pp(c["e"]):
                ret_errs = any(r for r in nodes(n["t"], "Ret") if "Err(errors)" in pp(r["e"]))
    rep.ob("BLOB", "expression|Blob|errors-returned", ret_errs, "collected field errors are returned", where)
    facts = tc.unify_facts(fl, arm["body"])
    c03.need(rep, "BLOB", "expression|Blob|value~field", facts, (r"exprof:fields\[\*\].*", r"index\(.*\)\.?.*|\?|.*"),
             "every given value is unified with its field's type node", where)
    c03.need(rep, "BLOB", "expression|Blob|instance~declared", facts, ("fresh:Blob", r"copy\(varty:blob\)"),
             "the instance type is unified with (a fresh copy of) the declared blob type", where)


def shape_handlers(F, rep):
    fn = F.fn(TC + "check_constraints")
    rep.analysed(fn)
    handlers = {}
    for m in matches_on(fn_body(fn), TCM + "Constraint"):
        for arm, alt, vp in arm_alternatives(m):
            if vp:
                handlers[last(vp)] = arm

    def type_rows(arm):
        """variant -> arm body for the match on find_type(a) inside a handler"""
        rows = {}
        for m in nodes(arm["body"], "Match"):
            if ty_is(m.get("scrut_ty", ""), TY):
                for a in m["arms"]:
                    for alt in pat_alternatives(a["pat"]):
                        v = pat_variant(alt)
                        rows[last(v) if v else "_"] = a
                return rows
        return rows

    # Field
    arm = handlers.get("Field")
    if arm is None:
        rep.anchor_missing("Field handler")
    else:
        rows = type_rows(arm)
        ok_unknown = "Unknown" in rows and tc.is_ok_unit(rows["Unknown"]["body"])
        dflt = "_" in rows and tc.is_err_value(rows["_"]["body"])
        # .. in every row that looks a field up - the blob row and the externblob row alike
        miss = True
        seen_rows = []
        for rname in ("Blob", "ExternBlob"):
            row = rows.get(rname)
            if row is None or any(row is r_ for r_ in seen_rows):
                continue
            seen_rows.append(row)
            row_miss = False
            for m in nodes(row["body"], "Match"):
                for a in m["arms"]:
                    for alt in pat_alternatives(a["pat"]):
                        if (pat_variant(alt) or "").endswith("Option::None"):
                            row_miss = tc.is_err_value(a["body"]) and tc.err_kind(a["body"]) == "MissingField"
            miss = miss and row_miss
        miss = miss and bool(seen_rows)
        accepted = {k for k, a in rows.items() if not tc.is_err_value(a["body"])}
        rep.ob("SHAPE-ACCEPT", "Field|rows", ok_unknown and dflt and accepted == {"Unknown", "Blob", "ExternBlob"},
               "field access is accepted on %s only; any other type is an error" % sorted(accepted), line_of(arm))
        rep.ob("SHAPE-ACCEPT", "Field|missing", miss, "a field the blob does not have is Err(MissingField)", line_of(arm))
    # Variant
    arm = handlers.get("Variant")
    if arm is None:
        rep.anchor_missing("Variant handler")
    else:
        rows = type_rows(arm)
        accepted = {k for k, a in rows.items() if not tc.is_err_value(a["body"])}
        unk = False
        en = rows.get("Enum")
        if en is not None:
            for m in nodes(en["body"], "Match"):
                for a in m["arms"]:
                    ps = tc._tuple_pats(a["pat"], 2) if peel(a["pat"]).get("k") == "Tuple" else None
                    if ps and "None" in ps[0]:
                        unk = tc.is_err_value(a["body"]) and tc.err_kind(a["body"]) == "UnknownVariant"
        rep.ob("SHAPE-ACCEPT", "Variant|rows", accepted == {"Unknown", "Enum"} and "_" in rows,
               "variant constraints are accepted on %s only" % sorted(accepted), line_of(arm))
        rep.ob("SHAPE-ACCEPT", "Variant|unknown", unk, "a variant the enum does not have is Err(UnknownVariant)", line_of(arm))
    # TotalEnum
    arm = handlers.get("TotalEnum")
    if arm is None:
        rep.anchor_missing("TotalEnum handler")
    else:
        rows = type_rows(arm)
        accepted = {k for k, a in rows.items() if not tc.is_err_value(a["body"])}
        en = rows.get("Enum")
        kinds = set()
        if en is not None:
            for i in nodes(en["body"], "If"):
                if tc.is_err_value(i["t"]):
                    kinds.add(tc.err_kind(i["t"]))
        rep.ob("SHAPE-ACCEPT", "TotalEnum|rows", accepted == {"Unknown", "Enum"} and "_" in rows,
               "a total case is accepted on %s only" % sorted(accepted), line_of(arm))
        # .. compared as sets of names: nothing but membership in the other set decides which variants count (a variant left out
        # of the comparison - because of its payload type, say - may be left out of the `case` as well)
        other_tests = []
        for c_ in nodes(arm["body"], "MethodCall"):
            if c_["m"] in ("filter", "filter_map", "skip_while", "take_while", "retain"):
                for cl_ in [a_ for a_ in c_["args"] if a_.get("k") == "Closure"]:
                    for x_ in nodes(cl_["body"]):
                        if x_.get("k") in ("MethodCall", "Call") and (callee(x_) or "").startswith("sylt_compiler::"):
                            other_tests.append(x_)
        rep.ob("SHAPE-ACCEPT", "TotalEnum|variants-compared-by-name-only", not other_tests,
               "the listed and the declared variants are compared as sets of names" if not other_tests else
               "the comparison of listed and declared variants leaves some variants out by another test (`%s`): a `case` without `else` "
               "that does not list such a variant is accepted, and the emitted code has no branch for it" % pp(other_tests[0])[:50],
               line_of(other_tests[0]) if other_tests else line_of(arm))
        rep.ob("SHAPE-ACCEPT", "TotalEnum|missing+extra", kinds == {"MissingVariants", "ExtraVariants"},
               "branches naming unknown variants and enum variants without a branch are both errors (%s)" % sorted(k or "?" for k in kinds), line_of(arm))
    # ConstantIndex -> constant_index
    arm = handlers.get("ConstantIndex")
    if arm is not None:
        b = peel(arm["body"])
        inner = [c for c in nodes(b, "MethodCall") if callee(c) == TC + "constant_index"]
        rep.ob("SHAPE-ACCEPT", "ConstantIndex|dispatch", bool(inner), "constant index constraints are checked by constant_index", line_of(arm))
    fci = F.fn(TC + "constant_index")
    rep.analysed(fci)
    rows = {}
    for m in nodes(fn_body(fci), "Match"):
        if ty_is(m.get("scrut_ty", ""), TY):
            for a in m["arms"]:
                for alt in pat_alternatives(a["pat"]):
                    v = pat_variant(alt)
                    rows[last(v) if v else "_"] = a
            break
    accepted = {k for k, a in rows.items() if not tc.is_err_value(a["body"])}
    oor = False
    if "Tuple" in rows:
        for m in nodes(rows["Tuple"]["body"], "Match"):
            sc = peel(m["scrut"])
            if sc.get("k") == "MethodCall" and sc["m"] == "get":
                for a in m["arms"]:
                    for alt in pat_alternatives(a["pat"]):
                        if (pat_variant(alt) or "").endswith("Option::None"):
                            oor = tc.is_err_value(a["body"]) and tc.err_kind(a["body"]) == "TupleIndexOutOfRange"
    rep.ob("SHAPE-ACCEPT", "constant_index|rows", accepted == {"Unknown", "Tuple"} and "_" in rows,
           "constant indexing is accepted on %s only" % sorted(accepted), fci["sp"])
    rep.ob("SHAPE-ACCEPT", "constant_index|out-of-range", oor, "an index outside the tuple is Err(TupleIndexOutOfRange)", fci["sp"])
    # obligations on the arms that add these constraints
    fexpr = F.fn(TC + "expression")
    fl = Flow(fexpr, fn_body(fexpr))
    for arm, alt in tc.arm_of(F, fexpr, E, "Case"):
        names = []
        for c in nodes(arm["body"], "MethodCall"):
            if callee(c) == TC + "add_constraint":
                names.append(tc.constraint_name(c["args"][2]))
        rep.ob("SHAPE-ACCEPT", "expression|Case|constraints", set(names) >= {"Variant", "TotalEnum"},
               "case adds a Variant constraint per branch and TotalEnum when there is no else (%s)" % names, line_of(arm))
        # TotalEnum only in the no-else branch: `if let Some(fall_through) .. else { add TotalEnum }`
        te_in_else = False
        for i in nodes(arm["body"], "If"):
            if peel(i["c"]).get("k") == "LetCond" and "fall_through" in pp(i["c"]) and i.get("e"):
                from flow import uncond_nodes
                # .. on every path through it: a shortcut that skips the requirement (`as many branches as variants`) admits a
                # case that names one variant twice and leaves another out
                te_in_else = any(tc.constraint_name(c["args"][2]) == "TotalEnum" for c in uncond_nodes(i["e"])
                                 if isinstance(c, dict) and c.get("k") == "MethodCall" and callee(c) == TC + "add_constraint")
        rep.ob("SHAPE-ACCEPT", "expression|Case|total-when-no-else", te_in_else,
               "a case without else must list exactly the enum's variants (TotalEnum added in the no-else branch)", line_of(arm))
        # the set passed to TotalEnum is built from the branch patterns
        ins = [c for c in nodes(arm["body"], "MethodCall") if c["m"] == "insert" and "branch_names" in pp(c["recv"])]
        rep.ob("SHAPE-ACCEPT", "expression|Case|names-from-branches", bool(ins) and all("name" in pp(c["args"][0]) for c in ins),
               "the variant set of a total case is collected from every branch pattern", line_of(arm))


IRM = "sylt_compiler::intermediate::"


def loop_lowering_placement(F):
    """Where the lowering puts each child of a `loop`: {child: (inside, label)} with inside = its code is written between
    IR::Loop and the loop's closing IR::End (so a Lua `break` written there leaves *this* loop), label = 'new' when the
    child is lowered under an IRContext whose closest_loop is the fresh label of this loop (so a `continue` there jumps to
    this loop's label), 'inherit' when it gets the enclosing context unchanged."""
    import irtpl
    fst = F.fn(IRM + "IRCodeGen::statement")
    arms = tc.arm_of(F, fst, S, "Loop")
    if not arms:
        return None
    arm = arms[0][0]
    ev, tpls = irtpl.arm_templates(F, "statement", S)
    items = None
    for a in tpls:
        if a["label"] == "Loop" and a["items"] is not None:
            items = a["items"]
    if items is None:
        return None
    inside = {}
    depth = 0
    seen_loop = False

    def children(it):
        if it[0] == "code":
            yield it[2].split("[")[0].split(".")[0]
        elif it[0] == "rep":
            for x in it[2]:
                yield from children(x)
        elif it[0] == "alt":
            for alt in it[1]:
                for x in alt:
                    yield from children(x)
    for it in items:
        if it[0] == "op" and it[1] == "Loop":
            seen_loop = True
            depth = 1
        elif it[0] == "op" and it[1] in ("If", "Function") and seen_loop:
            depth += 1
        elif it[0] == "op" and it[1] == "End" and seen_loop:
            depth -= 1
        for ch in children(it):
            inside[ch] = seen_loop and depth > 0
    fl = Flow(fst, fn_body(fst))
    lits = [x for x in nodes(arm["body"], "Struct") if ty_is(x.get("ty", ""), IRM + "IRContext")]
    label = {}
    for c in nodes(arm["body"], "MethodCall"):
        if callee(c) in (IRM + "IRCodeGen::statement", IRM + "IRCodeGen::expression", IRM + "IRCodeGen::expression_block"):
            a = call_args(c)
            ch = tc.root_field(fl, a[1]).split("[")[0].split(".")[0]
            v = peel(a[2]) if len(a) > 2 else {}
            if v.get("k") == "Path" and v.get("res") == "Local":
                v = peel(fl.trace(v))
            new = any(x is l for l in lits for x in nodes(v))
            label[ch] = "new" if new else "inherit"
    return {ch: (inside.get(ch), label.get(ch)) for ch in set(inside) | set(label)}


def loop_flag(F, rep):
    # what the checker must say about a child of `loop` follows from where the lowering puts it: inside the new Lua loop
    # under the new label = part of this loop (true); before the loop under the enclosing context = inherit; any mixture
    # (`break` would leave one loop, `continue` jump to the label of another) only if break/continue are rejected there
    place = loop_lowering_placement(F) or {}
    cond = place.get("condition")
    if cond == (True, "new"):
        cond_want = ({tc.T_, tc.F_}, "")
    elif cond == (False, "inherit"):
        cond_want = ({tc.I, tc.F_}, "")
    else:
        cond_want = ({tc.F_}, " - the lowering writes the condition %s and lowers it under %s label: a `break` there would "
                     "leave one loop and a `continue` jump to the label of another, so neither may be accepted in a loop's "
                     "condition" % ("inside the new Lua loop" if cond and cond[0] else "outside the new Lua loop" if cond else "?",
                                    "the enclosing loop's" if cond and cond[1] == "inherit" else "the new loop's" if cond else "?"))
    rep.ob("LOOP-LABEL", "IRCodeGen::statement|Loop|placement", place.get("body") == (True, "new") and cond is not None,
           "the lowering writes a loop's body inside the Lua loop under the loop's own label; children and their (inside, label): %s"
           % sorted(place.items()), None, sites=len(place))
    special = {
        ("statement", "Loop", "expression_block"): tc.T_,
        ("statement", "Loop", "expression"): cond_want,
        ("expression", "Function", "expression_block"): tc.F_,
    }
    c04.ctx_propagation(F, rep, "inside_loop", special, rule="CTX", monotone=False)
    fstmt = F.fn(TC + "statement")
    for v in ("Break", "Continue"):
        arms = tc.arm_of(F, fstmt, S, v)
        if not arms:
            rep.anchor_missing(v + " arm")
            continue
        c04.guard_in(rep, "GUARD", "statement|%s|outside-loop" % v, arms[0][0]["body"], "inside_loop", "not", None, None,
                     "`%s` outside a loop of the same function is rejected" % v.lower(), line_of(arms[0][0]))


def nodes_pat(p):
    """all sub-patterns of a pattern"""
    out = [p]
    if isinstance(p, dict):
        for k in ("pats",):
            for x in p.get(k, []) or []:
                out += nodes_pat(x)
        for f in p.get("fields", []) or []:
            out += nodes_pat(f["pat"])
        if isinstance(p.get("pat"), dict):
            out += nodes_pat(p["pat"])
        if isinstance(p.get("sub"), dict):
            out += nodes_pat(p["sub"])
    return out


def _file_is_main(e):
    """does the expression contain `<..>.file_id == 0`"""
    for b in nodes(e, "Binary"):
        if b.get("op") == "Eq":
            l, r = peel(b["l"]), peel(b["r"])
            for x, y in ((l, r), (r, l)):
                if x.get("k") == "Field" and x["name"] == "file_id" and y.get("k") == "Lit" and y.get("v") == 0:
                    return True
    return False


def resolver_guarantees_start(F):
    """does name_resolution::resolve only let a *variable defined in the main file* pass as `start`"""
    import core
    scratch = core.Report("_", "quick")
    start_rules(F, scratch)
    res = {o["key"]: o["ok"] for o in scratch.obs if o["rule"] == "START"}
    return res.get("resolve|start-is-a-variable", False) and res.get("resolve|start-defined-in-main", False)


def start_rules(F, rep):
    fres = F.fn(NR + "resolve")
    rep.analysed(fres)
    ok = False        # some test of lookup_global(0, "start") whose failure is an error
    var_only = False  # ... that only a *variable* passes (a namespace or alias named start does not)
    own_file = False  # ... defined in the main file itself
    def _is_start_lookup(e):
        e = peel(e)
        if callee(e) == NR + "Resolver::lookup_global":
            a = [peel(x) for x in e["args"]]
            return a[0].get("v") == 0 and a[1].get("v") == "start"
        return False
    for i in nodes(fn_body(fres), "If"):
        c = peel(i["c"])
        if c.get("k") == "MethodCall" and c["m"] == "is_none" and _is_start_lookup(c["recv"]) and tc.is_err_value(i["t"]):
            ok = True
    for m in nodes(fn_body(fres), "Match"):
        if not _is_start_lookup(m["scrut"]):
            continue
        passing = [a for a in m["arms"] if not tc.is_err_value(a["body"])]
        failing = [a for a in m["arms"] if tc.is_err_value(a["body"])]
        if failing and passing:
            ok = True
            var_only = all(any((pat_variant(x) or "").endswith("name_resolution::Name::Name") for x in nodes_pat(a["pat"])) for a in passing)
            own_file = all(a.get("guard") is not None and _file_is_main(a["guard"]) for a in passing)
    # the same test written as `let has_start = matches!(lookup_global(0, "start"), Some(Name::Name(v)) if ..); if !has_start { Err }`
    fl_r = Flow(fres, fn_body(fres))
    for i in nodes(fn_body(fres), "If"):
        c = peel(i["c"])
        if c.get("k") == "Unary" and c.get("op") == "Not" and peel(c["e"]).get("k") == "Path" and tc.is_err_value(i["t"]):
            src = fl_r.trace(c["e"])
            if isinstance(src, dict) and src.get("k") == "Match" and _is_start_lookup(src["scrut"]):
                yes = [a for a in src["arms"] if peel(a["body"]).get("v") is True]
                no = [a for a in src["arms"] if peel(a["body"]).get("v") is False]
                if yes and no:
                    ok = True
                    var_only = all(any((pat_variant(x) or "").endswith("name_resolution::Name::Name") for x in nodes_pat(a["pat"])) for a in yes)
                    own_file = all(a.get("guard") is not None and _file_is_main(a["guard"]) for a in yes)
    rep.ob("START", "resolve|no-start=>Err", ok, "a main module (namespace 0) without a global `start` is an error", fres["sp"])
    rep.ob("START", "resolve|start-is-a-variable", var_only,
           "only a variable satisfies the check: `use lib as start` or a file named start.sy does not provide an entry point", fres["sp"])
    rep.ob("START", "resolve|start-defined-in-main", own_file,
           "the variable has to be defined in the main file (definition.file_id == 0): an imported `start` is not the entry point", fres["sp"])
    # the checker and the lowering pick that same variable: a global named start defined in file 0
    for path_, what in ((TCM + "solve", "typechecker::solve"), ("sylt_compiler::intermediate::compile", "intermediate::compile")):
        f2 = F.fn(path_)
        okp = False
        for c in nodes(fn_body(f2), "MethodCall"):
            if c["m"] == "find":
                for cl in [a for a in c["args"] if a.get("k") == "Closure"]:
                    okp = _file_is_main(cl["body"]) and any(x.get("name") == "is_global" for x in nodes(cl["body"], "Field")) \
                        and any(x.get("k") == "Lit" and x.get("v") == "start" for x in nodes(cl["body"]))
        rep.ob("START", "%s|start-defined-in-main" % what, okp,
               "%s looks for a global named `start` that is defined in the main file - the variable name resolution checked, "
               "not the first `start` of any imported module (which one that is depends on the order of the import lines)" % what,
               f2["sp"])
    fsolve = F.fn(TC + "solve")
    rep.analysed(fsolve)
    fl = Flow(fsolve, fn_body(fsolve))
    facts = tc.unify_facts(fl, fn_body(fsolve))
    good = False
    for f, n, unc in facts:
        if any(d.startswith("varty:") for d in f) and "fresh:Function" in f:
            good = True
    rep.ob("START", "solve|start~fn->void", good, "the start variable's type is unified with a function type", fsolve["sp"])
    # the fresh function type is Function(Vec::new(), void, _) with void = push_type(Type::Void)
    shape = False
    for c in nodes(fn_body(fsolve), "Call"):
        if (callee(c) or "").endswith("Type::Function"):
            a0 = peel(c["args"][0])
            a1 = tc.describe(fl, c["args"][1])
            shape = callee(a0) == "alloc::vec::Vec::new" and a1 == "fresh:Void"
    rep.ob("START", "solve|start-signature", shape, "the expected start type has no parameters and returns void", fsolve["sp"])
    none_err = err_on_fail = False
    for m in nodes(fn_body(fsolve), "Match"):
        if "Option<" in m.get("scrut_ty", ""):
            for a in m["arms"]:
                for alt in pat_alternatives(a["pat"]):
                    v = pat_variant(alt) or ""
                    if v.endswith("Option::None"):
                        none_err = tc.is_err_value(a["body"])
                    if v.endswith("Option::Some"):
                        oe = [c for c in nodes(a["body"], "MethodCall") if c["m"] == "or_else"]
                        err_on_fail = bool(oe) and any(tc.is_err_value(x["body"]) for c in oe for x in c["args"] if x.get("k") == "Closure")
    guaranteed = var_only and own_file
    rep.ob("START", "solve|no-start=>Err", none_err or guaranteed,
           "solve() has an error arm for a missing start function" if none_err else
           "name resolution already guarantees a global `start` defined in the main file, so solve()'s lookup cannot fail", fsolve["sp"])
    rep.ob("START", "solve|wrong-type=>Err", err_on_fail, "a start function of another type is an error", fsolve["sp"])
    # the start variable is the first global named start
    fs = F.fn(TCM + "solve")
    t = pp(fn_body(fs))
    rep.ob("START", "typechecker::solve|start-lookup", '"start"' in t and "is_global" in t,
           "the start variable is found by name `start` among globals", fs["sp"])
