"""Obligation bookkeeping, known-findings matching and evidence writing."""
import hashlib
import json
import os
import time

VERIF = os.path.dirname(os.path.dirname(os.path.abspath(__file__)))
EVIDENCE = os.environ.get("VERIF_EVIDENCE_DIR") or os.path.join(VERIF, "evidence")
KNOWN = os.path.join(VERIF, "known_findings.json")


class Report:
    def __init__(self, prop, tier):
        self.prop = prop
        self.tier = tier
        self.obs = []  # dict(rule, key, ok, text, where, sites)
        self.infos = []
        self.fns = set()
        self.sites = 0
        self.explanation = ""
        self.undecided = ""
        self.assumptions = []
        self.trusted = []
        self.extra = {}
        self.t0 = time.time()

    # an obligation = one instance of a rule, keyed without line numbers
    def ob(self, rule, key, ok, text, where=None, sites=1):
        self.obs.append(dict(rule=rule, key=str(key), ok=bool(ok), text=text, where=where, sites=sites))
        self.sites += max(sites, 0)
        return ok

    def info(self, text):
        self.infos.append(text)

    def analysed(self, fn):
        """note that a function was analysed (for the evidence counts)"""
        self.fns.add(fn["_path"] if isinstance(fn, dict) else str(fn))

    def floor(self, rule, what, count, minimum):
        """fail closed when a rule that had `minimum` confirmed instances now matches fewer"""
        self.ob(
            "FLOOR", "%s|%s" % (rule, what), count >= minimum,
            "%s: %d %s analysed (floor %d, counted by hand on the pinned tree)" % (rule, count, what, minimum),
            sites=0,
        )

    def anchor_missing(self, what):
        self.ob("ANCHOR", what, False, "anchor missing: %s (rule cannot be evaluated; fail closed)" % what, sites=0)


def load_known():
    if not os.path.exists(KNOWN):
        return {"findings": [], "fixed": []}
    with open(KNOWN) as fh:
        return json.load(fh)


def finish(rep, seed=0):
    """write evidence, print KNOWN-FINDING / VIOLATION lines, return exit code"""
    known = load_known()
    listed = {(f["property"], f["key"]): f for f in known.get("findings", [])}
    viol = []
    kf = []
    for o in rep.obs:
        if o["ok"]:
            continue
        k = (rep.prop, "%s|%s" % (o["rule"], o["key"]))
        if k in listed:
            kf.append((o, listed[k]))
        else:
            viol.append(o)

    os.makedirs(EVIDENCE, exist_ok=True)
    fdir = os.path.join(EVIDENCE, "findings", rep.prop)
    # violation replay files (rewritten each run)
    if os.path.isdir(fdir):
        for f in os.listdir(fdir):
            os.unlink(os.path.join(fdir, f))
    lines = []
    for o, f in kf:
        lines.append("KNOWN-FINDING: property=%s %s|%s %s" % (rep.prop, o["rule"], o["key"], f.get("what", o["text"])))
    for o in viol:
        os.makedirs(fdir, exist_ok=True)
        h = hashlib.sha1(("%s|%s" % (o["rule"], o["key"])).encode()).hexdigest()[:12]
        p = os.path.join(fdir, h + ".json")
        with open(p, "w") as fh:
            json.dump(dict(property=rep.prop, **o), fh, indent=1)
        lines.append("VIOLATION property=%s replay=%s" % (rep.prop, p))
        lines.append("  rule=%s key=%s\n  %s\n  at %s" % (o["rule"], o["key"], o["text"], o["where"] or "-"))

    n_ob = len(rep.obs)
    n_ok = sum(1 for o in rep.obs if o["ok"])
    distinct = len({(o["rule"], o["key"]) for o in rep.obs if o["sites"] > 0})
    samples = []
    seen_rules = {}
    for o in rep.obs:
        c = seen_rules.get(o["rule"], 0)
        if c < 3:
            samples.append("%s %s [%s]: %s @ %s" % ("ok " if o["ok"] else "BAD", o["rule"], o["key"], o["text"], o["where"] or "-"))
        seen_rules[o["rule"]] = c + 1
    rules = sorted(seen_rules)
    ev = {
        "property_id": rep.prop,
        "tier": rep.tier,
        "seed": seed,
        "level": "other",
        "coverage": {
            "explanation": rep.explanation + (" NOT DECIDED: " + rep.undecided if rep.undecided else ""),
            "rule": "static rules over the resolved HIR of /repo's working tree (syltfacts driver) and over "
                    "preamble.lua / std/*.sy; one obligation = one rule instance keyed (rule, construct); "
                    "non-trivial = the instance matched at least one real site. rules: " + ", ".join(rules),
            "evaluations": n_ob,
            "distinct_nontrivial": distinct,
            "obligations": n_ob,
            "discharged": n_ok,
            "functions_analysed": len(rep.fns),
            "sites": rep.sites,
            "per_rule": {r: seen_rules[r] for r in rules},
            "samples": samples[:60],
            "known_findings": ["%s|%s" % (o["rule"], o["key"]) for o, _ in kf],
            "violations": ["%s|%s: %s" % (o["rule"], o["key"], o["text"]) for o in viol],
            "info": rep.infos[:80],
            "checker_cmd": "./check %s --tier %s" % (rep.prop, rep.tier),
            "trusted_base": rep.trusted or [
                "rustc name/type resolution (HIR + typeck results of nightly 1.97)",
                "the instance tables in /verif/rules (each line reviewed against the source)",
            ],
            "exhaustive": False,
        },
        "assumptions": rep.assumptions or [
            "rustc's name and type resolution (HIR + typeck results of the nightly toolchain) is correct for /repo's sources",
            "the analysed configuration is the default feature set of the six workspace crates, non-test code (the `timed` feature does not compile)",
            "the reviewed instance tables in /verif/rules (binder exemptions, bounded loops, newline modes ..) describe the code they were reviewed against; a rule whose anchor is gone fails closed",
            "no emitted Lua and no sylt code is executed: clauses about run-time values are decided only as far as they follow from the shape of the compiler, the preamble and std/*.sy",
        ],
        "wall_s": round(time.time() - rep.t0, 2),
        "violations": len(viol),
    }
    ev["coverage"].update(rep.extra)
    with open(os.path.join(EVIDENCE, rep.prop + ".json"), "w") as fh:
        json.dump(ev, fh, indent=1)
    for l in lines:
        print(l)
    print("%s: %d obligations, %d discharged, %d known findings, %d violations (%.1fs)" % (
        rep.prop, n_ob, n_ok, len(kf), len(viol), time.time() - rep.t0))
    return 1 if viol else 0


def borrow(rep, fn, select, F):
    """run another property's rule function fn(F, report) on a scratch report and take over the obligations `select(o)`
    accepts: rules are shared by clause, not by property number"""
    scratch = Report("_", "quick")
    fn(F, scratch)
    n = 0
    for o in scratch.obs:
        if select(o):
            rep.obs.append(o)
            rep.sites += max(o.get("sites", 1), 0)
            n += 1
    return n
