"""C17 — tokenizer: tokens tile the source and carry exact positions (DESIGN §4 C17)."""
from hir import nodes, fn_body, callee, last, line_of, peel, pp
import positions
import toks

EXPLANATION = (
    "Decides: (LINE) every token pattern that can contain a newline advances the line counter and the column origin once "
    "per newline, so positions after tokens that span lines stay exact; (UNIT) unit consistency of the column arithmetic: "
    "lexer ranges are byte offsets, they are only used to index the byte->char table, columns are differences of char "
    "indices, so positions after non-ASCII text are in characters; the table maps every char's first byte to its 1-based "
    "index; (SKIP) the only pattern that is skipped is [ \\t\\r]+ on Whitespace - newlines and comments are tokens; no "
    "token pattern matches the empty string; (STREAM) string_to_tokens passes on every spanned token of the logos lexer in "
    "order (spanned -> map -> collect, no filter / skip / take / rev / sort); (TABLE) the documented literal tokens are "
    "declared with #[token] and the variable ones with the documented patterns."
    " (TABLE ascii-classes-only) no token pattern uses a Unicode-wide class; (UNIT Span.line_end/col_end) a token's end position is computed after the newlines inside it were counted."
)
UNDECIDED = "longest-match and tiling themselves (trusted to the logos crate's matching semantics)."

MANIFEST = dict(
    text=EXPLANATION + " Not decided: " + UNDECIDED,
    technique="regex-language analysis of the token table + unit (byte/char) abstract interpretation of the position arithmetic",
)


def run(F, rep, tier):
    rep.explanation = EXPLANATION
    rep.undecided = UNDECIDED
    tk = positions.line_rules(F, rep, "LINE")
    positions.unit_rules(F, rep, "UNIT")
    skip_rules(F, rep, tk)
    stream_rules(F, rep)


def skip_rules(F, rep, tk):
    skipped = [n for n in tk.order if tk.rules[n]["skip"]]
    rep.ob("SKIP", "only-whitespace", skipped == ["Whitespace"], "the only skipped pattern belongs to %s" % skipped)
    if "Whitespace" in tk.rules:
        chars = tk.chars("Whitespace")
        rep.ob("SKIP", "whitespace-alphabet", chars == {" ", "\t", "\r"},
               "skipped text consists of %s only (spaces, tabs, carriage returns)" % sorted(repr(c) for c in chars))
    rep.ob("SKIP", "newline-is-token", tk.rules.get("Newline", {}).get("kind") == "token" and tk.rules["Newline"]["pattern"] == "\n"
           and not tk.rules["Newline"]["skip"], "a newline is a token of its own")
    rep.ob("SKIP", "comment-is-token", tk.rules.get("Comment", {}).get("kind") == "regex" and not tk.rules["Comment"]["skip"]
           and not tk.can_contain("Comment", "\n"), "a comment is a token that ends before the newline (pattern %r)" % tk.rules.get("Comment", {}).get("pattern"))
    empties = [n for n in tk.order if tk.rules[n]["kind"] in ("token", "regex") and tk.matches_empty(n)]
    rep.ob("SKIP", "no-empty-match", not empties, "no token pattern matches the empty string (%s)" % empties, sites=len(tk.order))
    errs = [n for n in tk.order if tk.rules[n]["kind"] == "error"]
    rep.ob("SKIP", "error-token", errs == ["Error"], "unmatched input becomes the Error token (%s)" % errs)
    # documented table (docs + property): literals
    want_literals = {
        "Plus": "+", "Minus": "-", "Star": "*", "Slash": "/", "PlusEqual": "+=", "MinusEqual": "-=", "StarEqual": "*=", "SlashEqual": "/=",
        "Colon": ":", "ColonColon": "::", "ColonEqual": ":=", "Equal": "=", "EqualEqual": "==", "NotEqual": "!=", "AssertEqual": "<=>",
        "Unreachable": "<!>", "LeftParen": "(", "RightParen": ")", "LeftBracket": "[", "RightBracket": "]", "LeftBrace": "{", "RightBrace": "}",
        "Greater": ">", "GreaterEqual": ">=", "Less": "<", "LessEqual": "<=", "Arrow": "->", "Comma": ",", "Dot": ".", "Prime": "'",
    }
    bad = {k: (tk.rules.get(k, {}).get("pattern")) for k, v in want_literals.items() if tk.rules.get(k, {}).get("pattern") != v or tk.rules[k]["kind"] != "token"}
    rep.ob("TABLE", "operator-literals", not bad, "the %d operator / punctuation tokens carry their documented spelling (%s)" % (len(want_literals), bad or "ok"),
           sites=len(want_literals))
    want_rx = {"Identifier": "[A-Za-z_][A-Za-z0-9_]*", "Int": "[0-9]+", "String": '"[^"]*"', "Comment": r"//[^\n]*"}
    bad = {k: tk.rules.get(k, {}).get("pattern") for k, v in want_rx.items() if tk.rules.get(k, {}).get("pattern") != v}
    rep.ob("TABLE", "variable-tokens", not bad, "identifier / int / string / comment patterns as documented (%s)" % (bad or "ok"), sites=len(want_rx))
    # the documented token set is ASCII: in logos (as in the regex crate) \d, \w and \s are Unicode classes, so `[\d]+`
    # also swallows Arabic-Indic digits (`1٣` is one Error token, not Int then Error) and makes the automaton read into the
    # bytes of any character that shares a lead byte with some Unicode digit (`1.` before an emoji is an Error, not a Float)
    import re as _re
    wide = {n: tk.rules[n]["pattern"] for n in tk.order if tk.rules[n]["kind"] == "regex" and tk.rules[n]["pattern"]
            and _re.search(r"\\[dDwWsS]|\\p\{|\[\[:", tk.rules[n]["pattern"])}
    rep.ob("TABLE", "ascii-classes-only", not wide,
           "no token pattern uses a Unicode-wide class (\\d, \\w, \\s, \\p{..}): %s" % (wide or "none"), sites=len(tk.order))
    kws = tk.keywords()
    rep.ob("TABLE", "keywords", len(kws) >= 30 and all(tk.rules[v]["kind"] in ("token", "regex") for v in kws.values()),
           "%d keywords are literal tokens that win over the identifier pattern: %s" % (len(kws), sorted(kws)), sites=len(kws))
    rep.extra["token_table"] = {n: tk.rules[n]["pattern"] for n in tk.order if tk.rules[n]["pattern"] is not None}


def stream_rules(F, rep):
    fn = F.fn(positions.FN)
    body = fn_body(fn)
    tail = peel(body["e"]) if body.get("e") is not None else None
    chain = []
    cur = tail
    while isinstance(cur, dict) and cur.get("k") == "MethodCall":
        chain.append(cur["m"])
        cur = peel(cur["recv"])
    src = callee(cur) if isinstance(cur, dict) else None
    rep.ob("STREAM", "chain", chain == ["collect", "map", "spanned"] and (src or "").endswith("Logos::lexer"),
           "string_to_tokens returns lexer(content).%s: every token of the lexer, in order" % ".".join(reversed(chain)), fn["sp"])
    arg_ok = False
    if isinstance(cur, dict) and cur.get("args"):
        a = peel(cur["args"][0])
        arg_ok = a.get("name") == "content"
    rep.ob("STREAM", "whole-input", arg_ok, "the lexer runs over the whole `content`", fn["sp"])
    # the token handed on is the lexer's token, unchanged
    ok = False
    for s in nodes(body, "Struct"):
        if s["path"].endswith("PlacedToken"):
            f = {x["name"]: peel(x["e"]) for x in s["fields"]}
            ok = f.get("token", {}).get("name") == "token" and f.get("span", {}).get("name") == "span"
    rep.ob("STREAM", "token-unchanged", ok, "each PlacedToken carries the lexer's token and the span computed for it", fn["sp"])
