"""C17 — tokenizer: tokens tile the source and carry exact positions (DESIGN §4 C17)."""
from hir import nodes, fn_body, callee, last, line_of, peel, pp
import re
import positions
import toks

EXPLANATION = (
    "Decides: (LINE) every token pattern that can contain a newline advances the line counter and the column origin once "
    "per newline, so positions after tokens that span lines stay exact; (UNIT) unit consistency of the column arithmetic: "
    "lexer ranges are byte offsets, they are only used to index the byte->char table, columns are differences of char "
    "indices, so positions after non-ASCII text are in characters; the table maps every char's first byte to its 1-based "
    "index; (SKIP) the only pattern that is skipped is [ \\t\\r]+ on Whitespace - newlines and comments are tokens; no "
    "token pattern matches the empty string; (STREAM) string_to_tokens passes on every spanned token of the logos lexer in "
    "order (spanned -> map -> collect, no filter / skip / take / rev / sort); (TABLE) the documented literal tokens are "
    "declared with #[token] and the variable ones with the documented patterns."
    " (TABLE ascii-classes-only) no token pattern uses a Unicode-wide class; (UNIT Span.line_end/col_end) a token's end position is computed after the newlines inside it were counted."
    ' (TABLE as languages) token patterns are compared with the documented ones as regular languages (rules/rxlang.py: inclusion both ways on the product automaton, shortest counterexample); (CALLBACK-TOTAL) every text a pattern with a parsing callback matches has the syntax the callback accepts - logos does not fall back to a shorter match.'
    ' (TABLE) the conflict markers are tokens of the table.'
)
UNDECIDED = "longest-match and tiling themselves (trusted to the logos crate's matching semantics)."

MANIFEST = dict(
    text=EXPLANATION + " Not decided: " + UNDECIDED,
    technique="regex-language analysis of the token table + unit (byte/char) abstract interpretation of the position arithmetic",
)


def run(F, rep, tier):
    rep.explanation = EXPLANATION
    rep.undecided = UNDECIDED
    tk = positions.line_rules(F, rep, "LINE")
    # the token stream is that of the whole file: nothing is cut off the text between the reader and the lexer (shared with C15)
    import core, c15
    core.borrow(rep, lambda F_, r_: c15.text_reaches_the_lexer_as_read(F_, r_), lambda o: o["rule"] == "LINE" and
                ("tokenizer-gets" in o["key"] or "lexer-gets" in o["key"]), F)
    positions.unit_rules(F, rep, "UNIT")
    skip_rules(F, rep, tk)
    stream_rules(F, rep)


def skip_rules(F, rep, tk):
    skipped = [n for n in tk.order if tk.rules[n]["skip"]]
    rep.ob("SKIP", "only-whitespace", skipped == ["Whitespace"], "the only skipped pattern belongs to %s" % skipped)
    if "Whitespace" in tk.rules:
        chars = tk.chars("Whitespace")
        rep.ob("SKIP", "whitespace-alphabet", chars == {" ", "\t", "\r"},
               "skipped text consists of %s only (spaces, tabs, carriage returns)" % sorted(repr(c) for c in chars))
    rep.ob("SKIP", "newline-is-token", tk.rules.get("Newline", {}).get("kind") == "token" and tk.rules["Newline"]["pattern"] == "\n"
           and not tk.rules["Newline"]["skip"], "a newline is a token of its own")
    rep.ob("SKIP", "comment-is-token", tk.rules.get("Comment", {}).get("kind") == "regex" and not tk.rules["Comment"]["skip"]
           and not tk.can_contain("Comment", "\n"), "a comment is a token that ends before the newline (pattern %r)" % tk.rules.get("Comment", {}).get("pattern"))
    empties = [n for n in tk.order if tk.rules[n]["kind"] in ("token", "regex") and tk.matches_empty(n)]
    rep.ob("SKIP", "no-empty-match", not empties, "no token pattern matches the empty string (%s)" % empties, sites=len(tk.order))
    errs = [n for n in tk.order if tk.rules[n]["kind"] == "error"]
    rep.ob("SKIP", "error-token", errs == ["Error"], "unmatched input becomes the Error token (%s)" % errs)
    # documented table (docs + property): literals
    want_literals = {
        "Plus": "+", "Minus": "-", "Star": "*", "Slash": "/", "PlusEqual": "+=", "MinusEqual": "-=", "StarEqual": "*=", "SlashEqual": "/=",
        "Colon": ":", "ColonColon": "::", "ColonEqual": ":=", "Equal": "=", "EqualEqual": "==", "NotEqual": "!=", "AssertEqual": "<=>",
        "Unreachable": "<!>", "LeftParen": "(", "RightParen": ")", "LeftBracket": "[", "RightBracket": "]", "LeftBrace": "{", "RightBrace": "}",
        "Greater": ">", "GreaterEqual": ">=", "Less": "<", "LessEqual": "<=", "Arrow": "->", "Comma": ",", "Dot": ".", "Prime": "'",
        # the conflict markers are tokens of their own (longest match: seven `<` are one token, not seven comparisons)
        "GitConflictBegin": "<<<<<<<", "GitConflictEnd": ">>>>>>>",
    }
    bad = {k: (tk.rules.get(k, {}).get("pattern")) for k, v in want_literals.items() if tk.rules.get(k, {}).get("pattern") != v or tk.rules[k]["kind"] != "token"}
    rep.ob("TABLE", "operator-literals", not bad, "the %d operator / punctuation tokens carry their documented spelling (%s)" % (len(want_literals), bad or "ok"),
           sites=len(want_literals))
    want_rx = {"Identifier": "[A-Za-z_][A-Za-z0-9_]*", "Int": "[0-9]+", "String": '"[^"]*"', "Comment": r"//[^\n]*"}
    # compared as *languages* (inclusion both ways on the product automaton, rules/rxlang.py), not as spellings: `//[^\n]*`
    # written as `//.*` is the same token, `//[^\n]+` is not (a comment that is only `//` becomes two Slash tokens)
    import rxlang
    for k, v in sorted(want_rx.items()):
        got = tk.rules.get(k, {}).get("pattern")
        if got is None:
            rep.ob("TABLE", "variable-tokens|%s" % k, False, "no pattern for the %s token" % k)
            continue
        try:
            w1, w2 = rxlang.not_included(v, got), rxlang.not_included(got, v)
        except ValueError as ex:
            rep.ob("TABLE", "variable-tokens|%s" % k, got == v, "the %s pattern `%s` uses a regex form the language comparison does not model (%s) and is not spelled as documented" % (k, got, ex))
            continue
        rep.ob("TABLE", "variable-tokens|%s" % k, w1 is None and w2 is None,
               "the %s pattern `%s` matches exactly the documented language `%s`" % (k, got, v) if w1 is None and w2 is None else
               "the %s pattern `%s` does not match the documented language `%s`: %s" % (
                   k, got, v, ("%r is documented as a %s but not matched" % (w1, k)) if w1 is not None else ("%r is matched but is no %s" % (w2, k))))
    # a pattern with a callback that can fail (`lex.slice().parse()`) matches only text the callback accepts: logos does not
    # fall back to a shorter match when the callback of the longest match fails, so `1e` as one failed Float makes `1else` an
    # Error followed by `lse` instead of Int(1) Else
    F64 = r"[+-]?(inf|infinity|nan|([0-9]+|[0-9]+\.[0-9]*|[0-9]*\.[0-9]+)(e[+-]?[0-9]+)?)"
    n_cb = 0
    for name in tk.order:
        r_ = tk.rules[name]
        if r_["kind"] != "regex" or not re.search(r"\.parse\s*(::\s*<[^>]*>)?\s*\(\s*\)", r_.get("callback") or ""):
            continue
        n_cb += 1
        ref = F64 if name == "Float" else r"[0-9]+" if name == "Int" else r"true|false" if name == "Bool" else None
        if ref is None:
            rep.ob("CALLBACK-TOTAL", name, False, "the %s pattern has a parsing callback whose accepted syntax is not modelled" % name)
            continue
        try:
            import re as _re2
            w = rxlang.not_included(r_["pattern"], ref, _re2.I if name == "Float" else 0)
        except ValueError as ex:
            rep.ob("CALLBACK-TOTAL", name, False, "the %s pattern `%s` uses a regex form the language comparison does not model (%s)" % (name, r_["pattern"], ex))
            continue
        rep.ob("CALLBACK-TOTAL", name, w is None,
               "every text the %s pattern matches has the syntax its parsing callback accepts" % name if w is None else
               "the %s pattern `%s` matches %r, which `parse()` rejects: the longest match wins and then fails, so the text becomes an Error "
               "token instead of the shorter tokens it consists of (`1else` is no longer Int(1) Else)" % (name, r_["pattern"], w))
    rep.floor("CALLBACK-TOTAL", "patterns with a parsing callback", n_cb, 3)
    # the documented token set is ASCII: in logos (as in the regex crate) \d, \w and \s are Unicode classes, so `[\d]+`
    # also swallows Arabic-Indic digits (`1٣` is one Error token, not Int then Error) and makes the automaton read into the
    # bytes of any character that shares a lead byte with some Unicode digit (`1.` before an emoji is an Error, not a Float)
    import re as _re
    wide = {n: tk.rules[n]["pattern"] for n in tk.order if tk.rules[n]["kind"] == "regex" and tk.rules[n]["pattern"]
            and _re.search(r"\\[dDwWsS]|\\p\{|\[\[:", tk.rules[n]["pattern"])}
    rep.ob("TABLE", "ascii-classes-only", not wide,
           "no token pattern uses a Unicode-wide class (\\d, \\w, \\s, \\p{..}): %s" % (wide or "none"), sites=len(tk.order))
    kws = tk.keywords()
    rep.ob("TABLE", "keywords", len(kws) >= 30 and all(tk.rules[v]["kind"] in ("token", "regex") for v in kws.values()),
           "%d keywords are literal tokens that win over the identifier pattern: %s" % (len(kws), sorted(kws)), sites=len(kws))
    rep.extra["token_table"] = {n: tk.rules[n]["pattern"] for n in tk.order if tk.rules[n]["pattern"] is not None}


def stream_rules(F, rep):
    fn = F.fn(positions.FN)
    body = fn_body(fn)
    tail = peel(body["e"]) if body.get("e") is not None else None
    chain = []
    cur = tail
    while isinstance(cur, dict) and cur.get("k") == "MethodCall":
        chain.append(cur["m"])
        cur = peel(cur["recv"])
    src = callee(cur) if isinstance(cur, dict) else None
    rep.ob("STREAM", "chain", chain == ["collect", "map", "spanned"] and (src or "").endswith("Logos::lexer"),
           "string_to_tokens returns lexer(content).%s: every token of the lexer, in order" % ".".join(reversed(chain)), fn["sp"])
    arg_ok = False
    if isinstance(cur, dict) and cur.get("args"):
        a = peel(cur["args"][0])
        arg_ok = a.get("name") == "content"
    rep.ob("STREAM", "whole-input", arg_ok, "the lexer runs over the whole `content`", fn["sp"])
    # the token handed on is the lexer's token, unchanged
    ok = False
    for s in nodes(body, "Struct"):
        if s["path"].endswith("PlacedToken"):
            f = {x["name"]: peel(x["e"]) for x in s["fields"]}
            ok = f.get("token", {}).get("name") == "token" and f.get("span", {}).get("name") == "span"
    rep.ob("STREAM", "token-unchanged", ok, "each PlacedToken carries the lexer's token and the span computed for it", fn["sp"])
