import json
"""C09 — names resolve lexically; consistent renaming changes nothing (DESIGN §4 C09)."""
import re

from hir import nodes, walk, fn_body, callee, last, line_of, peel, norm_path, pat_bindings, pp, find_formats, pat_alternatives, pat_variant
from engines import Visit, matches_on, arm_alternatives, ty_is
from flow import Flow
from scope import Scope, show, TOP, BOTTOM

NR = "sylt_compiler::name_resolution::"
R = NR + "Resolver::"

EXPLANATION = (
    "Decides: (SCOPE) by abstract interpretation of the height of Resolver.stack over all Resolver methods (fixpoint over "
    "the recursive call graph): resolving an expression or an assignable never leaves a binding behind, in "
    "Resolver::statement only the Definition arm grows the stack (by exactly one entry), Block/Loop/if-/case-branches and "
    "function bodies restore the height they started with; (LOOKUP) lookup() scans the stack innermost-first and consults "
    "the file's globals only afterwards, first match returns; (DECL-ORDER) a non-function local is pushed after its "
    "initialiser was resolved, a function before (recursion); (VISIT) the Resolver fold reaches every child of every "
    "parser AST variant, so every identifier is resolved; (NAMES) lowering and emission never read variable names except "
    "the `start` lookup and external names: emitted names are V<id>; (DUP) duplicate globals are reported on an occupied "
    "namespace entry."
    ' (LOOKUP qualified) the head of `x.f` is looked up like any name - locals first (known finding); (DECL-ORDER annotation-before-binder) type annotations are resolved before the binders they annotate are in scope.'
    " (LOOKUP bypass) no direct read of the file's own table of globals yields a variable outside lookup(); (DECL-ORDER function-first) the binder is pushed before the value for function literals only."
    ' (DROPPED-ERROR) no Result of a resolving function is dropped or turned into a plain value; (VISIT-resolve nested split) a nested case split over a child may not ignore a child field of the variant it names.'
    " (ISOLATION namespace-member, shared with C12) a qualified name its module lacks is undeclared; (PARENS shape tests, shared with C14) `self` and the function's own name are in scope whatever parentheses surround the literal."
)
UNDECIDED = "the renaming-invariance theorem itself (follows from SCOPE+LOOKUP+NAMES only together with determinism of id allocation, C16)."

MANIFEST = dict(
    text=EXPLANATION + " Not decided: " + UNDECIDED,
    technique="abstract interpretation of scope-stack height (pairing on all exits) + traversal-completeness and non-access rules over resolved HIR",
)

PARSER_CHILD_NAMES = {"Expression", "Assignable", "Statement", "Type", "TypeAssignable", "IfBranch", "CaseBranch"}


def parser_child(fty):
    for w in re.findall(r"[A-Za-z0-9_:]+", fty):
        if w.split("::")[-1] in PARSER_CHILD_NAMES and not w.startswith("sylt_common"):
            return True
    return False


def run(F, rep, tier):
    rep.explanation = EXPLANATION
    rep.undecided = UNDECIDED
    scope_rules(F, rep, "SCOPE")
    lookup_order(F, rep)
    shadowing_is_never_an_error(F, rep)
    # a longer or shorter name moves what stands to the right of it: no column of a span reaches the emitted bytes (the line that does -
    # in the message of `<!>` - is not moved by a renaming; shared with C14/C08)
    import core, c14
    core.borrow(rep, c14.no_layout_flow, lambda o: o["rule"] == "NO-LAYOUT-FLOW" and o["key"] in ("span-projections", "no-span-calls"), F)
    qualified_lookup(F, rep)
    decl_order(F, rep)
    visit_resolver(F, rep)
    import c07
    c07.visit_loops_complete(F, rep)
    names_unused(F, rep)
    duplicates(F, rep)
    # `a use outside the declaring scope .. is rejected`: what the resolver finds wrong reaches its caller - no Result of a
    # visiting function is dropped or turned into a plain value
    import tc
    tc.dropped_results(F, rep, "DROPPED-ERROR", ["sylt_compiler::name_resolution::"])
    # a qualified name that its module does not have is undeclared - it is not looked up in the scope of the use (shared with C12)
    import core
    import c12
    core.borrow(rep, c12.isolation, lambda o: o["rule"] == "ISOLATION" and "namespace-member-from-that-namespace-only" in o["key"], F)
    # the implicit binder `self` (and the name of a function inside its own body) is in scope whatever parentheses stand around
    # the function literal (shared with C14)
    import c14
    core.borrow(rep, c14.paren_transparent, lambda o: o["rule"] == "PARENS" and "|shape-test#" in o["key"], F)


def scope_rules(F, rep, rule):
    zero = frozenset([0])
    # contracts (assume/guarantee): constructs that must leave the stack as they found it
    must_balanced = ["expression", "assignable", "collection", "binop", "uniop", "if_branch", "case_branch",
                     "lookup", "ty", "type_vec", "ty_assignable"]
    contracts = {R + m: zero for m in must_balanced}
    contracts[R + "push_var"] = frozenset([1])
    contracts[R + "statement"] = frozenset([0, 1])
    sc = Scope(F, R, contracts=contracts)
    summ = sc.solve()
    for p, fn in sc.fns.items():
        rep.analysed(fn)
    for p, want in sorted(contracts.items()):
        m = last(p)
        if p not in sc.fns:
            rep.anchor_missing("function " + p)
            continue
        got = sc.actual[p]
        ok = got is not TOP and (got == BOTTOM or frozenset(got) <= want)
        if m in ("expression", "assignable", "statement"):
            continue  # checked arm by arm below (and as a whole if no arm explains a failure)
        rep.ob(rule, "Resolver::%s|contract" % m, ok,
               "stack height change of Resolver::%s over all success paths: %s (contract %s)%s" % (
                   m, show(got), show(want), "" if ok else ": bindings made inside this construct leak out of it"),
               sc.fns[p]["sp"])
    # per-arm effects
    n_arms = 0
    for fnname, enum, expect in [
        ("expression", "sylt_parser::expression::ExpressionKind", {}),
        ("assignable", "sylt_parser::AssignableKind", {}),
        ("statement", "sylt_parser::statement::StatementKind", {"Definition": frozenset([0, 1])}),
    ]:
        fn = F.fn(R + fnname)
        for vname, h, arm in sc.arm_effects(fn, enum):
            n_arms += 1
            want = expect.get(vname, zero)
            ok = h == want or h == BOTTOM
            rep.ob(rule, "Resolver::%s|%s" % (fnname, vname), ok,
                   "arm %s of Resolver::%s changes the stack height by %s (allowed %s)%s" % (
                       vname, fnname, show(h), show(want),
                       "" if ok else ": a declaration made inside this construct stays visible after it"),
                   line_of(arm))
    rep.floor(rule, "arms of expression/assignable/statement", n_arms, 45)
    arm_bad = {o["key"].split("|")[0] for o in rep.obs if o["rule"] == rule and not o["ok"]}
    for m in ("expression", "assignable", "statement"):
        got = sc.actual[R + m]
        want = contracts[R + m]
        ok = got is not TOP and (got == BOTTOM or frozenset(got) <= want)
        if ok or ("Resolver::" + m) not in arm_bad:
            rep.ob(rule, "Resolver::%s|contract" % m, ok,
                   "stack height change of the whole body of Resolver::%s: %s (contract %s)" % (m, show(got), show(want)),
                   sc.fns[R + m]["sp"])
    for note, where in sc.notes:
        rep.ob(rule, "note|" + note, False, "stack.clear() outside an is_empty() guard", where)
    # a loop over children must restore the stack in every iteration, even if the construct as a whole ends balanced
    seen_l = set()
    for body, got, base in sc.loop_leaks:
        key = line_of(body)
        if key in seen_l:
            continue
        seen_l.add(key)
        rep.ob(rule, "loop-iteration|%s" % _loop_owner(sc, body), False,
               "one iteration of this loop over child nodes changes the stack height (%s -> %s): what is pushed for one child is "
               "still in scope while the next child is resolved (e.g. `self`, pushed for a method field of a blob literal, stays "
               "visible in the fields that follow), even though the stack is restored after the loop" % (base, got), line_of(body))
    rep.ob(rule, "loop-iterations|balanced", not sc.loop_leaks,
           "every loop over child nodes restores the stack height at the end of each iteration", None, sites=0)
    return sc


def _loop_owner(sc, body):
    for p, fn in sc.fns.items():
        for n in nodes(fn_body(fn)):
            if n is body:
                return last(p, 2)
    return "?"


def lookup_order(F, rep):
    fn = F.fn(R + "lookup")
    rep.analysed(fn)
    body = fn_body(fn)
    stmts = body["stmts"] + ([body["e"]] if body.get("e") else [])
    loop_i = glob_i = None
    ok_rev = ok_ret = False
    for i, st in enumerate(stmts):
        e = st.get("e", st) if st.get("k") in ("Semi", "ExprStmt") else st
        for n in nodes(e):
            if n.get("k") == "ForLoop" and loop_i is None:
                # iterator chain over self.stack
                chain = []
                cur = peel(n["iter"])
                while cur.get("k") == "MethodCall":
                    chain.append(cur["m"])
                    cur = peel(cur["recv"])
                on_stack = cur.get("k") == "Field" and cur["name"] == "stack"
                if on_stack:
                    loop_i = i
                    ok_rev = chain.count("rev") % 2 == 1 and "iter" in chain and not (set(chain) - {"rev", "iter"})
                    # body: if <first> == name { return Ok(*<second>) }
                    binds = pat_bindings(n["pat"])
                    for r in nodes(n["body"], "Ret"):
                        v = peel(r["e"])
                        if v.get("k") == "Call" and (callee(v) or "").endswith("Result::Ok"):
                            a = peel(v["args"][0])
                            if a.get("k") == "Path" and len(binds) == 2 and a.get("hid") == binds[1]["hid"]:
                                ok_ret = True
            if n.get("k") == "MethodCall" and n["m"] in ("find", "rfind", "find_map", "position", "rposition") and loop_i is None:
                # the same scan as an iterator chain: self.stack.iter().rev().find(|(n, _)| n == name)
                chain = []
                cur = peel(n["recv"])
                while cur.get("k") == "MethodCall":
                    chain.append(cur["m"])
                    cur = peel(cur["recv"])
                if cur.get("k") == "Field" and cur["name"] == "stack":
                    loop_i = i
                    backwards = (chain.count("rev") % 2 == 1) != (n["m"] in ("rfind", "rposition"))
                    ok_rev = backwards and "iter" in chain and not (set(chain) - {"rev", "iter", "enumerate"})
                    # find() yields the first element of that order whose name equals the parameter; it must be what is returned
                    cl = [a for a in n["args"] if a.get("k") == "Closure"]
                    prm_names = {b["name"] for prm in fn["params"] for b in pat_bindings(prm["pat"])}
                    compares = bool(cl) and any(b_.get("k") == "Binary" and b_.get("op") == "Eq" and
                                                any(x.get("name") in prm_names for x in nodes(b_, "Path") if x.get("res") == "Local")
                                                for b_ in nodes(cl[0]["body"]))
                    fl_ = Flow(fn, body)
                    res_hids = {hid for hid, o in fl_.origin.items() if o.get("src") is not None and any(x is n for x in nodes(o["src"]))}
                    res_hids = fl_.derived(res_hids) if res_hids else set()
                    for r in nodes(body, "Ret"):
                        v = peel(r["e"])
                        if v.get("k") == "Call" and (callee(v) or "").endswith("Result::Ok") and Flow.mentions(v["args"][0], res_hids):
                            ok_ret = compares
            if n.get("k") in ("Call", "MethodCall") and callee(n) == R + "lookup_global" and glob_i is None:
                glob_i = i
    rep.ob("LOOKUP", "Resolver::lookup|innermost-first", bool(ok_rev),
           "lookup() iterates self.stack from the innermost end (an odd number of rev())", fn["sp"])
    rep.ob("LOOKUP", "Resolver::lookup|first-match-returns", bool(ok_ret),
           "the first stack entry with an equal name is returned", fn["sp"])
    rep.ob("LOOKUP", "Resolver::lookup|stack-before-globals", loop_i is not None and glob_i is not None and loop_i < glob_i,
           "globals of the file are consulted only after the stack", fn["sp"])
    # an unqualified name is resolved by lookup() - nowhere else may the *file's own* table answer for a variable: a direct
    # lookup_global(span.file_id, name) that yields a variable skips the scope stack, so a global of that name wins over the
    # local / parameter that shadows it (`fn Point: int do x: Point = ..` would take the module's Point)
    n_direct = 0
    bad = []
    for f2 in F.fns_in(R):
        if f2["_path"] in (R + "lookup", R + "lookup_global"):
            continue
        fl2 = Flow(f2, fn_body(f2))
        for c in nodes(fn_body(f2)):
            if c.get("k") not in ("Call", "MethodCall") or callee(c) != R + "lookup_global":
                continue
            n_direct += 1
            a0 = c["args"][0]
            t0 = fl2.trace(a0) if peel(a0).get("k") == "Path" else a0
            t0 = peel(t0 if isinstance(t0, dict) else a0)
            own_file = t0.get("k") == "Field" and t0["name"] == "file_id"
            if not own_file:
                continue
            # is a variable taken from the answer?
            yields_var = False
            for m in nodes(fn_body(f2), "Match"):
                if any(x is c for x in nodes(m["scrut"])):
                    for arm_ in m["arms"]:
                        for a_ in pat_alternatives(arm_["pat"]):
                            if any((x.get("path") or "").endswith("Name::Name") and pat_bindings(x) for x in _pats(a_)):
                                yields_var = True
            if yields_var:
                bad.append((last(f2["_path"], 2), c))
    rep.ob("LOOKUP", "unqualified-names-go-through-lookup", not bad,
           "of the %d direct reads of a module table outside lookup(), none takes a variable from the file's own table" % n_direct if not bad else
           "%s takes a variable straight from the file's own table of globals (lookup_global(<span>.file_id, name)), without the "
           "scope stack: a local, parameter or case binding of that name no longer shadows the global" % bad[0][0],
           line_of(bad[0][1]) if bad else None)
    rep.floor("LOOKUP", "direct reads of a module table", n_direct, 5)
    # lookup_global must read the namespace of the given namespace id only
    lg = F.fn(R + "lookup_global")
    rep.analysed(lg)
    its = [n for n in nodes(fn_body(lg)) if n.get("k") == "ForLoop" or (n.get("k") == "MethodCall" and n["m"] in ("iter", "values", "keys"))]
    rep.ob("LOOKUP", "Resolver::lookup_global|single-namespace", not its,
           "lookup_global indexes one namespace and does not scan others", lg["sp"])


def _pats(p):
    """a pattern and all its sub-patterns"""
    out, todo = [], [p]
    while todo:
        q = todo.pop()
        if not isinstance(q, dict):
            continue
        out.append(q)
        for k_ in ("pats", "fields"):
            for y in q.get(k_) or []:
                todo.append(y.get("pat") if isinstance(y, dict) and "pat" in y and "k" not in y else y)
        if isinstance(q.get("pat"), dict):
            todo.append(q["pat"])
        if isinstance(q.get("sub"), dict):
            todo.append(q["sub"])
    return out


def qualified_lookup(F, rep, rule="LOOKUP"):
    """`name.field`: `name` is looked up like any other name - innermost local first.  Resolver::assignable asks
    namespace_list first, so namespace_list must not answer `namespace` for a name that a local or parameter shadows"""
    fn = F.fn(R + "namespace_list")
    rep.analysed(fn)
    consults_stack = any(x.get("k") == "Field" and x["name"] == "stack" for x in nodes(fn_body(fn))) or \
        any(callee(c) == R + "lookup" for c in nodes(fn_body(fn)) if c.get("k") in ("Call", "MethodCall"))
    asg = F.fn(R + "assignable")
    first = any(callee(c) == R + "namespace_list" for c in nodes(fn_body(asg), "MethodCall"))
    rep.ob(rule, "Resolver::namespace_list|locals-shadow-namespaces", consults_stack or not first,
           "the head of a qualified name is checked against the local scope before it is taken for a namespace" if consults_stack or not first else
           "Resolver::assignable resolves `x.f` through namespace_list first, and namespace_list looks only at the file's global "
           "names: with `use cfg` in the file (or the always-present `use list`, `use math`, .. of the prelude) a parameter or "
           "local called `cfg` is ignored in `cfg.size`, which silently reads the other module's global", fn["sp"])


def decl_order(F, rep):
    fn = F.fn(R + "statement")
    body = fn_body(fn)
    found = False
    for m in matches_on(body, "sylt_parser::statement::StatementKind"):
        for arm, alt, vp in arm_alternatives(m):
            if not vp or not vp.endswith("::Definition"):
                continue
            found = True
            # the if-chain: [is_empty] / [matches!(value.kind, Function)] / else
            ifs = [n for n in nodes(arm["body"], "If")]
            top = None
            for n in ifs:
                c = peel(n["c"])
                if c.get("k") == "MethodCall" and c["m"] == "is_empty":
                    top = n
                    break
            if top is None:
                rep.ob("DECL-ORDER", "Resolver::statement|Definition|shape", False, "cannot find the is_empty() case split", line_of(arm))
                continue
            second = peel(top["e"]) if top.get("e") else None
            while second is not None and second.get("k") == "Block" and not second["stmts"]:
                second = peel(second["e"])
            if second is None or second.get("k") != "If":
                rep.ob("DECL-ORDER", "Resolver::statement|Definition|shape", False, "cannot find the function/value case split", line_of(arm))
                continue
            # the case split must be exactly `matches!(value.kind, ExpressionKind::Function { .. })`: a property of the
            # initialiser only (not of annotations or names)
            c2 = peel(second["c"])
            if c2.get("k") == "Path" and c2.get("res") == "Local":
                # `let value_is_function = matches!(..); .. else if value_is_function`
                for st in nodes(arm["body"], "Let"):
                    if st.get("init") is not None and any(b["hid"] == c2["hid"] for b in pat_bindings(st["pat"])):
                        c2 = peel(st["init"])
                        break
            is_fn_test = False
            if c2.get("k") == "Match" and any(x == "matches" for x in c2.get("mac", [])):
                scr = peel(c2["scrut"])
                value_hids = {b["hid"] for b in pat_bindings(alt) if b["name"] == "value"}
                on_value = scr.get("k") == "Field" and scr["name"] == "kind" and \
                    any(x.get("hid") in value_hids for x in nodes(scr["e"], "Path"))
                # only a function literal evaluates nothing when it is defined: every other kind (a blob literal with methods
                # included) reads variables at once and would see the still-nil binder instead of the one it shadows
                yes_alts = [pat_variant(a_) for arm_ in c2["arms"] for a_ in pat_alternatives(arm_["pat"])
                            if pat_variant(a_) is not None]
                only_fn = bool(yes_alts) and all(v.endswith("ExpressionKind::Function") for v in yes_alts)
                is_fn_test = on_value and only_fn
            fn_branch, val_branch = second["t"], second.get("e")

            def order(branch):
                seq = []
                for n in nodes(branch):
                    if n.get("k") in ("Call", "MethodCall"):
                        c = callee(n)
                        if c == R + "push_var":
                            seq.append("push")
                        elif c == R + "expression":
                            seq.append("expr")
                return seq
            of, ov = order(fn_branch), order(val_branch)
            # nodes() is pre-order: in `self.push_var(..)` / `self.expression(..)` statements order = evaluation order
            rep.ob("DECL-ORDER", "Resolver::statement|Definition|function-first", is_fn_test and of == ["push", "expr"],
                   "function definitions push their name before resolving the body (%s)" % of, line_of(second))
            rep.ob("DECL-ORDER", "Resolver::statement|Definition|value-after", ov == ["expr", "push"],
                   "other locals are pushed after their initialiser was resolved (%s): `x := x` cannot see itself" % ov,
                   line_of(second))
            og = order(top["t"])
            from flow import uncond_nodes
            un_push = any(n.get("k") == "MethodCall" and callee(n) == R + "push_var" for n in uncond_nodes(top["t"]))
            rep.ob("DECL-ORDER", "Resolver::statement|Definition|global-scope-marker", og == ["push", "expr"] and un_push,
                   "while a global's initialiser is resolved the scope stack holds a marker entry, pushed unconditionally before the "
                   "initialiser (%s): an empty stack is what tells a global from a local, so definitions nested in the initialiser must "
                   "see a non-empty stack" % og, line_of(top))
            looks = [n for n in nodes(top["t"]) if callee(n) == R + "lookup"]
            rep.ob("DECL-ORDER", "Resolver::statement|Definition|global", bool(looks),
                   "top-level definitions resolve to the pre-registered global of that name", line_of(top))
    rep.floor("DECL-ORDER", "Definition arm", 1 if found else 0, 1)
    annotation_before_binder(F, rep)


def annotation_before_binder(F, rep):
    """a type annotation is resolved by looking its names up on the scope stack; the binder it annotates (and, for a
    function, its parameters) must not be on the stack yet, or `A : A = 1` / `fn A: A -> ..` resolve the *type* A to the
    variable being declared and the annotation silently stops meaning the declaration A"""
    TYFNS = {R + "ty", R + "type_vec", R + "ty_assignable"}
    for fname, enum, variants in (("statement", "sylt_parser::statement::StatementKind", ("Definition",)),
                                  ("expression", "sylt_parser::expression::ExpressionKind", ("Function",))):
        fn = F.fn(R + fname)
        for m in matches_on(fn_body(fn), enum):
            for arm, alt, vp in arm_alternatives(m):
                if not vp or last(vp) not in variants:
                    continue
                seq = []
                for n in nodes(arm["body"]):
                    if n.get("k") in ("Call", "MethodCall"):
                        c = callee(n)
                        if c == R + "push_var":
                            seq.append(("push", n))
                        elif c in TYFNS:
                            seq.append(("ty", n))
                first_push = next((i for i, x in enumerate(seq) if x[0] == "push"), None)
                late = [x[1] for i, x in enumerate(seq) if x[0] == "ty" and first_push is not None and i > first_push]
                # a loop (or the closure of an iterator adaptor) that resolves a type *and* pushes a binder in one iteration
                # resolves the next iteration's type with the previous binder in scope: `fn Point: int, p: Point`
                for lp in nodes(arm["body"]):
                    if lp.get("k") in ("ForLoop", "While", "Loop", "Closure"):
                        inner = [x for x in nodes(lp.get("body")) if x.get("k") in ("Call", "MethodCall")]
                        pushes = [x for x in inner if callee(x) == R + "push_var"]
                        tys = [x for x in inner if callee(x) in TYFNS]
                        if pushes and tys:
                            late.append(tys[0])
                n_ty = len([x for x in seq if x[0] == "ty"])
                rep.ob("DECL-ORDER", "Resolver::%s|%s|annotation-before-binder" % (fname, last(vp)), n_ty > 0 and not late,
                       ("the %d type resolution(s) of a %s happen before any of its binders is pushed" % (n_ty, last(vp))) if n_ty and not late else
                       ("a type annotation of a %s is resolved after `push_var`: the annotation can see the variable it annotates "
                        "(`A : A = 1`, `fn A: A -> ..`), so a type name equal to the binder's name resolves to the binder" % last(vp)),
                       line_of(late[0]) if late else line_of(arm))


def visit_resolver(F, rep):
    fold = {R + m for m in ["expression", "assignable", "statement", "block", "if_branch", "case_branch", "case_branch_inner",
                            "collection", "binop", "uniop", "ty", "type_vec", "ty_assignable", "namespace_type_list",
                            "namespace_list", "lookup", "push_var", "new_var", "lookup_global"]}

    def is_child(vpath, fname, fty):
        if parser_child(fty):
            return True
        if fty.strip().endswith("Identifier") and last(vpath) in ("Read",):
            return True
        return False

    exempt = {
        ("Use", "path"): "imports are handled by resolve_global_variables (checked by C12)",
        ("FromUse", "path"): "imports are handled by resolve_global_variables (checked by C12)",
    }
    v = Visit(
        F, rep, "VISIT-resolve", fold,
        ["sylt_parser::expression::ExpressionKind", "sylt_parser::AssignableKind", "sylt_parser::statement::StatementKind",
         "sylt_parser::TypeKind", "sylt_parser::TypeAssignableKind"],
        is_child, exempt,
        struct_children={"sylt_parser::expression::IfBranch": ["condition", "body"],
                         "sylt_parser::expression::CaseBranch": ["body", "variable"]},
        is_leaf=lambda vp, f, t: t.strip().endswith("Identifier"),
    )
    for p in sorted(fold):
        if last(p) in ("namespace_list", "lookup_global", "lookup"):
            continue  # queries, not fold steps (they are sinks for identifiers only)
        fn = F.fn_opt(p)
        if fn:
            v.run_fn(fn)
    rep.floor("VISIT-resolve", "match arms", v.arms_seen, 50)
    rep.floor("VISIT-resolve", "child fields", v.children_checked, 50)


def names_unused(F, rep):
    """intermediate.rs / lua.rs never read variable / parameter / function *names* except for `start` and externals"""
    n_fields = 0
    allowed = {
        ("sylt_compiler::intermediate::compile", "name"): "the `start` lookup (x.name == \"start\" && x.is_global)",
    }
    for prefix in ("sylt_compiler::intermediate::", "sylt_compiler::lua::"):
        for fn in F.fns_in(prefix):
            rep.analysed(fn)
            fl = Flow(fn, fn_body(fn))
            body = fn_body(fn)
            # (a) field projections .name on TypeVariable / Var
            for n in nodes(body, "Field"):
                if n["name"] == "name" and ("TypeVariable" in n.get("base_ty", "") or "name_resolution::Var" in n.get("base_ty", "")):
                    n_fields += 1
                    ok = (fn["_path"], "name") in allowed and "start" in pp_ctx(body, n)
                    rep.ob("NAMES", "%s|.name" % last(fn["_path"], 2), ok,
                           "variable name read in lowering/emission%s" % (" (allowed: start lookup)" if ok else ""), line_of(n))
            # (b) pattern bindings of name-carrying fields of the resolved AST
            for hid, o in fl.origin.items():
                for el in o["path"]:
                    if el[0] == "field" and el[1].startswith(NR) and el[2] == "name":
                        vname = last(el[1])
                        used = Flow.mentions(body, {hid})
                        ok = (not used) or vname in ("ExternalDefinition",)
                        n_fields += 1
                        rep.ob("NAMES", "%s|%s.name" % (last(fn["_path"], 2), vname), ok,
                               "source name of %s %s in lowering/emission" % (
                                   vname, "is the external's Lua name (allowed)" if vname == "ExternalDefinition" and used
                                   else ("is bound but unused" if not used else "is used: renaming would change the output")),
                               fn["sp"])
            # Function.params[*].0 (parameter names) must be ignored: tuple pattern index 0 bound to `_`
            for hid, o in fl.origin.items():
                p = o["path"]
                if len(p) >= 2 and p[-2][0] == "field" and p[-2][1] == NR + "Expression::Function" and p[-2][2] == "params" \
                        and p[-1] == ("tuple", 0):
                    used = Flow.mentions(body, {hid})
                    rep.ob("NAMES", "%s|Function.params.name" % last(fn["_path"], 2), not used,
                           "parameter name is %s in lowering" % ("used" if used else "unused"), fn["sp"])
    rep.ob("NAMES", "census", True, "%d name-carrying bindings/projections in intermediate.rs and lua.rs inspected" % n_fields, sites=n_fields)
    # emitted variable names are a function of the id only: Var::format = "V{}" of self.0
    vf = F.fn("sylt_compiler::intermediate::Var::format")
    parts = [p for _, p in find_formats(fn_body(vf))]
    ok = len(parts) == 1 and parts[0][0] == "V" and len(parts[0]) == 2 and isinstance(parts[0][1], dict) and \
        peel(parts[0][1]["e"]).get("k") == "Field" and peel(parts[0][1]["e"])["name"] == "0"
    rep.ob("NAMES", "Var::format|V{id}", ok, "emitted variable names are `V<id>`: %s" % [pp_parts(p) for p in parts], vf["sp"])


def pp_parts(parts):
    return "".join(p if isinstance(p, str) else "{" + pp(p["e"]) + "}" for p in parts)


def pp_ctx(body, n):
    """pretty text of the smallest closure / statement containing n"""
    for x, parents in walk(body):
        if x is n:
            for p in reversed(parents):
                if p.get("k") in ("Closure", "Let"):
                    return pp(p)
            return pp(parents[-1]) if parents else ""
    return ""


def duplicates(F, rep):
    fn = F.fn(R + "insert_namespace_and_add_definitions")
    rep.analysed(fn)
    body = fn_body(fn)
    ok = False
    for m in nodes(body, "Match"):
        for arm, alt, vp in arm_alternatives(m):
            if vp and vp.endswith("Entry::Occupied"):
                pushes = [c for c in nodes(arm["body"], "MethodCall") if c["m"] == "push"]
                if pushes:
                    ok = True
    rep.ob("DUP", "insert_namespace_and_add_definitions|Occupied=>error", ok,
           "a second definition of a global name in one file is reported (Entry::Occupied arm pushes an error)", fn["sp"])
    # the error vector decides the result
    rets = [n for n in nodes(body, "If") if "is_empty" in pp(n["c"])]
    rep.ob("DUP", "insert_namespace_and_add_definitions|errs=>Err", bool(rets),
           "collected collisions turn into Err", fn["sp"])


def shadowing_is_never_an_error(F, rep, rule="LOOKUP"):
    """A name that is already on the scope stack is *shadowed* by a new declaration of it, never refused: the only function of the
    resolver that reads the entries of the stack and can fail is lookup(), and it fails when the name is absent.  (Pushing, measuring
    and truncating the stack read no entry.)"""
    readers = {}
    for fn in F.fns_in(R[:-len("Resolver::")] if R.endswith("Resolver::") else R):
        for c in nodes(fn_body(fn)):
            if c.get("k") not in ("MethodCall", "Index", "ForLoop"):
                continue
            base = peel(c.get("recv") or c.get("e") or c.get("iter") or {})
            while isinstance(base, dict) and base.get("k") == "MethodCall" and base["m"] in ("iter", "rev", "as_slice", "clone", "iter_mut", "as_ref"):
                base = peel(base["recv"])
            if not (isinstance(base, dict) and base.get("k") == "Field" and base.get("name") == "stack"):
                continue
            if c.get("k") == "MethodCall" and c["m"] in ("len", "truncate", "push", "clear", "is_empty", "pop", "iter", "rev", "reserve"):
                continue
            if c.get("k") == "Index" and "Range" in json.dumps(c.get("i"))[:400]:
                continue  # the part of the stack a construct has pushed itself (`self.stack[ss..]`): its own declarations, not outer ones
            readers.setdefault(fn["_path"], []).append(c)
    n = 0
    for p, cs in sorted(readers.items()):
        n += 1
        fn = F.fn(p)
        fails = [x for x in nodes(fn_body(fn)) if x.get("k") == "Call" and (callee(x) or "").endswith("Result::Err")] + \
                [x for x in nodes(fn_body(fn)) if x.get("k") == "Try"]
        ok = not fails or p == R + "lookup"
        rep.ob(rule, "%s|reads-the-stack-entries" % last(p, 2), ok,
               "%s reads the entries of the scope stack %s" % (last(p, 2), "- it is the lookup" if p == R + "lookup" else "and cannot fail (no error is built in it)") if ok else
               "%s reads which names are on the scope stack and can fail (`%s`): a declaration whose name is taken by an enclosing scope "
               "is refused where it should shadow - the same program with fresh names compiles" % (last(p, 2), pp(fails[0])[:50]),
               line_of(cs[0]))
    rep.floor(rule, "resolver functions that read the entries of the scope stack", n, 2)
