"""Symbolic evaluation of lua.rs `Generator::generate`: per IR variant, the Lua text it writes.

A string value is a list of parts: literal str or a hole tuple
   ("expand", ref)   text substituted for IR variable `ref` (self.expand(v): name or inlined expression)
   ("name", ref)     v.format(): the variable's name V<id>
   ("raw", ref)      a String payload of the IR op written verbatim
   ("num", ref)      Display/Debug of a number / bool / label payload
   ("expand*", ref)  comma separated expansion of a Vec<Var>
   ("name*", ref)    comma separated names of a Vec<Var>
   ("map*", ref, [parts with ("elem", i, kind)], sep)
   ("dyn", text)     something else (not analysable)
where ref is the 0-based position of the payload in the IR variant (or "require").

Events of an arm:
   ("write", parts)
   ("define", ref, parts)                    self.define(*var, value): inlined at its use
   ("case-count", ref, {0:[..],1:[..],"many":[..]})
   ("if-count>0", ref, [events])
"""
from hir import (nodes, walk, fn_body, callee, call_args, last, line_of, peel, peel_clone, pp, norm_path, pat_alternatives,
                 pat_variant, pat_bindings, pat_strip, decode_template, binding_inits)
from engines import matches_on, arm_alternatives, ty_is

GEN = "sylt_compiler::lua::Generator::"
IRP = "sylt_compiler::intermediate::IR"


class LuaTemplates:
    def __init__(self, F):
        self.F = F
        self.fn = F.fn(GEN + "generate")
        self.body = fn_body(self.fn)
        self.inits = binding_inits(self.body)
        self.arms = {}      # variant -> dict(events=[..], fields=[ty..], arm=arm)
        self.guarded = {}   # variant -> [dict(events, fields, arm, guard)]: arms with an `if` guard, tried before the general one
        self.prologue = []  # events before the instruction loop
        self.loop_tail = []  # events after the match inside the loop
        self.loop_head = []  # events before the match inside the loop (indentation)
        self.problems = []
        self._run()

    # ------------------------------------------------------------ driver
    def _run(self):
        adt = self.F.adt(IRP)
        self.variants = {v["name"]: v for v in adt["variants"]}
        loop = None
        for n in nodes(self.body, "ForLoop"):
            if any(True for _ in matches_on(n["body"], IRP)):
                loop = n
                break
        if loop is None:
            self.problems.append("no instruction loop with a match over IR found in generate()")
            return
        # prologue: statements of the function body before the loop
        blk = self.body
        while blk.get("k") == "Block" and not any(self._contains(s, loop) for s in blk["stmts"]):
            if blk.get("e") is not None and self._contains(blk["e"], loop) and peel(blk["e"]).get("k") == "Block":
                blk = peel(blk["e"])
            else:
                break
        env = {"req": None}
        for s in blk.get("stmts", []):
            if self._contains(s, loop):
                break
            self.prologue += self.events(s.get("e") or s.get("init"), {}, {})
        # the dispatch match: the one with most arms over IR (a first small match computes depth)
        ms = list(matches_on(loop["body"], IRP))
        disp = max(ms, key=lambda m: len(m["arms"]))
        self.dispatch = disp
        for arm in disp["arms"]:
            for alt in pat_alternatives(arm["pat"]):
                v = pat_variant(alt)
                if not v:
                    self.problems.append("wildcard arm in the emitter's dispatch")
                    continue
                name = last(v)
                refs = {}
                p = pat_strip(alt)
                if p.get("k") == "TupleStruct":
                    for i, sub in enumerate(p["pats"]):
                        for b in pat_bindings(sub):
                            refs[b["hid"]] = i
                ev = self.events(arm["body"], refs, {})
                entry = dict(events=ev, arm=arm, fields=[f["ty"] for f in self.variants[name]["fields"]], refs=refs)
                if arm.get("guard") is not None:
                    entry["guard"] = arm["guard"]
                    self.guarded.setdefault(name, []).append(entry)
                elif name in self.arms:
                    self.problems.append("two unguarded arms for IR::%s in the emitter's dispatch" % name)
                else:
                    self.arms[name] = entry
        for name in self.guarded:
            if name not in self.arms:
                self.problems.append("IR::%s has only guarded arms in the emitter's dispatch" % name)
        # every instruction reaches the dispatch: nothing in the loop leaves an iteration early (an instruction that is skipped
        # writes nothing - an `End` whose opener was skipped, or the other way round, unbalances the output)
        for x in nodes(loop["body"]):
            if x.get("k") in ("Continue", "Break") and not self._contains(disp, x):
                inner = any(y is not loop and y.get("k") in ("ForLoop", "While", "Loop") and self._contains(y, x) for y in nodes(loop["body"]))
                if not inner:
                    self.problems.append("the instruction loop can skip an instruction (`%s` outside the dispatch)" % x.get("k").lower())
        # statements after the dispatch in the loop body (newline)
        lb = peel(loop["body"])
        after = False
        for s in lb.get("stmts", []):
            if after:
                self.loop_tail += self.events(s.get("e") or s.get("init"), {}, {})
            elif not self._contains(s, disp):
                self.loop_head += self.events(s.get("e") or s.get("init"), {}, {})
            if self._contains(s, disp):
                after = True
        if lb.get("e") is not None and after:
            self.loop_tail += self.events(lb["e"], {}, {})

    @staticmethod
    def _contains(n, target):
        return any(x is target for x in nodes(n))

    # ------------------------------------------------------------ events
    def events(self, n, refs, env):
        """list of events produced by evaluating n (statements in order)"""
        out = []
        if n is None or not isinstance(n, dict):
            return out
        n = peel(n)
        k = n.get("k")
        if k == "Block":
            env = dict(env)
            for s in n["stmts"]:
                if s.get("k") == "Let":
                    init = s.get("init")
                    bs = pat_bindings(s["pat"])
                    if init is not None and len(bs) == 1 and s["pat"].get("k") == "Binding":
                        b = bs[0]
                        if self._is_write_result(init):
                            out += self.events(init, refs, env)  # `let _ = out.write(..)`
                        elif "String" in b["ty"] or "str" in b["ty"] or "Cow" in b["ty"]:
                            env[b["hid"]] = self.sval(init, refs, env)
                        else:
                            # aliases of IR payloads: `let var = t;`
                            r = self.ref_of(init, refs, env)
                            if r is not None:
                                refs = dict(refs)
                                refs[b["hid"]] = r
                            else:
                                out += self.events(init, refs, env)
                    elif init is not None:
                        out += self.events(init, refs, env)
                elif s.get("k") in ("Semi", "ExprStmt"):
                    out += self.events(s["e"], refs, env)
            if n.get("e") is not None:
                out += self.events(n["e"], refs, env)
            return out
        if k == "MethodCall":
            c = callee(n)
            if c == "std::io::Write::write" or n["m"] in ("write", "write_all") and "Write" in (c or ""):
                return [("write", self.sval(n["args"][0], refs, env))]
            if c == GEN + "define":
                r = self.ref_of(n["args"][0], refs, env)
                return [("define", r, self.sval(n["args"][1], refs, env))]
            # other calls: look inside arguments for nested writes (none expected)
            for a in [n["recv"]] + n["args"]:
                out += self.events(a, refs, env)
            return out
        if k == "Match":
            cnt = self._count_of(n["scrut"], refs, env)
            if cnt is not None:
                cases = {}
                for arm in n["arms"]:
                    for alt in pat_alternatives(arm["pat"]):
                        a = pat_strip(alt)
                        if a.get("k") == "LitPat":
                            key = a["lit"]["v"]
                        elif a.get("k") in ("Wild", "Binding"):
                            key = "many"
                        else:
                            key = "?"
                        # arms with a guard (`0 if ..`) share their count with the arm after them: what either writes may be written
                        cases[key] = cases.get(key, []) + self.events(arm["body"], refs, env)
                return [("case-count", cnt, cases)]
            out += self.events(n["scrut"], refs, env)
            alts = [self.events(a["body"], refs, env) for a in n["arms"]]
            if any(alts):
                out.append(("alt", alts))
            return out
        if k == "If":
            c = peel(n["c"])
            # a helper the loader put back in place: `{ let var = t; <condition over var> }` - the parameters stand for the
            # arguments
            while c.get("k") == "Block" and c.get("e") is not None and all(st.get("k") == "Let" for st in c["stmts"]):
                refs = dict(refs)
                for st in c["stmts"]:
                    bs = pat_bindings(st["pat"])
                    r_ = self.ref_of(st.get("init"), refs, env) if st.get("init") is not None else None
                    if len(bs) == 1 and r_ is not None:
                        refs[bs[0]["hid"]] = r_
                c = peel(c["e"])
            # if self.usage_count.get(t).unwrap_or(&0) > &0 { .. }
            if c.get("k") == "Binary" and c.get("op") == "Gt":
                cnt = self._count_of(c["l"], refs, env)
                z = peel(c["r"])
                if cnt is not None and z.get("k") == "Lit" and z.get("v") == 0:
                    ev = self.events(n["t"], refs, env)
                    els = self.events(n.get("e"), refs, env) if n.get("e") else []
                    return [("if-count>0", cnt, ev)] + ([("alt", [els])] if els else [])
            if c.get("k") == "LetCond":
                # if let Some(file) = require { write(...) }
                refs2 = dict(refs)
                for b in pat_bindings(c["pat"]):
                    refs2[b["hid"]] = "require"
                ev = self.events(n["t"], refs2, env)
                return [("if-some", pp(c["init"]), ev)] if ev else []
            a = self.events(n["t"], refs, env)
            b = self.events(n.get("e"), refs, env) if n.get("e") else []
            if a or b:
                return [("alt", [a, b])]
            return []
        if k in ("ForLoop", "While", "Loop"):
            body = self.events(n["body"], refs, env)
            return [("repeat", body)] if body else []
        if k == "Try":
            return self.events(n["e"], refs, env)
        if k in ("Assign", "AssignOp", "Lit", "Path"):
            return []
        if k == "Call":
            for a in n["args"]:
                out += self.events(a, refs, env)
            return out
        return out

    def _is_write_result(self, e):
        e = peel(e)
        return e.get("k") == "MethodCall" and (callee(e) or "").endswith("Write::write")

    def _count_of(self, e, refs, env):
        """self.usage_count.get(v).unwrap_or(&0) -> ref of v"""
        e = peel(e)
        if e.get("k") == "MethodCall" and e["m"] == "unwrap_or":
            g = peel(e["recv"])
            if g.get("k") == "MethodCall" and g["m"] == "get" and "usage_count" in pp(g["recv"]):
                return self.ref_of(g["args"][0], refs, env)
        return None

    def ref_of(self, e, refs, env):
        e = peel_clone(e)
        if isinstance(e, dict) and e.get("k") == "Path" and e.get("res") == "Local":
            if e["hid"] in refs:
                return refs[e["hid"]]
        return None

    # ------------------------------------------------------------ string values
    def sval(self, e, refs, env, depth=0):
        e = peel(e)
        if depth > 30 or not isinstance(e, dict):
            return [("dyn", "?")]
        k = e.get("k")
        if k == "Lit":
            if e["lk"] == "str":
                return [e["v"]]
            return [("dyn", str(e["v"]))]
        if k == "Block":
            # format! expansion blocks: { let args = ..; let args = [..]; { Arguments::new(..) } }
            parts = self._format_block(e, refs, env, depth)
            if parts is not None:
                return parts
            env2 = dict(env)
            for s in e["stmts"]:
                if s.get("k") == "Let" and s.get("init") is not None and s["pat"].get("k") == "Binding":
                    b = s["pat"]
                    if "String" in b["ty"] or "str" in b["ty"]:
                        env2[b["hid"]] = self.sval(s["init"], refs, env2, depth + 1)
            if e.get("e") is not None:
                return self.sval(e["e"], refs, env2, depth + 1)
            return [("dyn", "block")]
        if k == "Path" and e.get("res") == "Local":
            if e["hid"] in env:
                return list(env[e["hid"]])
            if e["hid"] in refs:
                r = refs[e["hid"]]
                t = e.get("ty", "")
                if "String" in t or "str" in t:
                    return [("raw", r)]
                if "Var" in t and "Vec" not in t:
                    return [("var?", r)]
                return [("num", r)]
            return [("dyn", e["name"])]
        if k == "Call":
            c = callee(e) or ""
            if c in ("core::hint::must_use", "alloc::fmt::format"):
                return self.sval(e["args"][0], refs, env, depth + 1)
            if c.endswith("fmt::Arguments::from_str"):
                return self.sval(e["args"][0], refs, env, depth + 1)
            if c.endswith("fmt::Arguments::new"):
                return self._format_call(e, refs, env, depth)
            return [("dyn", pp(e)[:40])]
        if k == "MethodCall":
            c = callee(e) or ""
            m = e["m"]
            if c == GEN + "expand":
                return [("expand", self.ref_of(e["args"][0], refs, env))]
            if c == "sylt_compiler::intermediate::Var::format":
                return [("name", self.ref_of(e["recv"], refs, env))]
            if c == GEN + "comma_sep":
                return [("expand*", self.ref_of(e["args"][0], refs, env))]
            if m in ("to_string", "as_ref", "into", "clone", "to_owned", "as_str", "as_bytes", "borrow"):
                return self.sval(e["recv"], refs, env, depth + 1)
            if m == "unwrap_or" and peel(e["recv"]).get("k") == "MethodCall" and peel(e["recv"])["m"] == "strip_suffix":
                inner = peel(e["recv"])
                return [("raw-stripped", self.ref_of(inner["recv"], refs, env), pp(inner["args"][0]))]
            if m == "replace" and len(e["args"]) == 2:
                # s.replace('\n', "\\n"): the payload with some characters written as escapes
                inner = self.sval(e["recv"], refs, env, depth + 1)
                a, b = peel(e["args"][0]), peel(e["args"][1])
                if a.get("k") == "Lit" and b.get("k") == "Lit" and len(inner) == 1 and isinstance(inner[0], tuple) and \
                        inner[0][0] in ("raw", "raw-escaped"):
                    prev = inner[0][2] if inner[0][0] == "raw-escaped" else ()
                    return [("raw-escaped", inner[0][1], prev + ((str(a.get("v")), str(b.get("v"))),))]
                return [("dyn", pp(e)[:40])]
            if m == "join":
                sep = self.sval(e["args"][0], refs, env, depth + 1)
                sep = sep[0] if sep and isinstance(sep[0], str) else "?"
                return self._join(peel(e["recv"]), sep, refs, env, depth)
            return [("dyn", pp(e)[:40])]
        return [("dyn", pp(e)[:40])]

    def _join(self, coll, sep, refs, env, depth):
        # X.iter().map(closure).collect::<Vec<_>>()
        chain = []
        cur = coll
        while cur.get("k") == "MethodCall":
            chain.append(cur)
            cur = peel(cur["recv"])
        base = self.ref_of(cur, refs, env)
        maps = [c for c in chain if c["m"] == "map"]
        if base is None or len(maps) != 1:
            return [("dyn", "join")]
        clo = [a for a in maps[0]["args"] if a.get("k") == "Closure"][0]
        refs2 = dict(refs)
        for i, p in enumerate(clo["params"]):
            p0 = pat_strip(p)
            if p0.get("k") == "Tuple":
                for j, sub in enumerate(p0["pats"]):
                    for b in pat_bindings(sub):
                        refs2[b["hid"]] = ("elem", base, j)
            else:
                for b in pat_bindings(p0):
                    refs2[b["hid"]] = ("elem", base, None)
        inner = self.sval(clo["body"], refs2, env, depth + 1)
        if inner == [("name", ("elem", base, None))]:
            return [("name*", base, sep)]
        return [("map*", base, inner, sep)]

    def _format_block(self, blk, refs, env, depth):
        calls = [c for c in nodes(blk, "Call") if (callee(c) or "").endswith("fmt::Arguments::new")]
        if len(calls) != 1:
            return None
        # only treat as a format block if the block is exactly the lowering shape
        lets = [s for s in blk["stmts"] if s.get("k") == "Let"]
        if not lets or not all(any(b["name"] == "args" for b in pat_bindings(s["pat"])) for s in lets):
            return None
        return self._format_call(calls[0], refs, env, depth)

    def _format_call(self, call, refs, env, depth):
        tmpl = peel(call["args"][0])
        if tmpl.get("k") != "Lit" or tmpl.get("lk") != "bytes":
            return [("dyn", "format")]
        pieces = decode_template(tmpl["v"])

        def resolve(x):
            x = peel(x)
            s = 0
            while isinstance(x, dict) and x.get("k") == "Path" and x.get("res") == "Local" and x["hid"] in self.inits and s < 6 \
                    and x["name"] == "args":
                x = peel(self.inits[x["hid"]])
                s += 1
            return x
        arr = resolve(call["args"][1])
        argv = []
        if arr.get("k") == "Array":
            for el in arr["es"]:
                el = peel(el)
                cc = callee(el) or ""
                spec = cc.split("::")[-1].replace("new_", "")
                y = peel(el["args"][0])
                if y.get("k") == "Field" and y["name"].isdigit():
                    tup = resolve(y["e"])
                    if tup.get("k") == "Tup":
                        y = peel(tup["es"][int(y["name"])])
                argv.append((y, spec))
        out = []
        for p in pieces:
            if isinstance(p, str):
                out.append(p)
            else:
                if p["arg"] >= len(argv):
                    out.append(("dyn", "arg?"))
                    continue
                y, spec = argv[p["arg"]]
                v = self.sval(y, refs, env, depth + 1)
                if spec == "debug":
                    v = [(("num-debug",) + h[1:]) if isinstance(h, tuple) and h[0] == "num" else
                         (("raw-debug",) + h[1:]) if isinstance(h, tuple) and h[0] == "raw" else h for h in v]
                out += v
        # merge literals
        merged = []
        for p in out:
            if isinstance(p, str) and merged and isinstance(merged[-1], str):
                merged[-1] += p
            else:
                merged.append(p)
        return merged


def render(parts, hole=None):
    """text of a string value with holes shown as {kind:ref}"""
    def h(p):
        if hole:
            return hole(p)
        if p[0] == "map*":
            return "{map* %s: %s sep %r}" % (p[1], render(p[2]), p[3])
        if p[0] == "raw-escaped":
            return "{raw-escaped:%s}" % (p[1],)
        return "{" + ":".join(str(x) for x in p) + "}"
    return "".join(p if isinstance(p, str) else h(p) for p in parts)


def flatten_writes(events, count_case):
    """sequence of string values written for an arm under a usage-count case (0, 1, 'many'):
    returns (text parts, defines[(ref, parts)])"""
    text, defs = [], []
    for ev in events:
        if ev[0] == "write":
            text += ev[1]
        elif ev[0] == "define":
            defs.append((ev[1], ev[2]))
        elif ev[0] == "case-count":
            sub = ev[2].get(count_case, ev[2].get("many", []))
            t, d = flatten_writes(sub, count_case)
            text += t
            defs += d
        elif ev[0] == "if-count>0":
            if count_case != 0:
                t, d = flatten_writes(ev[2], count_case)
                text += t
                defs += d
        elif ev[0] == "if-some":
            t, d = flatten_writes(ev[2], count_case)
            text += [("opt-begin",)] + t + [("opt-end",)]
            defs += d
        elif ev[0] in ("alt", "repeat"):
            text.append(("dyn", ev[0]))
    return text, defs


def holes(parts):
    for p in parts:
        if isinstance(p, tuple):
            yield p
            if p[0] == "map*":
                yield from holes(p[2])


def summary(T, name, entry=None):
    """facts about one IR variant's emission:
       dest        position defined (None if the op defines nothing)
       inlinable   routed through define() when used once
       droppable   nothing written when the destination is unused
       guard       position whose count>0 guards the whole emission (Assign & co)
       reads       positions expanded (read as expressions)
       names       positions written as plain names
       raws        positions written verbatim (strings)
       text        rendered template for the 'many' case; value = the defining expression text
    """
    a = entry or T.arms[name]
    ev = a["events"]
    s = dict(dest=None, inlinable=False, droppable=False, guard=None, reads=set(), names=set(), raws=set(), nums=set(),
             text_many="", text_one="", value=None, dyn=False, lvalue_expand=set())
    cc = [e for e in ev if e[0] == "case-count"]
    if cc:
        c = cc[0]
        s["dest"] = c[1]
        s["droppable"] = c[2].get(0) == []
        one = c[2].get(1, [])
        s["inlinable"] = any(e[0] == "define" and e[1] == c[1] for e in one)
        for e in one:
            if e[0] == "define":
                s["value"] = e[2]
    top_defs = [e for e in ev if e[0] == "define"]
    if top_defs and not cc:
        # the arm hands its text to define() whatever the use count: written where (and if) the destination is expanded
        s["dest"] = top_defs[0][1]
        s["inlinable"] = True
        s["droppable"] = True
        s["value"] = top_defs[0][2]
    gc = [e for e in ev if e[0] == "if-count>0"]
    if gc and not cc:
        s["guard"] = gc[0][1]
    tm, dm = flatten_writes(ev, "many")
    t1, d1 = flatten_writes(ev, 1)
    s["text_many"] = render(tm)
    s["text_one"] = render(t1)
    s["parts_many"] = tm
    allparts = list(tm)
    for _, v in dm + d1:
        allparts += v
    for h in holes(allparts):
        if isinstance(h[1] if len(h) > 1 else None, tuple) and h[1] and h[1][0] == "elem":
            continue  # inner holes of a map*: accounted for through the map* entry below
        if h[0] == "expand":
            s["reads"].add(h[1])
        elif h[0] == "expand*":
            s["reads"].add((h[1], "*"))
        elif h[0] == "name":
            s["names"].add(h[1])
        elif h[0] == "name*":
            s["names"].add((h[1], "*"))
        elif h[0] in ("raw", "raw-debug", "raw-stripped", "raw-escaped"):
            s["raws"].add(h[1])
        elif h[0] in ("num", "num-debug"):
            s["nums"].add(h[1])
        elif h[0] == "elem":
            pass
        elif h[0] == "map*":
            for hh in holes(h[2]):
                if hh[0] == "expand" and isinstance(hh[1], tuple):
                    s["reads"].add((hh[1][1], "*", hh[1][2]))
                if hh[0] == "raw" and isinstance(hh[1], tuple):
                    s["raws"].add((hh[1][1], "*", hh[1][2]))
        elif h[0] in ("dyn", "var?"):
            s["dyn"] = True
    return s
