"""C01 — compiled Lua behaves as the Sylt source denotes: structural necessary conditions (DESIGN §4 C01)."""
import re

from hir import nodes, fn_body, callee, last, line_of, peel, pp, norm_path
from engines import Visit, ty_mentions
import irp
from flow import Flow
import irtpl
import luatpl
import luaparse
import pipe

NR = "sylt_compiler::name_resolution::"
CG = "sylt_compiler::intermediate::IRCodeGen::"

EXPLANATION = (
    "Decides the necessary conditions of semantic preservation that are visible in the compiler's shape: (PIPE) every "
    "binary/unary operator and compound assignment is carried unchanged, operands in order, through token -> parser node -> "
    "resolver op -> IR op -> Lua text and ends in the Lua operator/helper the fixed table names; (IRP-read) every IR operand "
    "the emitter reads is counted by count_usages and each template uses each operand exactly once, so no producer is "
    "dropped and no inlined expression duplicated; (IRP-order) only ops that read no mutable heap state may be inlined into "
    "their use; (IRP-bracket) every lowering template opens and closes Lua blocks in balance, per repetition class and in "
    "every alternative; (IRP-shortcircuit) in and/or the right operand's code lies inside the if, the left before it, and "
    "`or` tests the negation; (VISIT) the lowering fold lowers every child of every AST node exactly once, in field order; "
    "(SCOPE) the resolver closes every scope it opens, so no variable is read outside the Lua block that declares it (the C09 instances); (LITERAL) literal emission forms; (START) the call of start is the last thing emitted."
    " (VISIT-dep, CYCLE) a global's initialiser runs after everything it reads: every read below a top-level statement is a dependency edge and a re-entered node is an error."
    ' (IRP-order late read) no lowering template lets an op read a program variable directly after the code of a child expression has run (`x += f()` snapshots x first).'
    ' (ORDER-PRESERVED) no list-valued field of a node the resolver constructs passes through a sorted or hashed collection or a reordering call: children are evaluated in the order written; (RE-CHECK) no pass hands a node and one of its parts to visiting functions twice on one path (a node lowered twice runs its effects twice); (IRP-def-use) every result an IR op names has been emitted before it on every alternative of the lowering template.'
    ' (DECL-ORDER) `x := .. x ..` resolves its initialiser before the new binder is in scope - only a function literal may see itself; (PIPE special-case) a separate lowering arm for an operator lowers like the general one; (IRP-order guarded arms) what a guarded emitter arm routes through define() is inlined too.'
    ' (IRP-guarded) a guarded arm of the lowering lowers like the general arm for its construct; (IRP-synth) the lowering lowers only nodes it was given; (IRP-final, shared with C06) an early `ret` is wrapped so that statements may follow it.'
    " (IRP-child) the child a recursive lowering call receives is named by the arm's pattern; (IRP-list) instruction lists are only joined; (VALUE-SEM presence, shared with C18) reading an element yields the element, `false` included."
)
UNDECIDED = ("the behaviour of emitted programs (nothing is executed; no reference semantics of Sylt or Lua is modelled), numeric "
             "edge cases, run-time representation beyond these protocol rules, and the semantics of preamble.lua (C18/C19).")

MANIFEST = dict(
    text=EXPLANATION + " Not decided: " + UNDECIDED,
    technique="table extraction + symbolic template evaluation of the lowering (intermediate.rs) and emission (lua.rs) code; producer/consumer agreement rules",
)

BIN_TABLE = {
    # token: (parser node, resolver op, IR op, Lua value text)
    "Plus": ("Add", "Add", "Add", "__ADD({l}, {r})"),
    "Minus": ("Sub", "Sub", "Sub", "({l} - {r})"),
    "Star": ("Mul", "Mul", "Mul", "({l} * {r})"),
    "Slash": ("Div", "Div", "Div", "({l} / {r})"),
    "EqualEqual": ("Comparison/Equals", "Equals", "Equals", "({l} == {r})"),
    "NotEqual": ("Comparison/NotEquals", "NotEquals", "NotEquals", "({l} ~= {r})"),
    "Greater": ("Comparison/Greater", "Greater", "Greater", "({l} > {r})"),
    "GreaterEqual": ("Comparison/GreaterEqual", "GreaterEqual", "GreaterEqual", "({l} >= {r})"),
    "Less": ("Comparison/Less", "Less", "Less", "({l} < {r})"),
    "LessEqual": ("Comparison/LessEqual", "LessEqual", "LessEqual", "({l} <= {r})"),
}
SPECIAL_BIN = {"And": ("And", "And"), "Or": ("Or", "Or"), "AssertEqual": ("AssertEq", "AssertEq")}
UN_TABLE = {"Minus": ("Neg", "Neg", "Neg", "(-{x})"), "Not": ("Not", "Not", "Not", "(not {x})")}
ASSIGN_TABLE = {"PlusEqual": ("Add", "Add"), "MinusEqual": ("Sub", "Sub"), "StarEqual": ("Mul", "Mul"),
                "SlashEqual": ("Div", "Div"), "Equal": ("Nop", "Nop")}


def run(F, rep, tier):
    rep.explanation = EXPLANATION
    rep.undecided = UNDECIDED
    T = irp.Tables(F)
    for p in T.T.problems:
        rep.ob("TEMPLATES", "lua|" + p, False, p)
    for u in T.unknown:
        rep.ob("TEMPLATES", "ir|unanalysable|%s" % u[1], False, "lowering code the template evaluator cannot follow: %s" % (u,), u[2])
    rep.floor("TEMPLATES", "IR variants with an emission arm", len(T.S), 41)
    rep.floor("TEMPLATES", "lowering templates", len(list(T.all_templates())), 30)
    rep.ob("TEMPLATES", "emitter-covers-all-IR", set(T.S) == set(T.variants),
           "the emitter has an arm for every IR variant (%d/%d)" % (len(T.S), len(T.variants)))
    pipe_rules(F, rep, T)
    irp_read(F, rep, T)
    irp_def_use(F, rep, T)
    irp_order(F, rep, T)
    irp_late_read(F, rep, T)
    guarded_arms_lower_alike(F, rep, T)
    lowers_only_what_was_written(F, rep)
    children_lowered_as_written(F, rep)
    instruction_lists_are_only_joined(F, rep)
    # an early `ret` / `break` can be followed by further statements of its block: the emitter wraps it (`do return x end`) -
    # a bare Lua `return` must be the last statement of its block (shared with C06)
    import core as _core
    import c06 as _c06
    _core.borrow(rep, lambda F_, r_: _c06.final(F_, r_, T), lambda o: o["rule"] == "IRP-final", F)
    irp_bracket(F, rep, T)
    irp_shortcircuit(F, rep, T)
    visit_lowering(F, rep, T)
    literals(F, rep, T)
    # a global's initialiser runs after everything it reads: the dependency fold must see every read
    import c11
    c11.dependency_visit(F, rep)
    c11.cycle(F, rep)
    # every variable the lowering names is a Lua `local` of the block the resolver's scope corresponds to: a name that
    # stays resolvable after its block (a scope the resolver forgets to close) is read as nil outside that block
    import c09
    c09.scope_rules(F, rep, "SCOPE")
    # `x := .. x ..` reads the x it shadows: the new local is declared `nil` first by the lowering, so the initialiser must not
    # be resolved with the new binder in scope (function literals excepted - their bodies run later)
    c09.decl_order(F, rep)
    # arithmetic on tuples and strings: what the metamethods of the runtime do with the operators the emitter writes
    import c19
    ast_ = c19.luaparse.parse(F.read("sylt-compiler/src/preamble.lua"))
    mf_ = c19.meta_functions(ast_)
    c19.arith(rep, mf_, F)
    c19.concat(rep, ast_)
    # .. and comparisons: `==`, `<`, `<=` on tuples, lists, blobs and enum values are the runtime's metamethods too
    c19.equality(rep, mf_)
    c19.ordering(rep, mf_)
    # reading an element of a tuple / list / blob yields the element - `false` included (shared with C18)
    import c18 as _c18
    _c18.presence_is_not_truth(rep, _c18.Lua(F.read("sylt-compiler/src/preamble.lua")))
    # every variable a lowering template writes is a Lua local of its activation (blobs with `self`, case bindings, results)
    import c10
    c10.local_rule(F, rep, T)
    # every element of every list of statements / arguments / fields is lowered
    import c07 as _c07
    _c07.visit_loops_complete(F, rep)
    # .. and once: a node lowered twice runs its effects twice
    import c07
    c07.single_visit(F, rep)
    # children are evaluated in the order the resolved tree lists them
    import engines
    engines.order_preserved(F, rep, "ORDER-PRESERVED", ["sylt_compiler::name_resolution::"],
                            ["sylt_compiler::name_resolution::"], 20)


def lua_value_text(T, op):
    s = T.S.get(op)
    if not s or not s["value"]:
        return None
    def h(p):
        if p[0] == "expand":
            return {1: "{l}", 2: "{r}"}.get(p[1], "{%s}" % p[1])
        return "{?}"
    return luatpl.render(s["value"], h)


def pipe_rules(F, rep, T):
    fn_infix, ptab, valid, rhs = pipe.parser_infix(F)
    rep.analysed(fn_infix)
    fn_un, utab, uprec = pipe.parser_unary(F)
    rep.analysed(fn_un)
    fn_res, rtab, helpers = pipe.resolver_ops(F)
    rep.analysed(fn_res)
    # IR templates of the generic BinOp arm
    generic = None
    for a in T.expr:
        if a["label"] == "BinOp" and a["items"]:
            for it in a["items"]:
                if it[0] == "alt":
                    generic = dict(zip(it[2], it[1]))
    if generic is None:
        rep.anchor_missing("generic BinOp arm of IRCodeGen::expression")
        generic = {}
    for tok, (pnode, rop, irop, text) in BIN_TABLE.items():
        got = ptab.get(tok)
        pkind = (got[0] + ("/" + got[1] if got and got[1] else "")) if got else None
        rep.ob("PIPE", "parser|%s" % tok, bool(got) and pkind == pnode and got[2],
               "token %s parses to %s with operands (lhs, rhs) in order (expected %s)" % (tok, pkind, pnode), got[3] if got else None)
        r = rtab.get(pnode)
        rep.ob("PIPE", "resolver|%s" % pnode, bool(r) and r[0] == "binop" and r[1] == rop and r[2] == (0, 1) if pnode.count("/") == 0
               else bool(r) and r[0] == "binop" and r[1] == rop and r[2] == (0, 2),
               "%s resolves to BinOp::%s with operands in order %s (expected BinOp::%s)" % (pnode, r[1] if r else None, r[2] if r else None, rop),
               r[3] if r else None)
        ops = generic.get(rop)
        ok = False
        desc = None
        if ops and len(ops) == 1 and ops[0][0] == "op":
            o = ops[0]
            desc = "%s(%s)" % (o[1], ", ".join(irtpl.show_val(x) for x in o[2]))
            ok = o[1] == irop and len(o[2]) == 3 and o[2][0][0] == "fresh" and o[2][1] == ("result", "a", ()) and o[2][2] == ("result", "b", ())
        rep.ob("PIPE", "lowering|BinOp::%s" % rop, ok, "BinOp::%s lowers to %s (expected %s(tmp, R(a), R(b)))" % (rop, desc, irop))
        lt = lua_value_text(T, irop)
        rep.ob("PIPE", "emission|IR::%s" % irop, lt == text, "IR::%s is written as `%s` (expected `%s`)" % (irop, lt, text))
    # .. and there is no second arm for one of these operators: an arm of its own for some operands (`"a" + "b"` joined at
    # compile time, `x * 1` dropped) computes the operator by another route than the runtime's
    rops = {v[1]: v[2] for v in BIN_TABLE.values()}
    for a in T.expr:
        lab = a["label"]
        if not lab.startswith("BinOp/") or lab.split("/", 1)[1] not in rops:
            continue
        rop = lab.split("/", 1)[1]
        ops = [i for i in (a["items"] or []) if i[0] == "op"]
        codes = [i for i in (a["items"] or []) if i[0] == "code"]
        same = len(ops) == 1 and ops[0][1] == rops[rop] and len(ops[0][2]) == 3 and ops[0][2][1] == ("result", "a", ()) and \
            ops[0][2][2] == ("result", "b", ()) and [c[2] for c in codes] == ["a", "b"]
        rep.ob("PIPE", "lowering|BinOp::%s|special-case" % rop, same,
               "the separate arm for BinOp::%s lowers like the general one" % rop if same else
               "IRCodeGen::expression has an arm of its own for some BinOp::%s expressions which does not evaluate both operands and "
               "apply IR::%s to the results (it emits %s): for those operands the operator is computed by the compiler, not by the "
               "runtime's operator - e.g. two string literals joined as *source text*, where an escape at the end of the left one "
               "(`\"tab\\9\" + \"1\"`) runs on into the right one" % (rop, rops[rop], [o[1] for o in ops] or "nothing"),
               a["arm"].get("sp") if isinstance(a.get("arm"), dict) else None)
    for tok, (pnode, rop) in SPECIAL_BIN.items():
        got = ptab.get(tok)
        rep.ob("PIPE", "parser|%s" % tok, bool(got) and got[0] == pnode and got[2], "token %s parses to %s" % (tok, got[0] if got else None))
        r = rtab.get(pnode)
        rep.ob("PIPE", "resolver|%s" % pnode, bool(r) and r[1] == rop and r[2] == (0, 1), "%s resolves to BinOp::%s" % (pnode, r[1] if r else None))
    rep.ob("PIPE", "parser|operator-sets-agree", set(ptab) == valid and set(ptab) == set(BIN_TABLE) | set(SPECIAL_BIN),
           "the validity match and the node-building match of infix() handle the same 13 tokens (%d / %d)" % (len(valid), len(ptab)), fn_infix["sp"])
    for h, (ok, sp) in helpers.items():
        rep.ob("PIPE", "resolver|%s-keeps-order" % h, ok, "Resolver::%s builds the node with op/a/b from its parameters in order" % h, sp)
    for tok, (pnode, rop, irop, text) in UN_TABLE.items():
        rep.ob("PIPE", "parser|unary %s" % tok, utab.get(tok) == pnode, "unary %s parses to %s" % (tok, utab.get(tok)), fn_un["sp"])
        r = rtab.get(pnode)
        rep.ob("PIPE", "resolver|%s" % pnode, bool(r) and r[0] == "uniop" and r[1] == rop, "%s resolves to UniOp::%s" % (pnode, r[1] if r else None))
        arm = [a for a in T.expr if a["label"] == "UniOp/" + rop]
        ok = False
        if arm and arm[0]["items"]:
            ops = [i for i in arm[0]["items"] if i[0] == "op"]
            ok = len(ops) == 1 and ops[0][1] == irop and ops[0][2][1] == ("result", "a", ())
        rep.ob("PIPE", "lowering|UniOp::%s" % rop, ok, "UniOp::%s lowers to IR::%s(tmp, R(a))" % (rop, irop))
        s = T.S.get(irop)
        lt = luatpl.render(s["value"], lambda p: "{x}" if p == ("expand", 1) else "{?}") if s and s["value"] else None
        rep.ob("PIPE", "emission|IR::%s" % irop, lt == text, "IR::%s is written as `%s` (expected `%s`)" % (irop, lt, text))
    # <=> : Equals + Assert on the same temporary
    arm = [a for a in T.expr if a["label"] == "BinOp/AssertEq"]
    ok = False
    if arm and arm[0]["items"]:
        ops = [i for i in arm[0]["items"] if i[0] == "op"]
        ok = [o[1] for o in ops] == ["Equals", "Assert"] and ops[0][2][0] == ops[1][2][0] and \
            ops[0][2][1] == ("result", "a", ()) and ops[0][2][2] == ("result", "b", ())
    rep.ob("PIPE", "lowering|BinOp::AssertEq", ok, "`<=>` lowers to Equals(c, R(a), R(b)); Assert(c)")
    s = T.S.get("Assert")
    rep.ob("PIPE", "emission|IR::Assert", bool(s) and s["text_many"].startswith("assert({expand:0}"),
           "IR::Assert is written as `%s`" % (s["text_many"] if s else None))
    # compound assignment
    tok2op, op2bin = pipe.assign_ops(F)
    for tok, (op, bop) in ASSIGN_TABLE.items():
        rep.ob("PIPE", "assign|%s" % tok, tok2op.get(tok) == op and op2bin.get(op) == bop,
               "assignment token %s -> Op::%s -> BinOp::%s (expected %s / %s)" % (tok, tok2op.get(tok), op2bin.get(tok2op.get(tok, "")), op, bop))
    sa = [a for a in T.stmt if a["label"] == "Assignment"]
    if sa and sa[0]["items"]:
        alts = [it for it in sa[0]["items"] if it[0] == "alt" and "Nop" in it[2]]
        ok = bool(alts)
        for it in alts:
            m = dict(zip(it[2], it[1]))
            for bop in ("Add", "Sub", "Mul", "Div"):
                ops = m.get(bop, [])
                good = len(ops) == 1 and ops[0][1] == bop and ops[0][2][1][0] == "altval" and ops[0][2][2] == ("result", "value", ())
                rep.ob("PIPE", "assign-lowering|%s" % bop, good,
                       "`x %s= v` lowers to IR::%s(res, <current value of the target>, R(value)) with the old value first" % (
                           {"Add": "+", "Sub": "-", "Mul": "*", "Div": "/"}[bop], bop))
            nop = m.get("Nop", [])
            rep.ob("PIPE", "assign-lowering|Nop", len(nop) == 1 and nop[0][1] == "Assign" and nop[0][2][1] == ("result", "value", ()),
                   "`x = v` stores R(value)")
        if not ok:
            rep.anchor_missing("op alternatives of the Assignment template")
    else:
        rep.anchor_missing("Assignment arm of IRCodeGen::statement")


def position_reads(s):
    out = set()
    for r in s["reads"]:
        out.add(r)
    return out


def irp_def_use(F, rep, T):
    """the result variable of a sub-expression is only meaningful after that sub-expression's code: in every lowering
    template, an op that names `result(child)` comes after the code of `child` (in the same or an enclosing sequence, on
    every alternative) - a condition whose code is emitted somewhere else (hoisted in front of an if-chain, dropped) is
    evaluated at the wrong time or not at all"""
    n = 0

    def vals_in(v, out):
        if isinstance(v, tuple):
            if v and v[0] == "result":
                out.append(v)
            for x in v:
                vals_in(x, out)
        elif isinstance(v, list):
            for x in v:
                vals_in(x, out)

    def walk_items(items, defined, name, by_label=None):
        nonlocal n
        defined = set(defined)
        by_label = {} if by_label is None else by_label      # what earlier alternatives with the same label defined (one case split)
        for it in items:
            if it[0] == "code":
                if isinstance(it[3], tuple) and it[3] and it[3][0] == "result":
                    defined.add(it[3][1])
                elif it[1] == "expr":
                    defined.add(it[2])
            elif it[0] == "op":
                used = []
                vals_in(it[2], used)
                for u in used:
                    n += 1
                    ok = u[1] in defined
                    if not ok:
                        rep.ob("IRP-def-use", "%s|%s|%s" % (name, it[1], u[1]), False,
                               "IR::%s in the lowering of %s names the result of `%s`, but the code of `%s` has not been emitted at that "
                               "point of the template: the sub-expression is evaluated elsewhere (or not at all)" % (it[1], name, u[1], u[1]),
                               it[3] if len(it) > 3 else None)
            elif it[0] == "rep":
                defined |= walk_items(it[2], defined, name)
            elif it[0] == "alt":
                labels = it[2] if len(it) > 2 and it[2] else [None] * len(it[1])
                outs = []
                for a, lab in zip(it[1], labels):
                    key = str(lab).split("[")[0]
                    o = walk_items(a, defined | by_label.get(key, set()), name, by_label)
                    by_label[key] = by_label.get(key, set()) | (o - defined)
                    outs.append(o)
                if outs:
                    common = set.intersection(*outs)
                    defined |= common
        return defined
    for name, items, result, arm in T.all_templates():
        if items:
            walk_items(items, set(), name)
    rep.ob("IRP-def-use", "census", True, "%d uses of sub-expression results checked against the position of their code" % n, None, sites=n)
    rep.floor("IRP-def-use", "result uses", n, 30)


def irp_read(F, rep, T):
    counted = T.counted
    rep.floor("IRP-read", "count_usages arms", len(counted), 40)
    for name in T.variants:
        s = T.S.get(name)
        if s is None:
            continue
        cnt = counted.get(name)
        if cnt is None:
            cnt = counted.get("_")
            if cnt is None:
                rep.ob("IRP-read", "%s|counted" % name, False, "count_usages has no arm for IR::%s" % name)
                continue
        reads = set()
        for r in s["reads"]:
            if isinstance(r, tuple):
                reads.add(tuple(x for x in r))
            else:
                reads.add(r)
        # positions that merely *declare* a name are written through expand() too
        decl = declared_positions(s)
        missing = []
        for r in sorted(reads, key=str):
            if r in decl or (("lvalue", r) in decl and name == "External"):
                continue  # declarations; External's target is a global name, never a temporary
            if r not in cnt:
                missing.append(r)
        if not missing:
            rep.ob("IRP-read", "%s|reads-counted" % name, True,
                   "IR::%s: operands read by the emitter %s are counted %s" % (name, sorted(map(str, reads - decl)), sorted(map(str, cnt))))
        else:
            for r in missing:
                masked = masked_everywhere(T, name, r)
                rep.ob("IRP-read", "%s|pos%s" % (name, r), masked is True,
                       "IR::%s operand %s is read by the emitter but not counted by count_usages%s" % (
                           name, r, " — masked: in every lowering template that emits it the same variable is an operand of "
                           "another counted op of that template (%s)" % masked if masked is True else
                           ": if nothing else uses the variable its producer is dropped and the op is silently skipped"))
        # each operand exactly once in the text
        parts = s["value"] if s["value"] else s.get("parts_many", [])
        seen = {}
        for h in luatpl.holes(parts):
            if h[0] in ("expand", "expand*"):
                seen[h[1]] = seen.get(h[1], 0) + 1
        dup = {k: v for k, v in seen.items() if v > 1}
        rep.ob("IRP-read", "%s|once" % name, not dup, "IR::%s writes each operand exactly once (%s)" % (name, dup or "ok"))


def declared_positions(s):
    """positions written through expand() directly after `local ` / `local function `: declarations"""
    out = set()
    parts = s.get("parts_many", [])
    for i, p in enumerate(parts):
        if isinstance(p, tuple) and p[0] == "expand" and i > 0 and isinstance(parts[i - 1], str) and \
                re.search(r"local (function )?$", parts[i - 1]):
            out.add(p[1])
    # an l-value written through expand(): `{expand:p} = ...` at the start of the statement
    if len(parts) >= 2 and isinstance(parts[0], tuple) and parts[0][0] == "expand" and isinstance(parts[1], str) \
            and parts[1].startswith(" = "):
        out.add(("lvalue", parts[0][1]))
    return out


def masked_everywhere(T, opname, pos):
    """True if in every template emitting `opname`, the variable at operand `pos` is also an operand (at a counted
    position) of another op of the same template"""
    found = False
    for label, items, result, arm in T.all_templates():
        for lin in irp.linearisations(items):
            ops = [it for it, _ in irp.flat_ops(lin)]
            for o in ops:
                if o[1] != opname or not isinstance(pos, int) or pos >= len(o[2]):
                    continue
                found = True
                var = o[2][pos]
                ok = False
                for o2 in ops:
                    if o2 is o:
                        continue
                    cnt = T.counted.get(o2[1], {})
                    for p2, a in enumerate(o2[2]):
                        if a == var and p2 in cnt:
                            ok = True
                if not ok:
                    return "not masked in template %s" % label
    return True if found else "op is never produced"


PURE_HELPERS = {"__ADD", "__LIST", "__TUPLE", "__BLOB", "__VARIANT"}


def irp_order(F, rep, T):
    n = 0
    # arms with a guard are templates for some instructions of that kind: what they inline is inlined too
    guarded = [("%s?guard#%d" % (g[0], i + 1), g[3]) for i, g in enumerate(T.G)]
    for name, s in sorted(T.S.items()) + guarded:
        if not s["inlinable"]:
            continue
        n += 1
        text = luatpl.render(s["value"], lambda p: "V1" if p[0] in ("expand", "name") else "V1, V2" if p[0] in ("expand*", "name*")
                             else "x" if p[0].startswith("raw") else "1" if p[0].startswith("num") else "x = V1" if p[0] == "map*" else "V1")
        try:
            e = luaparse.parse_expr(text)
        except luaparse.LuaSyntaxError as ex:
            rep.ob("IRP-order", "%s|parse" % name, False, "inlinable value `%s` is not a Lua expression: %s" % (text, ex))
            continue
        heap = []
        for x in luaparse.walk(e):
            if x.get("k") == "Index":
                if x["obj"].get("k") == "Name" and x["obj"]["name"] in ("math", "string", "table") and x.get("dot"):
                    continue  # a constant of Lua's own library (`math.huge`): no Sylt program can assign to it
                heap.append("field/index read `%s`" % luaparse.show(x))
            if x.get("k") == "Call":
                f = luaparse.show(x["f"])
                if f not in PURE_HELPERS:
                    heap.append("call of %s" % f)
            if x.get("k") == "MethodCall":
                heap.append("method call")
            if x.get("k") == "Binop" and x.get("op") in ("==", "~=", "<", "<=", ">", ">="):
                # on lists and blobs the comparison is a metamethod that walks the operands' contents - which are mutable
                heap.append("comparison `%s` (its metamethod reads the contents of lists and blobs)" % x["op"])
        rep.ob("IRP-order", "%s|inlinable-reads-heap" % name, not heap,
               "IR::%s is inlined into its use when used once; its value `%s` %s" % (
                   name, text, "reads no mutable state" if not heap else
                   "reads mutable heap state (%s): the read is delayed past whatever is evaluated in between, e.g. "
                   "`p.x + bump(p)` reads p.x after bump(p) has run" % "; ".join(heap)))
    rep.floor("IRP-order", "inlinable ops", n, 20)
    # operands of inlinable ops are materialised: Copy (variable read) and Call are never inlined
    for name in ("Copy", "Call"):
        s = T.S.get(name)
        some = [g for g in T.G if g[0] == name and g[3]["inlinable"]]
        rep.ob("IRP-order", "%s|materialised" % name, bool(s) and not s["inlinable"] and not some,
               "IR::%s is always materialised as a local (a variable read is a snapshot; a call happens where it is written)" % name
               if bool(s) and not s["inlinable"] and not some else
               "IR::%s is written where it is *used* for some instructions (%s): a call happens, and a variable is read, at the point "
               "where the text ends up - behind every statement emitted in between (`(10 + c.tick()) * 2 + c.peek() * 1` calls "
               "peek() first)" % (name, "the arm guarded by `%s`" % pp(some[0][1])[:80] if some else "its arm routes it through define()"))


def guarded_arms_lower_alike(F, rep, T, rule="IRP-guarded"):
    """A guarded arm of the lowering is a special case of a construct for some programs (`ret f(..)` inside f, `not (a < b)`,
    an `if` with an empty else).  The general arm is what the other rules examine; a special case has to lower to the same
    template - the same children evaluated in the same order, the same instructions on their results - or it is a second
    meaning for the same syntax."""
    def shape(items):
        out = []
        for it in items or []:
            if it[0] == "op":
                out.append(("op", it[1], tuple(map(str, it[2]))))
            elif it[0] == "code":
                out.append(("code", it[1], it[2]))
            elif it[0] in ("rep", "alt"):
                out.append((it[0], str(it[1]) if it[0] == "rep" else "", tuple(shape(x) if isinstance(x, list) else str(x) for x in it[2]) if it[0] == "rep" else
                            tuple(tuple(shape(a_)) for a_ in it[1])))
            else:
                out.append((it[0],))
        return out
    n = 0
    for table, what in ((T.stmt, "statement"), (T.expr, "expression")):
        general = {}
        for a in table:
            if not a["arm"].get("guard"):
                general.setdefault(a["label"], a)
        for a in table:
            if not a["arm"].get("guard"):
                continue
            n += 1
            g = general.get(a["label"]) or general.get(a["label"].split("/")[0])
            same = g is not None and shape(a["items"]) == shape(g["items"]) and str(a.get("result")) == str(g.get("result"))
            ops = [it[1] for it in (a["items"] or []) if it[0] == "op"]
            rep.ob(rule, "%s|%s|guarded-arm" % (what, a["label"]), same,
                   "the guarded arm for %s lowers like the general one" % a["label"] if same else
                   "the lowering has an arm of its own for some `%s` %ss (guard `%s`) that does not lower like the general arm (it emits "
                   "%s): for those programs the construct means something else - e.g. `ret f(..)` inside f turned into assignments to "
                   "f's own parameters and a jump shares the parameters between activations, and closures that captured them see the "
                   "new values" % (a["label"], what, pp(a["arm"]["guard"])[:70], ops or "nothing"), line_of(a["arm"]))
    rep.ob(rule, "census", True, "%d guarded arms in the lowering" % n, sites=n)


def lowers_only_what_was_written(F, rep, rule="IRP-synth"):
    """The lowering translates the nodes the checker has seen.  A node that the lowering builds itself and then lowers
    (`not (a < b)` rewritten to `a >= b`, `x - x` to `0` ..) is a program nobody checked, with the meaning of the rewrite rule -
    which has to hold for every value (NaN: `not (nan < 1.0)` is true, `nan >= 1.0` is false)."""
    IRG = "sylt_compiler::intermediate::IRCodeGen::"
    fold = {IRG + m for m in ("expression", "statement", "definition", "expression_block")}
    NODE = ("sylt_compiler::name_resolution::Expression", "sylt_compiler::name_resolution::Statement")
    n = 0
    bad = []
    for fn in F.fns_in(IRG):
        for c in nodes(fn_body(fn), "MethodCall"):
            if callee(c) not in fold:
                continue
            n += 1
            for a in c["args"]:
                for x in nodes(a):
                    if x.get("k") in ("Struct", "Call") and (norm_path(x.get("path") or callee(x) or "")).startswith(NODE) and \
                            (x.get("k") == "Struct" or x.get("ctor")):
                        bad.append((fn, c, x))
    rep.ob(rule, "lowering-visits-only-given-nodes", not bad,
           "none of the %d recursive lowering calls is handed a node built on the spot" % n if not bad else
           "%s lowers a node it has built itself (`%s`): the rewritten program was never type-checked and means what the rewrite "
           "rule means - `not (x >= 0.0)` rewritten to `x < 0.0` answers false for NaN where the program says true" % (
               last(bad[0][0]["_path"], 2), pp(bad[0][2])[:60]), line_of(bad[0][1]) if bad else None)
    rep.floor(rule, "recursive lowering calls", n, 20)


def instruction_lists_are_only_joined(F, rep, rule="IRP-list"):
    """The lowering builds the instruction list of a construct by putting the lists of its parts one after the other.  It never
    takes instructions out of a list, filters, sorts or partitions one: where an instruction stands decides the Lua block a
    `local` belongs to (a declaration moved out of a nested function literal becomes an upvalue shared by all its activations)
    and the order in which effects happen."""
    IRG = "sylt_compiler::intermediate::"
    REARRANGE = {"partition", "retain", "sort", "sort_by", "sort_by_key", "sort_unstable", "sort_unstable_by", "sort_unstable_by_key",
                 "dedup", "dedup_by", "dedup_by_key", "reverse", "rev", "swap", "remove", "swap_remove", "drain", "filter", "filter_map",
                 "skip", "take", "skip_while", "take_while", "split_off", "truncate", "rotate_left", "rotate_right", "drain_filter", "extract_if"}
    bad = []
    n = 0
    for fn in F.fns_in(IRG):
        if last(fn["_path"]) in ("count_usages",):
            continue
        for c in nodes(fn_body(fn), "MethodCall"):
            rt = (c.get("recv_ty") or "")
            if "intermediate::IR" not in rt:
                continue
            n += 1
            if c["m"] in REARRANGE:
                bad.append((fn, c))
    rep.ob(rule, "instruction-lists-are-only-joined", not bad,
           "no instruction list is filtered, partitioned, sorted or cut (%d operations on instruction lists)" % n if not bad else
           "%s rearranges an instruction list (`.%s()`): instructions that were emitted inside a nested construct end up somewhere "
           "else - the result temporaries of a nested function literal declared in the enclosing function are shared by all its "
           "activations" % (last(bad[0][0]["_path"], 2), bad[0][1]["m"]), line_of(bad[0][1]) if bad else None)
    rep.floor(rule, "operations on instruction lists", n, 10)
    # .. and an instruction, once made, is not rewritten where it lies: the one exception is the function literal of a definition,
    # whose IR::Function is given the variable's own name (reviewed: nothing else names that temporary)
    inplace = []
    m_ = 0
    for fn in F.fns_in(IRG):
        if last(fn["_path"]) in ("count_usages",):
            continue
        for c in nodes(fn_body(fn)):
            if c.get("k") == "MethodCall" and "intermediate::IR" in (c.get("recv_ty") or "") and \
                    c["m"] in ("last_mut", "first_mut", "iter_mut", "get_mut", "as_mut_slice", "split_last_mut", "split_first_mut", "as_mut", "fill", "fill_with"):
                m_ += 1
                inplace.append((fn, c, ".%s()" % c["m"]))
            if c.get("k") == "Assign" and peel(c.get("l") or {}).get("k") == "Index" and "intermediate::IR" in (peel(c["l"]).get("base_ty") or ""):
                m_ += 1
                if not (last(fn["_path"]) == "definition" and "IR::Function" in pp(c.get("r"))[:40]):
                    inplace.append((fn, c, pp(c)[:40]))
    rep.ob(rule, "instructions-are-not-rewritten-in-place", not inplace,
           "no instruction is rewritten after it was made (%d reviewed in-place store: a definition's function literal takes the variable's name)" % m_
           if not inplace else
           "%s rewrites an instruction of a finished list in place (`%s`): the temporary the instruction defined is what the rest of the "
           "list - and the use counts - refer to; renamed into a variable, a value the emitter inlines at its one use is built anew at every "
           "run of that use instead of once where the definition stands" % (last(inplace[0][0]["_path"], 2), inplace[0][2]),
           line_of(inplace[0][1]) if inplace else None)


def children_lowered_as_written(F, rep, rule="IRP-child"):
    """Which child a recursive lowering call receives is decided by the arm's pattern alone.  A name that is re-bound from a
    case split before it is lowered (`let (a, b, op) = match op { Greater => (b, a, Less), .. }`) makes the operand that is
    evaluated first depend on the node: `next() > next()` runs the right call first."""
    IRG = "sylt_compiler::intermediate::IRCodeGen::"
    fold = {IRG + m for m in ("expression", "statement", "definition", "expression_block")}
    n = 0
    bad = []
    for fn in F.fns_in(IRG):
        fl = Flow(fn, fn_body(fn))
        for c in nodes(fn_body(fn), "MethodCall"):
            if callee(c) not in fold or not c["args"]:
                continue
            n += 1
            a = peel_all(c["args"][0])
            hops = 0
            while isinstance(a, dict) and a.get("k") == "Path" and a.get("res") == "Local" and hops < 8:
                o = fl.origin.get(a["hid"])
                if o is None or o["kind"] != "let" or o.get("src") is None:
                    break
                src = peel_all(o["src"])
                if src.get("k") in ("Match", "If"):
                    bad.append((fn, c, a.get("name")))
                    break
                a = src
                hops += 1
    rep.ob(rule, "lowered-child-is-the-pattern's", not bad,
           "each of the %d recursive lowering calls receives a child named by the arm's pattern (or an element of one)" % n if not bad else
           "%s lowers `%s`, which was re-bound from a case split: which child of the node that is - and with it the order in which the "
           "children are evaluated - depends on the node (`a > b` lowered as `b < a` runs b's code first: `next() > next()` compares the "
           "second result with the first)" % (last(bad[0][0]["_path"], 2), bad[0][2]), line_of(bad[0][1]) if bad else None)


def peel_all(e):
    from hir import peel_clone
    e = peel_clone(e)
    while isinstance(e, dict) and ((e.get("k") == "Unary" and e.get("op") == "Deref") or e.get("k") == "AddrOf"):
        e = peel_clone(e["e"])
    return e


def irp_late_read(F, rep, T, rule="IRP-order"):
    """a program variable that an op reads *directly* (not through the snapshot IR::Copy makes when the variable is
    read as an expression) is read when that op executes.  If code of a child expression runs between the source
    position of the read and the op, a call in that child can change the variable first: `x += f()` must read x
    before f() runs, like `x = x + f()` does."""
    n = 0
    for label, items, result, arm in T.all_templates():
        bad = {}
        for lin in irp.linearisations(items):
            code_before = None
            for it in lin:
                if it[0] == "code":
                    code_before = code_before or it[2]
                elif it[0] == "rep":
                    if any(x[0] == "code" for x in it[2]):
                        code_before = code_before or "repeated children"
                elif it[0] == "op":
                    s_ = T.S.get(it[1])
                    if not s_:
                        continue
                    import re as _re
                    mw = _re.match(r"^(?:local )?\{(?:expand|name):(\d+)\} = ", s_["text_many"] or "")
                    written = int(mw.group(1)) if mw else None
                    for pos in s_["reads"]:
                        if not isinstance(pos, int) or pos >= len(it[2]) or pos == written:
                            continue
                        o = it[2][pos]
                        opts = [o] if o and o[0] == "resvar" else [x for x in o[1] if x and x[0] == "resvar"] if o and o[0] == "altval" else []
                        for ov in opts:
                            n += 1
                            if code_before:
                                bad[(it[1], ov[1])] = (code_before, it[3] if len(it) > 3 else None)
        for (op, var), (child, where) in sorted(bad.items()):
            rep.ob(rule, "%s|%s|late-read-of-%s" % (label, op, var), False,
                   "lowering template %s: IR::%s reads the program variable `%s` itself, after the code of `%s` has run: a call "
                   "in there that assigns the variable changes the operand (`x += f()` stores x_after_f + f(), while "
                   "`x = x + f()` snapshots x first)" % (label, op, var, child), where)
        if not bad:
            rep.ob(rule, "%s|direct-variable-reads" % label, True,
                   "lowering template %s reads no program variable after evaluating a child" % label, line_of(arm) if arm else None, sites=0)
    rep.floor(rule, "direct reads of program variables in templates", n, 1)


def irp_bracket(F, rep, T):
    n = 0
    for label, items, result, arm in T.all_templates():
        lins = irp.linearisations(items)
        bad = None
        for lin in lins:
            d = irp.bracket_delta(lin)
            if d is None:
                bad = "alternatives or repetitions with different block deltas"
                break
            const, coef, minpref = d
            # closes issued by a repetition over X balance opens issued by an earlier repetition over X
            if const != 0 or coef:
                bad = "net block depth %+d %s" % (const, coef or "")
                break
            if minpref < 0:
                bad = "closes a block before opening it"
                break
        n += 1
        rep.ob("IRP-bracket", label, bad is None,
               "lowering template %s %s" % (label, "opens and closes Lua blocks in balance (%d straight-line variants)" % len(lins)
                                            if bad is None else "is unbalanced: " + bad),
               line_of(arm) if arm else None)
    # emitter side: which ops open / close / continue blocks
    expect = {"If": "if {expand:0} then", "Else": "else", "End": "end", "Loop": "while true do"}
    for op, text in expect.items():
        s = T.S.get(op)
        rep.ob("IRP-bracket", "emission|%s" % op, bool(s) and s["text_many"] == text, "IR::%s is written as `%s`" % (op, s["text_many"] if s else None))
    s = T.S.get("Function")
    rep.ob("IRP-bracket", "emission|Function", bool(s) and s["text_many"].startswith("local function {expand:0}(") and s["text_many"].endswith(")"),
           "IR::Function opens `%s`" % (s["text_many"] if s else None))


def irp_shortcircuit(F, rep, T):
    for opname, first, test_neg in (("And", False, False), ("Or", True, True)):
        arm = [a for a in T.expr if a["label"] == "BinOp/" + opname]
        if not arm or not arm[0]["items"]:
            rep.anchor_missing("BinOp/%s arm of IRCodeGen::expression" % opname)
            continue
        items = arm[0]["items"]
        kinds = [(it[0], it[1] if it[0] == "op" else it[2]) for it in items]
        idx = {k: i for i, k in enumerate(kinds)}
        try:
            ia, ib = idx[("code", "a")], idx[("code", "b")]
            iif, iend = idx[("op", "If")], idx[("op", "End")]
            ibool = idx[("op", "Bool")]
            iass = max(i for i, k in enumerate(kinds) if k == ("op", "Assign"))
        except KeyError:
            rep.ob("IRP-shortcircuit", opname + "|shape", False, "template of `%s` lacks one of code(a), code(b), Bool, If, Assign, End: %s" % (opname.lower(), kinds),
                   line_of(arm[0]["arm"]))
            continue
        res = arm[0]["result"]
        ok_place = ia < iif < ib < iass < iend and ibool < iif
        rep.ob("IRP-shortcircuit", opname + "|right-operand-inside-if", ok_place,
               "`%s`: left operand is evaluated before the if, the right operand and the assignment of its value inside it" % opname.lower(),
               line_of(arm[0]["arm"]))
        cond = items[iif][2][0]
        if test_neg:
            inot = idx.get(("op", "Not"))
            ok = inot is not None and items[inot][2][1] == ("result", "a", ()) and items[inot][2][0] == cond and inot < iif
            rep.ob("IRP-shortcircuit", "Or|tests-negation", ok, "`or` evaluates the right operand only if the left one is false (If(not R(a)))", line_of(arm[0]["arm"]))
        else:
            rep.ob("IRP-shortcircuit", "And|tests-left", cond == ("result", "a", ()), "`and` evaluates the right operand only if the left one is true (If(R(a)))", line_of(arm[0]["arm"]))
        # value of the result variable when the right operand is skipped: constant propagation over the ops
        # before the If (Bool(c, lit)  or  Define(c); Bool(d, lit); Assign(c, d))
        vals = {}
        for it in items[:iif]:
            if it[0] == "op" and it[1] == "Bool" and it[2][1][0] == "lit":
                vals[it[2][0]] = it[2][1][1]
            elif it[0] == "op" and it[1] == "Assign" and it[2][1] in vals:
                vals[it[2][0]] = vals[it[2][1]]
        rep.ob("IRP-shortcircuit", opname + "|default", vals.get(res) is first,
               "`%s` yields %s when the right operand is skipped (value of the result before the if: %s)" % (
                   opname.lower(), str(first).lower(), vals.get(res)), line_of(arm[0]["arm"]))
        a = items[iass]
        rep.ob("IRP-shortcircuit", opname + "|takes-right-value", a[2][0] == res and a[2][1] == ("result", "b", ()),
               "otherwise the result is the right operand's value", line_of(arm[0]["arm"]))


def visit_lowering(F, rep, T):
    CHILD = ["name_resolution::Expression", "name_resolution::Statement", "name_resolution::IfBranch", "name_resolution::CaseBranch"]
    fold = {CG + m for m in ["expression", "statement", "expression_block", "definition", "compile"]}
    v = Visit(F, rep, "VISIT-lower", fold, [NR + "Statement", NR + "Expression"],
              lambda vp, f, t: ty_mentions(t, CHILD), {},
              struct_children={NR + "IfBranch": ["condition", "body"], NR + "CaseBranch": ["body"]},
              wildcard_ok={("IRCodeGen::compile", "Statement"): "top-level statements other than definitions produce no code "
                           "(Blob/Enum) or cannot occur (parser's outer_statement filter; C07 K1')"})
    for m in ["expression", "statement", "compile"]:
        v.run_fn(F.fn(CG + m))
    rep.floor("VISIT-lower", "match arms", v.arms_seen, 30)
    # exactly once: no child is lowered twice in one straight-line variant of a template
    for label, items, result, arm in T.all_templates():
        for lin in irp.linearisations(items):
            seen = {}
            def count(seq, mult=()):
                for it in seq:
                    if it[0] == "code":
                        seen[(it[2], mult)] = seen.get((it[2], mult), 0) + 1
                    elif it[0] == "rep":
                        # one iteration takes one of the body's alternatives: worst case over them
                        best = {}
                        for l2 in irp.linearisations(it[2]):
                            saved = dict(seen)
                            seen.clear()
                            count(l2, mult + (it[1],))
                            for k2, v2 in seen.items():
                                best[k2] = max(best.get(k2, 0), v2)
                            seen.clear()
                            seen.update(saved)
                        for k2, v2 in best.items():
                            seen[k2] = seen.get(k2, 0) + v2
            count(lin)
            dup = {k[0]: v2 for k, v2 in seen.items() if v2 > 1}
            if dup:
                rep.ob("VISIT-lower", "once|" + label, False, "template %s lowers a child more than once: %s (its effects would run twice)" % (label, dup),
                       line_of(arm) if arm else None)
                break
        else:
            rep.ob("VISIT-lower", "once|" + label, True, "template %s lowers each child at most once" % label, line_of(arm) if arm else None)
    # evaluation order = field order for the two-operand arms
    for a in T.expr:
        if a["items"] and a["label"].startswith(("BinOp", "Index")):
            codes = [it[2] for it in a["items"] if it[0] == "code"]
            want = ["a", "b"] if a["label"].startswith("BinOp") else ["value", "index"]
            rep.ob("VISIT-lower", "order|" + a["label"], codes == want, "operands of %s are evaluated left to right (%s)" % (a["label"], codes), line_of(a["arm"]))
    call = [a for a in T.expr if a["label"] == "Call"]
    if call and call[0]["items"]:
        seq = [(it[0], it[1] if it[0] == "rep" else it[2]) for it in call[0]["items"] if it[0] in ("code", "rep")]
        rep.ob("VISIT-lower", "order|Call", seq == [("code", "function"), ("rep", "args")], "callee first, then the arguments in order (%s)" % seq, line_of(call[0]["arm"]))


def float_nonfinite(F, rep, T):
    """IR::Float is written with `{:?}`, which prints a Lua numeral for every finite f64 and the *names* `inf` / `NaN`
    otherwise - in Lua a read of an undefined global, i.e. nil.  A literal above f64::MAX lexes (digits and a dot) and
    parses to infinity, so either the front end rejects non-finite literals or the emitter has an arm for them whose
    text is a Lua expression for infinity."""
    import luaparse
    s = T.S.get("Float")
    debug = bool(s) and any(h[0] == "num-debug" for h in luatpl.holes(s["parts_many"] + (s["value"] or [])))
    handled = None
    for name, guard, refs, gs in T.G:
        if name != "Float":
            continue
        calls = [last(callee(c) or "") for c in nodes(guard, "MethodCall")]
        neg = any(u.get("op") == "Not" for u in nodes(guard, "Unary"))
        covers_inf = "is_infinite" in calls and not neg or ("is_finite" in calls and neg)
        on_payload = any(x.get("hid") in refs for x in nodes(guard, "Path"))
        txt = luatpl.render(gs["value"]) if gs["value"] else gs["text_many"]
        try:
            e = luaparse.parse_expr(txt)
            is_inf = luaparse.show(e).replace(" ", "") in ("math.huge", "(1/0)", "1/0")
        except luaparse.LuaSyntaxError:
            is_inf = False
        if covers_inf and on_payload:
            handled = (txt, is_inf)
    # or: the parser refuses a literal that is not finite
    fv = F.fn("sylt_parser::expression::value")
    rejects = False
    for m in nodes(fn_body(fv), "Match"):
        for arm in m["arms"]:
            for alt in __import__("hir").pat_alternatives(arm["pat"]):
                if (__import__("hir").pat_variant(alt) or "").endswith("Token::Float") and arm.get("guard") is not None:
                    g = arm["guard"]
                    if any(last(callee(c) or "") in ("is_infinite", "is_finite") for c in nodes(g, "MethodCall")):
                        rejects = True
    ok = not debug or rejects or (handled is not None and handled[1])
    rep.ob("LITERAL", "Float|non-finite", ok,
           "a float literal that is not finite is %s" % ("rejected by the parser" if rejects else "written as `%s`" % handled[0] if handled else
                                                        "never formatted with {:?}") if ok else
           "IR::Float is written with `{:?}`; a literal above f64::MAX (`1` followed by 400 zeros and `.0`) parses to infinity, which "
           "`{:?}` prints as the name `inf` - an undefined global, nil at run time%s" % (
               "" if handled is None else " (the guarded arm writes `%s`, which is not an expression for infinity)" % handled[0]),
           line_of(T.T.arms["Float"]["arm"]) if "Float" in T.T.arms else None)


def literals(F, rep, T):
    exp = {"Int": "{num:1}", "Bool": "{num:1}", "Nil": "__NIL", "Float": "{num-debug:1}", "Str": '"{raw:1}"'}
    # a string payload may be written with some characters as Lua escapes (line breaks): still the literal's own text
    if "Str" in T.S and T.S["Str"]["value"] and luatpl.render(T.S["Str"]["value"]) == '"{raw-escaped:1}"':
        exp["Str"] = '"{raw-escaped:1}"'
    for op, text in exp.items():
        s = T.S.get(op)
        got = luatpl.render(s["value"]) if s and s["value"] else None
        rep.ob("LITERAL", op, got == text, "IR::%s is written as `%s` (expected `%s`)" % (op, got, text))
    float_nonfinite(F, rep, T)
    for a in T.expr:
        if a["label"] in ("Int", "Bool", "Float", "Str") and a["items"]:
            ops = [it for it in a["items"] if it[0] == "op"]
            ok = len(ops) == 1 and ops[0][1] == a["label"] and ops[0][2][1] == ("ast", "0")
            rep.ob("LITERAL", "lowering|" + a["label"], ok, "%s literals are lowered to IR::%s with the literal's own payload" % (a["label"], a["label"]), line_of(a["arm"]))
    # literal payloads pass unchanged through the parser (token -> node) and the resolver (node -> resolved node)
    from hir import pat_alternatives, pat_variant, pat_bindings, pat_strip, peel_clone
    from engines import ty_is

    def passthrough(fn, scrut_enum, out_prefix, want, rulekey):
        got = {}
        for m in nodes(fn_body(fn), "Match"):
            if not ty_is(m.get("scrut_ty", ""), scrut_enum):
                continue
            for arm in m["arms"]:
                b = peel(arm["body"])
                for alt in pat_alternatives(arm["pat"]):
                    v = pat_variant(alt)
                    if not v or last(v) not in want:
                        continue
                    binds = pat_bindings(alt)
                    if b.get("k") == "Call" and (callee(b) or "").startswith(out_prefix):
                        a0 = peel_clone(b["args"][0]) if b["args"] else None
                        while isinstance(a0, dict) and a0.get("k") == "Unary":
                            a0 = peel_clone(a0["e"])
                        same = bool(binds) and isinstance(a0, dict) and a0.get("hid") == binds[0]["hid"]
                        got[last(v)] = (last(callee(b)), same)
                    elif b.get("k") == "Path" and b.get("res") == "Def" and norm_path(b.get("path", "")).startswith(out_prefix):
                        got[last(v)] = (last(norm_path(b["path"])), not binds)
        ok = all(got.get(k) == (w, True) for k, w in want.items())
        rep.ob("LITERAL", rulekey, ok, "%s maps literal payloads unchanged: %s" % (last(fn["_path"], 2), {k: got.get(k) for k in want}), fn["sp"])

    passthrough(F.fn("sylt_parser::expression::value"), "sylt_tokenizer::token::Token", "sylt_parser::expression::ExpressionKind::",
                {"Float": "Float", "Int": "Int", "Bool": "Bool", "String": "Str", "Nil": "Nil"}, "parser|token->node")
    passthrough(F.fn("sylt_compiler::name_resolution::Resolver::expression"), "sylt_parser::expression::ExpressionKind",
                "sylt_compiler::name_resolution::Expression::",
                {"Float": "Float", "Int": "Int", "Bool": "Bool", "Str": "Str"}, "resolver|node->resolved")
    # the program ends with the call of start
    comp = F.fn("sylt_compiler::intermediate::compile")
    body = fn_body(comp)
    pushes = [c for c in nodes(body, "MethodCall") if c["m"] == "push" and (callee(peel(c["args"][0])) or "").endswith("IR::Call")]
    rep.ob("START", "compile|start-call-last", len(pushes) == 1, "intermediate::compile appends exactly one call (of `start`) after all statement code", comp["sp"])
