"""C03 — type mismatches are rejected at compile time (DESIGN §4 C03)."""
from hir import nodes, walk, fn_body, callee, call_args, last, line_of, peel, pp, norm_path, pat_alternatives, pat_variant, pat_bindings
from engines import Visit, matches_on, arm_alternatives, ty_mentions, ty_is
from flow import Flow
import tc
from tc import TC, TCM, NR, TY

EXPLANATION = (
    "Decides the for-all-placements quantifier by uniformity of the type-checking fold: (VISIT) TypeChecker::{expression, "
    "statement, definition, expression_block, outer_statement} reach every child expression / statement / declared type "
    "of every AST variant, whatever its position; (OBLIGATION) each arm contains, unconditionally on its success path, the "
    "unification that rejects the mismatch the property lists (condition ~ bool for if/loop, operands of not/and/or ~ bool, "
    "list elements ~ one element type, argument ~ parameter for every zipped pair plus the arity comparison, variable ~ "
    "declared type ~ initialiser, parameter ~ annotation, declared return ~ actual return, assignment value ~ target, "
    "index ~ int, non-callable callee => error arm); (DISCHARGE) every operator constraint added with add_constraint is "
    "followed on every success path by check_constraints/unify of the same node; (ACCEPT) the accept sets of "
    "add/sub/mul/div/cmp, of the Neg/Num/Variable handlers and of sub_unify's default arm are exactly the ones the "
    "property lists (int+str, int==float, -str, void variable ... are errors); (COPY-STRUCTURE) instantiating a polymorphic "
    "function type keeps every operator constraint (same kind, operand edge remapped into the copy), so the mismatch "
    "rules also hold for calls of unannotated functions."
    ' (OPERAND-PAIR, FIELD-SETS) as in C02; (VISIT-dep, PARTITION, USERTYPE) a declaration is checked before any annotation naming it is resolved: declarations are ordered by the types their fields mention, precede all values, and an annotation naming a still-unknown declaration is not silently accepted.'
    " (DISCHARGE) unify() only counts as enforcing fresh constraints when one of its nodes was created in the same function; (DEFER-RECORDED) an element-wise operator check that answers Ok for a still-unknown side records the constraint on both nodes; (RET-FOLD, RET-ORIGIN) the return-type half of every child's result reaches the parent's result on every success path and is never invented; (BINDER-TYPED) every variable the resolver introduces gets its type from the checker; (TYPE-NAME) the name of a declaration is not a value."
    ' (VISIT-ALL keyed copy) a loop that hands syntax nodes to a visiting function ranges over the list itself, not over a map or set collected from it in the same function (equal keys are merged).'
    " (ACCEPT tuple-length-guard) the tuple row of every operator checker is guarded by the lengths of its two operands; (FIELD-SETS) every row of sub_unify for two enums / blobs compares both sides' members; (VALUE-PATH, shared with C02) an if / case used as a value has a value in every branch; (DROPPED-ERROR adaptors) no Result<_, Vec<Error>> is turned into a plain value."
    ' (SCOPE, shared with C09) scopes close where the source closes them.'
)
UNDECIDED = "that the list of mismatch kinds is complete; precision of inference (over-rejection)."

MANIFEST = dict(
    text=EXPLANATION + " Not decided: " + UNDECIDED,
    technique="traversal completeness + must-pass-through (constraint discharge) + accept-set extraction + per-arm unification obligations over resolved HIR",
)

CHILD = ["name_resolution::Expression", "name_resolution::Statement", "name_resolution::IfBranch",
         "name_resolution::CaseBranch", "name_resolution::Type"]
FOLD = {TC + m for m in ["expression", "statement", "definition", "expression_block", "outer_statement",
                         "type_from_function", "resolve_type", "inner_resolve_type", "can_assign"]}


def visit(F, rep, rule="VISIT-tc"):
    exempt = {
        ("Function", "params"): None,  # checked: goes to type_from_function
    }
    exempt = {k: v for k, v in exempt.items() if v}
    v = Visit(
        F, rep, rule, FOLD,
        [NR + "Statement", NR + "Expression"],
        lambda vp, f, t: ty_mentions(t, CHILD),
        exempt,
        struct_children={NR + "IfBranch": ["condition", "body"], NR + "CaseBranch": ["body"]},
    )
    for m in ["expression", "statement", "definition", "outer_statement"]:
        v.run_fn(F.fn(TC + m))
    rep.floor(rule, "match arms", v.arms_seen, 30)
    rep.floor(rule, "child fields", v.children_checked, 30)
    # resolver Type fold of the checker
    v2 = Visit(F, rep, rule, {TC + "inner_resolve_type", TC + "resolve_constraint"}, [NR + "Type"],
               lambda vp, f, t: ty_mentions(t, ["name_resolution::Type"]) or "TypeConstraint" in t,
               {("UserType", "1"): "type arguments are resolved in the Blob/Enum arm; the Unknown arm (a type still being declared: "
                                   "recursive types, reported elsewhere) deliberately skips them"})
    v2.run_fn(F.fn(TC + "inner_resolve_type"))
    return v


OPERATOR_CONSTRAINTS = {"Add", "Sub", "Mul", "DivTop", "DivBot", "DivRes", "Equ", "Cmp", "CmpEqu", "Neg", "Variable", "Num"}
DISCHARGE_EXEMPT = {
    ("resolve_constraint", "Num"): "declared generic constraint: stored on the generic's node and re-checked by unify() when "
                                   "the generic is instantiated (sub_unify ends with check_constraints)",
    ("resolve_constraint", "CmpEqu"): "declared generic constraint: re-checked by unify() at instantiation",
    ("expression", "Enum", "Case"): "a `case` with no branches and an `else`: nothing reads the tag (no listed property forbids it)",
}


def discharge(F, rep, rule="DISCHARGE", only=None):
    n = 0
    for m in ["expression", "statement", "definition", "resolve_constraint", "outer_statement", "type_from_function",
              "inner_resolve_type", "solve"]:
        fn = F.fn(TC + m)
        rep.analysed(fn)
        n += tc.discharge_sites(F, rep, rule, fn, DISCHARGE_EXEMPT, only)
    return n


# accept tables: rows (lhs set, rhs set) that must be OK without further work, and the required default
ACCEPT_EXPECT = {
    "add": dict(ok={("Float", "Float"), ("Int", "Int"), ("Str", "Str")}, recurse={("Tuple", "Tuple")},
                unknown=True),
    "sub": dict(ok={("Float", "Float"), ("Int", "Int")}, recurse={("Tuple", "Tuple")}, unknown=True),
    "mul": dict(ok={("Float", "Float"), ("Int", "Int")}, recurse={("Tuple", "Tuple")}, unknown=True),
    "div": dict(ok={("Float", "Float"), ("Float", "Int"), ("Int", "Float"), ("Int", "Int")},
                recurse={("Tuple", "Tuple"), ("Tuple", "Float"), ("Tuple", "Int")}, unknown=True),
    "cmp": dict(ok={("Float", "Float"), ("Int", "Int"), ("Int", "Float"), ("Float", "Int"), ("Str", "Str")},
                recurse={("Tuple", "Tuple")}, unknown=True),
}


def defer_recorded(F, rep, rule="DEFER-RECORDED"):
    """an operator checker that recurses into tuple elements meets element nodes that hold no constraint of their own
    (bin_op! stores the constraint on the two *operand* nodes only).  Where it answers `Ok` because an element is still
    Unknown it must leave the requirement behind on both element nodes, or the element's later refinement - a parameter
    unified at a call, a later statement - never re-checks the operator"""
    from hir import pat_bindings
    fcc = F.fn(TC + "check_constraints")
    dispatch = {}
    roles = {}          # (checker, Constraint variant) -> roles of the checker's TyID arguments: "node" | "payload"
    cc_params = [b["hid"] for prm in fcc["params"] for b in pat_bindings(prm["pat"]) if prm["ty"].strip().split("::")[-1] == "TyID"]
    for m in matches_on(fn_body(fcc), TCM + "Constraint"):
        for arm, alt, vp in arm_alternatives(m):
            if vp:
                bound = {b["hid"] for b in pat_bindings(alt)}
                for c in nodes(arm["body"], "MethodCall"):
                    cal = callee(c) or ""
                    if cal.startswith(TC) and last(cal) in ACCEPT_EXPECT:
                        dispatch.setdefault(last(cal), set()).add(last(vp))
                        r = []
                        for x in c["args"]:
                            h = tc.local_hid(x)
                            if h in cc_params:
                                r.append("node")
                            elif h in bound:
                                r.append("payload")
                        roles.setdefault((last(cal), last(vp)), []).append(tuple(r))
    n = 0
    nroles = [0]
    for name in ACCEPT_EXPECT:
        fn = F.fn(TC + name)
        rows = tc.accept_table(F, fn) or []
        if not any(r["verdict"] == "recurse" for r in rows):
            continue
        done = set()
        for r in rows:
            if r["verdict"] != "ok" or not any("Unknown" in p for p in r["pats"]) or id(r["arm"]) in done:
                continue
            done.add(id(r["arm"]))
            n += 1
            recorded = {}
            for c in nodes(r["arm"]["body"], "MethodCall"):
                if callee(c) == TC + "add_constraint":
                    node = tc.local_hid(c["args"][0])
                    cn = tc.constraint_name(c["args"][2])
                    con = peel(c["args"][2])
                    payload = tc.local_hid(con["args"][0]) if con.get("k") == "Call" and con.get("args") else None
                    if node is not None and cn not in dispatch.get(name, ()) and cn in {c_ for v_ in dispatch.values() for c_ in v_}:
                        # what this checker postpones is handed to *another* checker when it is replayed
                        others_ = sorted(k_ for k_, v_ in dispatch.items() if cn in v_)
                        rep.ob(rule, "%s|unknown-arm|%s|replayed-as-postponed" % (name, cn), False,
                               "TypeChecker::%s postpones its check by recording Constraint::%s, but check_constraints replays that constraint "
                               "with %s, not with %s: the check that was postponed is never made (`a / 2 + \"x\"` inside a function called "
                               "with an int later: the quotient is never settled to float)" % (name, cn, "/".join(others_), name), line_of(c))
                    if node is not None and cn in dispatch.get(name, ()):
                        recorded[node] = payload
                        # the deferred check must be the check that was postponed: same checker, same operand roles
                        own = [b["hid"] for prm in fn["params"] for b in pat_bindings(prm["pat"])
                               if prm["ty"].strip().split("::")[-1] == "TyID"]
                        root = _representatives(fn)
                        table, default = expand_rows(rows)
                        symmetric = all(table.get((b_, a_), default) == v for (a_, b_), v in table.items())
                        for r_ in roles.get((name, cn), ()):
                            replay = [root.get(node, node) if x == "node" else root.get(payload, payload) for x in r_]
                            same = replay == own or (symmetric and sorted(replay) == sorted(own))
                            nm = {b["hid"]: b["name"] for prm in fn["params"] for b in pat_bindings(prm["pat"])}
                            rep.ob(rule, "%s|unknown-arm|%s|replayed-as-postponed" % (name, cn), same,
                                   ("Constraint::%s recorded by TypeChecker::%s is replayed by check_constraints as %s(%s), the "
                                    "check that was postponed" % (cn, name, name, ", ".join(nm.get(h, "?") for h in replay)))
                                   if same else
                                   ("TypeChecker::%s(%s) postpones its check by recording Constraint::%s on `%s`, which "
                                    "check_constraints replays as %s(%s): the operands have changed roles, so `(x, 2.0) / (1, 1)` "
                                    "with `x` fixed later is checked as the other division (accepted or rejected wrongly, "
                                    "depending on whether the operand types were known in time)" % (
                                        name, ", ".join(nm.get(h, "?") for h in own), cn, nm.get(node, "?"), name,
                                        ", ".join(nm.get(h, "?") for h in replay))), line_of(c))
                            nroles[0] += 1
            mirrored = len(recorded) == 2 and all(recorded.get(v) == k for k, v in recorded.items())
            rep.ob(rule, "%s|unknown-arm" % name, mirrored,
                   ("TypeChecker::%s records Constraint::%s on both nodes before accepting a pair with an Unknown side" % (
                       name, "/".join(sorted(dispatch.get(name, ())))))
                   if mirrored else
                   ("TypeChecker::%s answers Ok for a pair with an Unknown side without recording anything on the two nodes; "
                    "it also recurses into tuple elements, whose nodes carry no constraint: `(a, 1) + (\"s\", 2)` with `a` "
                    "fixed to int by a later statement or call is accepted" % name), line_of(r["arm"]))
    rep.floor(rule, "element-wise checkers with an Unknown arm", n, 5)
    rep.floor(rule, "postponed checks compared with their replay", nroles[0], 10)


def _representatives(fn):
    """local -> parameter it stands for: `let (a, b) = (self.find(a), self.find(b))` renames a node to its representative"""
    from hir import pat_bindings, pat_strip
    root = {}
    for st in nodes(fn_body(fn), "Let"):
        init = peel(st.get("init"))
        pat = pat_strip(st["pat"])
        pairs = []
        if pat.get("k") == "Tuple" and isinstance(init, dict) and init.get("k") == "Tup" and len(init["es"]) == len(pat["pats"]):
            pairs = list(zip(pat["pats"], init["es"]))
        elif init is not None:
            pairs = [(pat, init)]
        for p_, e in pairs:
            bs = pat_bindings(p_)
            e = peel(e)
            if len(bs) != 1 or not isinstance(e, dict):
                continue
            if e.get("k") == "MethodCall" and callee(e) == TC + "find" and e["args"]:
                e = peel(e["args"][0])
            h = tc.local_hid(e)
            if h is not None:
                root[bs[0]["hid"]] = root.get(h, h)
    return root


def expand_rows(rows):
    """rows -> {(A,B): verdict} for concrete variant pairs, first match wins (guards treated as may-fail)"""
    table = {}
    default = None
    for r in rows:
        pats = r["pats"]
        if len(pats) != 2:
            continue
        for a in pats[0]:
            for b in pats[1]:
                if a == "_" and b == "_":
                    if default is None:
                        default = r["verdict"]
                    continue
                key = (a, b)
                if key not in table:
                    table[key] = r["verdict"]
    return table, default


def accept(F, rep, rule="ACCEPT"):
    for name, exp in ACCEPT_EXPECT.items():
        fn = F.fn(TC + name)
        rep.analysed(fn)
        rows = tc.accept_table(F, fn)
        if rows is None:
            rep.anchor_missing("match on a pair of types in TypeChecker::" + name)
            continue
        table, default = expand_rows(rows)
        concrete = {k: v for k, v in table.items() if "_" not in k}
        got_ok = {k for k, v in concrete.items() if v == "ok"}
        got_rec = {k for k, v in concrete.items() if v == "recurse"}
        other = {k: v for k, v in concrete.items() if v not in ("ok", "recurse", "err")}
        rep.ob(rule, "%s|ok-set" % name, got_ok == exp["ok"],
               "TypeChecker::%s accepts outright %s (expected %s)" % (name, sorted(got_ok), sorted(exp["ok"])), fn["sp"])
        rep.ob(rule, "%s|elementwise-set" % name, got_rec == exp["recurse"],
               "TypeChecker::%s recurses element-wise on %s (expected %s)" % (name, sorted(got_rec), sorted(exp["recurse"])), fn["sp"])
        rep.ob(rule, "%s|default" % name, default == "err",
               "every other operand pair of TypeChecker::%s is an error (default arm: %s)" % (name, default), fn["sp"])
        rep.ob(rule, "%s|no-other" % name, not other, "no arm of TypeChecker::%s has an unclassified outcome %s" % (name, other), fn["sp"])
        # rows with '_' on one side may only be the Unknown rows
        wild = {k: v for k, v in table.items() if "_" in k}
        bad = {k: v for k, v in wild.items() if v != "err" and "Unknown" not in k}
        rep.ob(rule, "%s|wildcards" % name, not bad,
               "one-sided wildcard rows of TypeChecker::%s that accept are only the Unknown rows (%s)" % (name, sorted(wild)), fn["sp"])
        # tuple recursion requires equal lengths: the Tuple row is guarded
        for r in rows:
            if r["verdict"] == "recurse" and r["pats"] == (frozenset(["Tuple"]), frozenset(["Tuple"])):
                # .. of the two operands: `a.len() == b.len()` with a, b the element lists the two sides of the pattern bind
                g = peel(r["arm"].get("guard") or {})
                sides = [b["hid"] for b in pat_bindings(r["arm"]["pat"])]
                lens = []
                if g.get("k") == "Binary" and g.get("op") == "Eq":
                    for x in (g["l"], g["r"]):
                        x = peel(x)
                        if x.get("k") == "MethodCall" and x["m"] == "len":
                            lens.append(peel(x["recv"]).get("hid"))
                good = r["guard"] and len(lens) == 2 and len(sides) == 2 and set(lens) == set(sides)
                rep.ob(rule, "%s|tuple-length-guard" % name, good,
                       "element-wise tuple rule of %s is guarded by equal lengths of its two operands" % name if good else
                       "the element-wise tuple rule of %s is not guarded by `a.len() == b.len()` of the two operands' element lists (%s): "
                       "zip() stops at the shorter tuple, so `(1, 2) < (1, 2, 3)` is accepted" % (name, pp(g)[:60] if g else "no guard"),
                       line_of(r["arm"]))
    defer_recorded(F, rep)
    # equ = unify
    fn = F.fn(TC + "equ")
    calls = [callee(c) for c in nodes(fn_body(fn)) if c.get("k") in ("Call", "MethodCall")]
    rep.ob(rule, "equ|is-unify", TC + "unify" in calls, "`==`/`!=`/`<=>` operands are unified (int == float is a mismatch)", fn["sp"])
    # handlers inside check_constraints
    fn = F.fn(TC + "check_constraints")
    rep.analysed(fn)
    handlers = {}
    for m in matches_on(fn_body(fn), TCM + "Constraint"):
        for arm, alt, vp in arm_alternatives(m):
            if vp:
                handlers[last(vp)] = arm
    rep.floor(rule, "constraint handlers", len(handlers), 17)
    expect_single = {
        # unary minus: numbers outright; tuples element-wise (C19); an Unknown operand keeps the constraint
        "Neg": ({"Int", "Float"}, "err"),
        "Num": ({"Unknown", "Float", "Int"}, "err"),
    }
    for cname, (oks, dflt) in expect_single.items():
        arm = handlers.get(cname)
        if arm is None:
            rep.anchor_missing("check_constraints handler for Constraint::" + cname)
            continue
        hbody = arm["body"]
        if cname == "Neg":
            # the handler is TypeChecker::neg (recursive over tuple elements)
            fneg = F.fns.get(TC + "neg")
            called = any(callee(c) == TC + "neg" for c in nodes(arm["body"], "MethodCall"))
            if fneg is None or not called:
                rep.anchor_missing("TypeChecker::neg called by the Constraint::Neg handler")
                continue
            rep.analysed(fneg)
            hbody = fn_body(fneg)
            rec = unk = False
            for m in nodes(hbody, "Match"):
                for a2, alt, vp in arm_alternatives(m):
                    if vp and last(vp) == "Tuple":
                        rec = any(callee(c) == TC + "neg" for c in nodes(a2["body"], "MethodCall"))
                    if vp and last(vp) == "Unknown":
                        unk = any(callee(c) == TC + "add_constraint" and tc.constraint_name(c["args"][2]) == "Neg"
                                  for c in nodes(a2["body"], "MethodCall"))
                break
            rep.ob(rule, "neg|tuple-elementwise", rec, "unary minus on a tuple checks every element (recursion in the Tuple arm)", fneg["sp"])
            rep.ob("DEFER-RECORDED", "neg|unknown-arm", unk,
                   "an operand (or tuple element) whose type is still unknown keeps Constraint::Neg until it is known", fneg["sp"])
        got, default = single_accept(hbody)
        rep.ob(rule, "check_constraints|%s" % cname, got == oks and default == dflt,
               "Constraint::%s accepts %s, everything else: %s (expected %s / %s)" % (cname, sorted(got), default, sorted(oks), dflt),
               line_of(arm))
    arm = handlers.get("Variable")
    if arm is not None:
        got_err = set()
        default = None
        for m in nodes(arm["body"], "Match"):
            for a2, alt, vp in arm_alternatives(m):
                if vp and tc.is_err_value(a2["body"]):
                    got_err.add(last(vp))
                elif vp is None:
                    default = "ok" if tc.is_ok_unit(a2["body"]) else "other"
            break
        rep.ob(rule, "check_constraints|Variable", got_err == {"Void"} and default == "ok",
               "Constraint::Variable rejects exactly %s (expected Void): `void` cannot be stored in a variable" % sorted(got_err),
               line_of(arm))
    # operator constraints dispatch to the matching checker function with (a, b) in order
    expect_dispatch = {"Add": ("add", "a", "b"), "Sub": ("sub", "a", "b"), "Mul": ("mul", "a", "b"),
                       "DivTop": ("div", "a", "b"), "DivBot": ("div", "b", "a"), "Equ": ("equ", "a", "b"), "Cmp": ("cmp", "a", "b")}
    fl = Flow(fn, fn_body(fn))
    for cname, (target, x, y) in expect_dispatch.items():
        arm = handlers.get(cname)
        if arm is None:
            rep.anchor_missing("check_constraints handler for Constraint::" + cname)
            continue
        b = peel(arm["body"])
        ok = b.get("k") == "MethodCall" and callee(b) == TC + target
        order = None
        if ok:
            names = []
            for a in b["args"][2:4]:
                a = peel(a)
                nm = a.get("name") if a.get("k") == "Path" else None
                # the constraint's payload is bound as `b`; the constrained node is parameter `a`
                names.append(nm)
            order = tuple(names)
            ok = order == (x, y)
        rep.ob(rule, "check_constraints|%s->%s" % (cname, target), ok,
               "Constraint::%s is checked by %s%s" % (cname, target, str(order)), line_of(arm))
    arm = handlers.get("CmpEqu")
    if arm is not None:
        cs = [callee(c) for c in nodes(arm["body"]) if c.get("k") == "MethodCall"]
        rep.ob(rule, "check_constraints|CmpEqu", TC + "equ" in cs and TC + "cmp" in cs,
               "Constraint::CmpEqu requires both equ and cmp", line_of(arm))


def single_accept(body):
    oks, default = set(), None
    for m in nodes(body, "Match"):
        for a2, alt, vp in arm_alternatives(m):
            if vp:
                if tc.is_ok_unit(a2["body"]):
                    oks.add(last(vp))
            else:
                default = "err" if tc.is_err_value(a2["body"]) else "other"
        break
    return oks, default


def facts_for(F, fn, enum, variant, nested=None):
    """(arm, Flow, facts) for every arm on `variant`; nested=(field, VariantName) restricts to arms (or inner
    match arms) whose nested pattern names that variant"""
    out = []
    fl = Flow(fn, fn_body(fn))
    for arm, alt in tc.arm_of(F, fn, enum, variant):
        out.append((arm, fl))
    return out


def need(rep, rule, key, facts, pair, text, where, allow_cond=False):
    """require a unify fact {a, b} (descriptor prefixes) among facts"""
    a, b = pair
    hit = None
    for f, n, uncond in facts:
        ds = list(f)
        if len(ds) == 1:
            ds = ds * 2
        for x, y in ((ds[0], ds[1]), (ds[1], ds[0])):
            if _m(x, a) and _m(y, b):
                if uncond or allow_cond:
                    hit = n
                elif hit is None:
                    hit = False
    if hit:
        rep.ob(rule, key, True, text + " — present", line_of(hit))
    elif hit is False:
        rep.ob(rule, key, False, text + " — present only conditionally (not on every success path of the arm)", where)
    else:
        rep.ob(rule, key, False, text + " — MISSING: the mismatch is not rejected here", where)


def _m(desc, want):
    import re
    return re.fullmatch(want, desc) is not None


def obligations(F, rep, rule="OBLIGATION"):
    E, S = NR + "Expression", NR + "Statement"
    fexpr = F.fn(TC + "expression")
    fstmt = F.fn(TC + "statement")
    fle = Flow(fexpr, fn_body(fexpr))
    fls = Flow(fstmt, fn_body(fstmt))

    def arm1(fn, enum, variant):
        arms = tc.arm_of(F, fn, enum, variant)
        if not arms:
            rep.anchor_missing("arm %s in %s" % (variant, last(fn["_path"])))
            return None
        return arms[0][0]

    # O1 loop condition
    arm = arm1(fstmt, S, "Loop")
    if arm:
        facts = tc.unify_facts(fls, arm["body"])
        need(rep, rule, "statement|Loop|condition~bool", facts, ("fresh:Bool", "exprof:condition"),
             "loop condition is unified with bool", line_of(arm))
    # O2 if condition
    arm = arm1(fexpr, E, "If")
    if arm:
        facts = tc.unify_facts(fle, arm["body"])
        need(rep, rule, "expression|If|condition~bool", facts, ("fresh:Bool", r"exprof:branches\[\*\]\.condition"),
             "every if/elif condition is unified with bool", line_of(arm))
    # O3/O4 not / and / or : arms of the nested matches on op
    for m in matches_on(fn_body(fexpr), NR + "UniOp"):
        for arm, alt, vp in arm_alternatives(m):
            if vp and last(vp) == "Not":
                facts = tc.unify_facts(fle, arm["body"])
                need(rep, rule, "expression|UniOp::Not|operand~bool", facts, ("exprof:a", "fresh:Bool"),
                     "operand of `not` is unified with bool", line_of(arm))
    seen_andor = False
    for m in matches_on(fn_body(fexpr), NR + "BinOp"):
        for arm in m["arms"]:
            alts = {last(pat_variant(a)) for a in pat_alternatives(arm["pat"]) if pat_variant(a)}
            if alts & {"And", "Or"}:
                seen_andor = True
                facts = tc.unify_facts(fle, arm["body"])
                rep.ob(rule, "expression|BinOp::And,Or|same-arm", alts == {"And", "Or"},
                       "`and` and `or` are checked by the same arm (%s)" % sorted(alts), line_of(arm))
                need(rep, rule, "expression|BinOp::And,Or|lhs~bool", facts, ("exprof:a", "fresh:Bool"),
                     "left operand of and/or is unified with bool", line_of(arm))
                need(rep, rule, "expression|BinOp::And,Or|rhs~bool", facts, ("exprof:b", "fresh:Bool"),
                     "right operand of and/or is unified with bool", line_of(arm))
    if not seen_andor:
        rep.anchor_missing("arm BinOp::And|Or in expression")
    # O5 list elements
    for arm, alt in tc.arm_of(F, fexpr, E, "Collection"):
        sub = pp_pat_field(alt, "collection")
        if "List" in sub:
            facts = tc.unify_facts(fle, arm["body"])
            need(rep, rule, "expression|Collection::List|elements", facts, ("fresh:Unknown", r"exprof:values\[\*\]"),
                 "every list element is unified with one element type", line_of(arm))
            # the element type must be created once, outside the loop
            for f, n, unc in facts:
                pass
    # O6 call
    arm = arm1(fexpr, E, "Call")
    if arm:
        facts = tc.unify_facts(fle, arm["body"])
        need(rep, rule, "expression|Call|param~arg", facts, (r"bound:params\[\*\].*|bound:.*\[\*\].*", r"exprof:args\[\*\].*"),
             "every argument is unified with its parameter type", line_of(arm), allow_cond=True)
        # arity comparison -> Err(WrongArity); non-function callee -> Err
        inner = [m for m in nodes(arm["body"], "Match") if "sylt_compiler::ty::Type" in m.get("scrut_ty", "") and
                 "matches" not in (m.get("mac") or [])]
        arity = False
        for i in nodes(arm["body"], "If"):
            c = pp(i["c"])
            if "len()" in c and "Ne" in c and tc.is_err_value(i["t"]) and tc.err_kind(i["t"]) == "WrongArity":
                arity = True
        rep.ob(rule, "expression|Call|arity", arity, "argument count != parameter count returns Err(WrongArity)", line_of(arm))
        nonfn = False
        if inner:
            errs = [a for a in inner[0]["arms"] if tc.is_err_value(a["body"])]
            dflt = [a for a in inner[0]["arms"] if any(pat_variant(x) is None for x in pat_alternatives(a["pat"]))]
            nonfn = bool(dflt) and all(tc.is_err_value(a["body"]) for a in dflt)
        rep.ob(rule, "expression|Call|non-function", nonfn, "calling a value whose type is not a function is an error (default arm)", line_of(arm))
    # O7 definition
    fdef = F.fn(TC + "definition")
    fld = Flow(fdef, fn_body(fdef))
    facts = tc.unify_facts(fld, fn_body(fdef))
    need(rep, rule, "definition|var~declared", facts, ("varty:var", "declared:ty"), "variable type is unified with its annotation", fdef["sp"])
    need(rep, rule, "definition|var~value", facts, ("varty:var", "exprof:value"), "variable type is unified with its initialiser", fdef["sp"])
    need(rep, rule, "definition|var~fnsig", facts, ("varty:var", r"fnsig(\.f)?"), "function definitions are unified with their signature first (recursion)", fdef["sp"], allow_cond=True)
    # O8 function literal
    arm = arm1(fexpr, E, "Function")
    if arm:
        facts = tc.unify_facts(fle, arm["body"])
        need(rep, rule, "expression|Function|declared-ret~actual", facts, (r"Some\(fnsig\.ret\)", ".*"),
             "declared return type is unified with the actual return type", line_of(arm))
    ftf = F.fn(TC + "type_from_function")
    flt = Flow(ftf, fn_body(ftf))
    facts = tc.unify_facts(flt, fn_body(ftf))
    need(rep, rule, "type_from_function|param~annotation", facts, (r"varty:params\[\*\].*", r"declared:params\[\*\].*"),
         "every parameter variable is unified with its annotation", ftf["sp"])
    # O9 assignment
    arm = arm1(fstmt, S, "Assignment")
    if arm:
        facts = tc.unify_facts(fls, arm["body"])
        need(rep, rule, "statement|Assignment|value~target", facts, ("exprof:value", "exprof:target"),
             "assigned value is unified with the target", line_of(arm), allow_cond=True)
    # O10 index
    arm = arm1(fexpr, E, "Index")
    if arm:
        facts = tc.unify_facts(fle, arm["body"])
        need(rep, rule, "expression|Index|index~int", facts, ("exprof:index", "fresh:Int"), "index is unified with int", line_of(arm))
    # Ret: value unified with earlier returns; handled by expression_block
    feb = F.fn(TC + "expression_block")
    flb = Flow(feb, fn_body(feb))
    facts = tc.unify_facts(flb, fn_body(feb))
    rep.ob(rule, "expression_block|returns-unified", len(facts) >= 2,
           "return types of all statements of a block are unified with each other (%d unify_option calls)" % len(facts), feb["sp"])
    # O11 sub_unify
    fsu = F.fn(TC + "sub_unify")
    rep.analysed(fsu)
    rows = None
    for m in nodes(fn_body(fsu), "Match"):
        if m.get("scrut_ty", "").count("sylt_compiler::ty::Type") == 2:
            rows = m
    # the inner match (second one) holds the concrete rows
    inner = [m for m in nodes(fn_body(fsu), "Match") if m.get("scrut_ty", "").count("sylt_compiler::ty::Type") == 2]
    ok_default = False
    same_rows = set()
    tuple_len = arity = False
    for m in inner:
        for a in m["arms"]:
            for alt in pat_alternatives(a["pat"]):
                ps = tc._tuple_pats(alt, 2)
                if len(ps) == 2 and ps[0] == frozenset(["_"]) and ps[1] == frozenset(["_"]):
                    if tc.is_err_value(a["body"]) and tc.err_kind(a["body"]) == "Mismatch":
                        ok_default = True
                elif len(ps) == 2 and "_" not in ps[0] and "_" not in ps[1]:
                    for x in ps[0]:
                        for y in ps[1]:
                            same_rows.add((x, y))
                    if ps[0] == frozenset(["Tuple"]):
                        for i in nodes(a["body"], "If"):
                            if tc.is_err_value(i["t"]) and tc.err_kind(i["t"]) == "TupleLengthMismatch":
                                tuple_len = True
                    if ps[0] == frozenset(["Function"]):
                        for i in nodes(a["body"], "If"):
                            if tc.is_err_value(i["t"]) and tc.err_kind(i["t"]) == "WrongArity":
                                arity = True
    cross = {r for r in same_rows if r[0] != r[1]}
    rep.ob(rule, "sub_unify|default=Mismatch", ok_default, "two different concrete types do not unify: default arm is Err(Mismatch)", fsu["sp"])
    rep.ob(rule, "sub_unify|rows-diagonal", not cross and len(same_rows) >= 12,
           "sub_unify only accepts pairs of the same type constructor (%d rows, off-diagonal: %s)" % (len(same_rows), sorted(cross)), fsu["sp"])
    rep.ob(rule, "sub_unify|tuple-length", tuple_len, "tuples of different length are Err(TupleLengthMismatch)", fsu["sp"])
    rep.ob(rule, "sub_unify|fn-arity", arity, "function types of different arity are Err(WrongArity)", fsu["sp"])
    # sub_unify ends with check_constraints(a) so that merged constraints are re-checked
    tail_calls = [callee(c) for c in nodes(fn_body(fsu), "MethodCall")]
    rep.ob(rule, "sub_unify|recheck-constraints", TC + "check_constraints" in tail_calls and TC + "union" in tail_calls,
           "after merging two nodes their constraints are re-checked", fsu["sp"])


def pp_pat_field(alt, field):
    from hir import pat_fields, ppat
    f = pat_fields(alt).get(field)
    return ppat(f) if f else ""


def run(F, rep, tier):
    rep.explanation = EXPLANATION
    rep.undecided = UNDECIDED
    visit(F, rep)
    n = discharge(F, rep, only=OPERATOR_CONSTRAINTS)
    rep.floor("DISCHARGE", "operator add_constraint sites", n, 20)
    accept(F, rep)
    obligations(F, rep)
    import c02
    c02.copy_structure(F, rep)
    # a parameter (or mutable variable) of function type has one type: `f(1)` then `f("a")` is a mismatch
    c02.copy_discipline(F, rep, only_generalised=True)
    type_variables_shared(F, rep)
    unification_core(F, rep)
    pairing(F, rep)
    declared_types_known(F, rep)
    ret_fold(F, rep)
    binder_typed(F, rep)
    type_names_are_not_values(F, rep)
    import c07
    c07.guard_discipline(F, rep)
    tc.dropped_results(F, rep, "DROPPED-ERROR", ["sylt_compiler::typechecker::", "sylt_compiler::name_resolution::", "sylt_compiler::dependency::"])
    import c07
    c07.visit_loops_complete(F, rep)
    values_are_not_void(F, rep)
    # .. and an `if` / `case` used as a value has one in every branch: a branch without a value makes the whole expression void
    # (shared with C02 - the value would be nil where the checker says int)
    # a declared type is checked against the variable the name refers to: scopes close where the source closes them (shared
    # with C09 - a definition leaking out of a `case .. else` block shadows the outer variable for the rest of the function)
    import c09
    c09.scope_rules(F, rep, "SCOPE")
    import core
    core.borrow(rep, c02.value_paths, lambda o: o["rule"] == "VALUE-PATH" and
                ("|branch-without-value" in o["key"] or "|every-branch-counts" in o["key"] or "|returns-are-not-the-value" in o["key"] or
                 "|trailing-value-" in o["key"]), F)

# every variable-valued field of the resolved AST, classified by reading name_resolution.rs: a *binder* introduces the
# variable (the resolver fills it from new_var/push_var), a *use* refers to one found by lookup
REF_FIELDS = {
    ("Statement", "Blob", "var"): "binder", ("Statement", "Enum", "var"): "binder",
    ("Statement", "Definition", "var"): "binder", ("Statement", "ExternalDefinition", "var"): "binder",
    ("Expression", "Function", "params"): "binder", ("Expression", "Blob", "self_var"): "binder",
    ("CaseBranch", "CaseBranch", "variable"): "binder",
    ("Expression", "Read", "var"): "use", ("Expression", "Variant", "ty"): "use", ("Expression", "Blob", "blob"): "use",
}
# where the checker gives each binder its type: (function, root field of the index into self.variables)
BINDER_SITES = {
    ("Statement", "Blob", "var"): ("outer_statement", "var"), ("Statement", "Enum", "var"): ("outer_statement", "var"),
    ("Statement", "Definition", "var"): ("definition", "var"), ("Statement", "ExternalDefinition", "var"): ("outer_statement", "var"),
    ("Expression", "Function", "params"): ("type_from_function", "params[*].1"),
    ("Expression", "Blob", "self_var"): ("expression", "self_var"),
    ("CaseBranch", "CaseBranch", "variable"): ("expression", "branches[*].variable[*]"),
}


def values_are_not_void(F, rep, rule="VOID-FREE"):
    """`void` has no values: it cannot be stored - not in a variable (Constraint::Variable on definitions and call arguments),
    and not inside what is stored either.  Every position that puts the value of a child expression into a composite (tuple and
    list elements, the fields of a blob literal, the payload of a variant) requires that child to be a value."""
    fexpr = F.fn(TC + "expression")
    body = fn_body(fexpr)
    n = 0
    seen = {}
    for m in matches_on(body, "sylt_compiler::name_resolution::Expression"):
        for arm, alt, vp in arm_alternatives(m):
            if not vp or last(vp) not in ("Collection", "Blob", "Variant"):
                continue
            kids = []
            for st in nodes(arm["body"], "Let"):
                init = st.get("init")
                if init is None:
                    continue
                if any(callee(c) == TC + "expression" for c in nodes(init, "MethodCall")):
                    bs = pat_bindings(st["pat"])
                    if len(bs) >= 2:
                        kids.append((bs[1], st))
            for b, st in kids:
                n += 1
                guarded = any(callee(c) == TC + "add_constraint" and tc.constraint_name(c["args"][2]) == "Variable" and
                              tc.local_hid(c["args"][0]) == b["hid"] for c in nodes(arm["body"], "MethodCall"))
                what = {"Collection": "element", "Blob": "field value", "Variant": "payload"}[last(vp)]
                key = "expression|%s|%s" % (last(vp), b["name"])
                seen[key] = seen.get(key, 0) + 1
                if seen[key] > 1:
                    key += "#%d" % seen[key]
                rep.ob(rule, key, guarded,
                       "the %s `%s` of a %s must be a value (Constraint::Variable)" % (what, b["name"], last(vp)) if guarded else
                       "the %s of a %s may be `void`: `x := (nothing(), 1)` / `[nothing()]` / `B { f: nothing() }` / `E.V nothing()` "
                       "store a void inside a value - at run time a nil that shortens lists and breaks tuple indexing" % (what, last(vp)),
                       line_of(st))
    rep.floor(rule, "children stored into composites", n, 4)


def binder_typed(F, rep, rule="BINDER-TYPED"):
    """a variable the resolver introduces has the type Unknown until the checker ties `self.variables[v].ty` to
    something; a binder the checker never looks at stays Unknown forever, and every deferred requirement on it (field
    access, call, operator) is accepted"""
    census = {}
    for adt in ("Statement", "Expression", "CaseBranch", "IfBranch"):
        a = F.adt(NR + adt)
        for v in a["variants"]:
            for f in v["fields"]:
                if "usize" in f["ty"]:
                    census[(adt, v["name"], f["name"])] = f["ty"]
    rep.ob(rule, "census", set(census) == set(REF_FIELDS),
           "variable-valued fields of the resolved AST are the %d classified ones (unclassified: %s; gone: %s)" % (
               len(REF_FIELDS), sorted(set(census) - set(REF_FIELDS)), sorted(set(REF_FIELDS) - set(census))))
    reads = {}
    for fname in ("expression", "statement", "definition", "outer_statement", "type_from_function"):
        fn = F.fn(TC + fname)
        fl = Flow(fn, fn_body(fn))
        for ix in nodes(fn_body(fn), "Index"):
            base = peel(ix["e"])
            if base.get("k") == "Field" and base["name"] == "variables":
                reads.setdefault((fname, tc.root_field(fl, ix["i"])), []).append(ix)
    for key, (fname, rf) in sorted(BINDER_SITES.items()):
        got = reads.get((fname, rf), [])
        rep.ob(rule, "%s::%s.%s" % key, bool(got),
               ("TypeChecker::%s reads self.variables[%s] (%d site(s)): the binder gets its type there" % (fname, rf, len(got))) if got else
               ("no arm of TypeChecker::%s looks up self.variables[%s]: the variable introduced by %s::%s.%s keeps the type "
                "Unknown, so `%s.<anything>` and every operator on it are accepted" % (fname, rf, key[0], key[1], key[2],
                                                                                        "self" if key[2] == "self_var" else key[2])),
               line_of(got[0]) if got else F.fn(TC + fname)["sp"])


def type_names_are_not_values(F, rep, rule="TYPE-NAME"):
    """outer_statement unifies the variable of a blob / enum declaration with the declared type itself, so *reading* that
    variable as an expression (`a := A`, `f(A)`, `A.x`) would be typed as an instance although declarations emit no code.
    The Read arm has to recognise those variables: a membership test against a collection that the Blob and Enum arms of
    outer_statement fill."""
    fos = F.fn(TC + "outer_statement")
    filled = {}
    for v in ("Blob", "Enum"):
        for arm, alt in tc.arm_of(F, fos, NR + "Statement", v):
            for c in nodes(arm["body"], "MethodCall"):
                r = peel(c["recv"])
                if c["m"] == "insert" and r.get("k") == "Field" and ty_is((r.get("base_ty") or "").replace("&mut ", "").replace("&", ""), TCM + "TypeChecker"):
                    filled.setdefault(r["name"], set()).add(v)
    fields = {f for f, vs in filled.items() if vs == {"Blob", "Enum"}}
    fexpr = F.fn(TC + "expression")
    tested = False
    for arm, alt in tc.arm_of(F, fexpr, NR + "Expression", "Read"):
        for i in nodes(arm["body"], "If"):
            c = peel(i["c"])
            if c.get("k") == "MethodCall" and c["m"] in ("contains", "contains_key") and peel(c["recv"]).get("name") in fields \
                    and tc.is_err_value(i["t"]):
                tested = True
    rep.ob(rule, "expression|Read|declarations-rejected", tested,
           "reading the variable of a blob / enum declaration as a value is a type error (Read tests membership in %s)" % sorted(fields)
           if tested else
           "TypeChecker::expression's Read arm returns the type of any variable, also of the variable of a blob or enum "
           "declaration - which is the declared type: `a := A` followed by `a.x + 1` type-checks although A is never a value "
           "at run time", fexpr["sp"])


def ret_fold(F, rep):
    n = 0
    for f in ("expression", "statement", "expression_block", "definition", "outer_statement", "solve"):
        fn = F.fn(TC + f)
        rep.analysed(fn)
        n += tc.ret_fold(F, rep, "RET-FOLD", fn)
    rep.floor("RET-FOLD", "child results carrying a return type", n, 40)


def declared_types_known(F, rep):
    """an annotation naming a user type constrains a value only if the declaration has been checked when the annotation
    is resolved: (a) every type a declaration's fields/variants mention is a dependency edge (ordering among type
    declarations), type declarations precede values (partition) - the C11 instances; (b) the UserType arm of
    inner_resolve_type does not quietly accept a declaration that is still Unknown"""
    import c11
    c11.dependency_visit(F, rep)
    c11.partition(F, rep)
    firt = F.fn(TC + "inner_resolve_type")
    rep.analysed(firt)
    arms = tc.arm_of(F, firt, NR + "Type", "UserType")
    if not arms:
        rep.anchor_missing("inner_resolve_type UserType arm")
        return
    quiet = None
    for m in nodes(arms[0][0]["body"], "Match"):
        if ty_is(m.get("scrut_ty", ""), TY) or ty_is(m.get("scrut_ty", "").lstrip("&"), TY):
            for a in m["arms"]:
                for alt in pat_alternatives(a["pat"]):
                    if (pat_variant(alt) or "").endswith("ty::Type::Unknown") and not tc.is_err_value(a["body"]):
                        # .. unless what it answers is the declaration's *own* node (`self.variables[var].ty`, not a copy of it):
                        # then the mention learns what the declaration turns out to be - a type that mentions itself
                        fl_ = Flow(firt, fn_body(firt))
                        own = False
                        for r_ in [x for x in nodes(a["body"]) if x.get("k") == "Ret"] + [a["body"]]:
                            v_ = peel(r_.get("e") if r_.get("k") == "Ret" else r_)
                            if isinstance(v_, dict) and v_.get("k") == "Call" and (callee(v_) or "").endswith("Result::Ok") and v_["args"]:
                                v_ = peel(v_["args"][0])
                            d_ = tc.describe(fl_, v_) if isinstance(v_, dict) else ""
                            if d_.startswith("varty:"):
                                own = True
                        if not own:
                            quiet = a
    rep.ob("USERTYPE", "inner_resolve_type|UserType|declaration-still-unknown", quiet is None,
           "an annotation naming a declaration that has not been checked yet is not silently accepted" if quiet is None else
           "inner_resolve_type's UserType arm accepts a named declaration whose type is still Unknown and returns a fresh "
           "unconstrained node: the annotation then means `anything`.  With declarations ordered by their field types this "
           "remains for a type that mentions itself (the self edge is dropped)", line_of(quiet) if quiet else firt["sp"])


def type_variables_shared(F, rep, rule="TYPEVAR"):
    """`*A` written twice in one signature is one type variable: inner_resolve_type keeps a map name -> node (`seen`) and has
    to hand *that* map on to every recursive call - a clone or a fresh map for a nested function type makes the `*OUT` inside
    `fn *ITEM -> *OUT` and the `[*OUT]` after it two unrelated unknowns (`list.map` then returns a list of anything)."""
    firt = F.fn(TC + "inner_resolve_type")
    rep.analysed(firt)
    fl = Flow(firt, fn_body(firt))
    seen_prm = None
    for i, prm in enumerate(firt["params"]):
        if "HashMap<" in prm["ty"] or "BTreeMap<" in prm["ty"]:
            bs = pat_bindings(prm["pat"])
            seen_prm = (i, bs[0]["hid"]) if bs else None
    if seen_prm is None:
        rep.anchor_missing("the type-variable map parameter of inner_resolve_type")
        return
    n = bad = 0
    where = None
    for c in nodes(fn_body(firt), "MethodCall"):
        if callee(c) != TC + "inner_resolve_type":
            continue
        n += 1
        a = peel(call_args(c)[seen_prm[0]])
        while a.get("k") in ("AddrOf",) or (a.get("k") == "Unary" and a.get("op") == "Deref"):
            a = peel(a["e"])
        if not (a.get("k") == "Path" and a.get("res") == "Local" and a["hid"] == seen_prm[1]):
            bad += 1
            where = where or line_of(c)
    rep.ob(rule, "inner_resolve_type|one-map-per-signature", n > 0 and bad == 0,
           "all %d recursive calls of inner_resolve_type pass on the map of type variables they were given" % n if bad == 0 and n else
           "%d of %d recursive calls of inner_resolve_type get another map than the one of the signature being resolved (a clone, "
           "a new map): a type variable first named inside a nested function type is not the same variable outside it" % (bad, n),
           where or firt["sp"], sites=n)
    rep.floor(rule, "recursive calls of inner_resolve_type", n, 4)


def pairing(F, rep):
    """operator constraints live on both operands; blob field sets are compared in both directions"""
    n = tc.operand_pairing(F, rep, "OPERAND-PAIR", [F.fn(TC + "expression"), F.fn(TC + "statement")])
    rep.floor("OPERAND-PAIR", "operator constraint sites relating two nodes", n, 11)
    n = tc.field_set_agreement(F, rep, "FIELD-SETS", F.fn(TC + "sub_unify"))
    rep.floor("FIELD-SETS", "blob/blob rows", n, 1)
    n = tc.field_set_agreement(F, rep, "FIELD-SETS", F.fn(TC + "sub_unify"), variant="Enum", field="2")
    rep.floor("FIELD-SETS", "enum/enum rows", n, 1)


def unification_core(F, rep, rule="UNIFY-CORE"):
    """the engine all mismatch rules rely on: merged nodes keep both constraint sets, constraints are re-checked after a
    merge, and every constraint handler's verdict is propagated"""
    fu = F.fn(TC + "union")
    rep.analysed(fu)
    body = fn_body(fu)
    # which local gets a parent (the absorbed node) and which is the root
    absorbed = root = None
    for a in nodes(body, "Assign"):
        l = peel(a["l"])
        if l.get("k") == "Field" and l["name"] == "parent":
            absorbed = peel(peel(l["e"])["i"]).get("hid")
            for x in nodes(a["r"], "Path"):
                if x.get("res") == "Local":
                    root = x["hid"]
    merged = False
    for lp in nodes(body, "ForLoop"):
        it = pp(lp["iter"])
        src_ok = any(x.get("hid") == absorbed for x in nodes(lp["iter"], "Path")) and "constraints" in it
        ins = [c for c in nodes(lp["body"], "MethodCall") if c["m"] == "insert" and "constraints" in pp(c["recv"])
               and any(x.get("hid") == root for x in nodes(c["recv"], "Path"))]
        if src_ok and ins:
            merged = True
    rep.ob(rule, "union|constraints-merged", merged and absorbed is not None,
           "union() copies the constraints of the absorbed node onto the root (otherwise a deferred operator / shape requirement is "
           "forgotten when its node is unified with another)", fu["sp"])
    fsu = F.fn(TC + "sub_unify")
    seq = [last(callee(c)) for c in nodes(fn_body(fsu), "MethodCall") if callee(c) in (TC + "union", TC + "check_constraints")]
    rep.ob(rule, "sub_unify|union-then-recheck", seq[-2:] == ["union", "check_constraints"],
           "sub_unify ends with union(a, b) followed by check_constraints(a): merged constraints are checked against the merged type (%s)" % seq,
           fsu["sp"])
    # the Unknown arms copy the *other* side's type
    ok_unknown = 0
    for m in nodes(fn_body(fsu), "Match"):
        if m.get("scrut_ty", "").count("sylt_compiler::ty::Type") != 2:
            continue
        for arm in m["arms"]:
            ps = tc._tuple_pats(arm["pat"], 2)
            b = peel(arm["body"])
            if b.get("k") == "Assign" and len(ps) == 2 and ("Unknown" in ps[0] or "Unknown" in ps[1]):
                tgt = pp(b["l"])
                src = pp(b["r"])
                if ps[1] == frozenset(["Unknown"]) and "find_node_mut(b)" in tgt and "find_type(a)" in src:
                    ok_unknown += 1
                if ps[0] == frozenset(["Unknown"]) and "find_node_mut(a)" in tgt and "find_type(b)" in src:
                    ok_unknown += 1
        break
    rep.ob(rule, "sub_unify|unknown-takes-other-side", ok_unknown == 2,
           "an Unknown node takes the type of the other side, in both directions (%d/2 arms)" % ok_unknown, fsu["sp"])
    # check_constraints: the handler's verdict is propagated with `?`
    fcc = F.fn(TC + "check_constraints")
    prop = False
    for lp in nodes(fn_body(fcc), "ForLoop"):
        for t in nodes(lp["body"], "Try"):
            if any(mm for mm in nodes(t["e"], "Match") if ty_is_constraint(mm)):
                prop = True
    rep.ob(rule, "check_constraints|verdict-propagated", prop,
           "check_constraints applies `?` to the verdict of every constraint handler (inside the loop over the node's constraints)", fcc["sp"])
    # the constraints checked are those of the node's class representative
    it_ok = any("self.find_node(a).constraints" in pp(lp["iter"]) for lp in nodes(fn_body(fcc), "ForLoop"))
    rep.ob(rule, "check_constraints|all-constraints", it_ok, "check_constraints walks all constraints stored on the node's representative", fcc["sp"])
    # operands of Variant / Case constraints carry the payload types
    fexpr = F.fn(TC + "expression")
    fl = Flow(fexpr, fn_body(fexpr))
    for armname, want in (("Variant", "exprof:value"), ("Case", "varty:")):
        for arm, alt in tc.arm_of(F, fexpr, NR + "Expression", armname):
            got = None
            for c in nodes(arm["body"], "MethodCall"):
                if callee(c) == TC + "add_constraint" and tc.constraint_name(c["args"][2]) == "Variant":
                    payload = peel(c["args"][2])["args"][1]
                    got = describe_opt(fl, payload)
            rep.ob(rule, "expression|%s|variant-payload" % armname, got is not None and got.startswith(want),
                   "the Variant constraint of a %s carries %s (the payload's type is tied to the enum's declaration): %s" % (
                       "variant construction" if armname == "Variant" else "case branch", "the value's type" if armname == "Variant" else "the binding's type", got),
                   line_of(arm))


def ty_is_constraint(m):
    return m.get("scrut_ty", "").replace("&", "").strip() == TCM + "Constraint"


def describe_opt(fl, e):
    """describe an Option<TyID> payload: Some(x) / *constraint bound from `branch.variable.map(|var| self.variables[var].ty)`"""
    e = peel(e)
    if e.get("k") == "Call" and (callee(e) or "").endswith("Option::Some"):
        return tc.describe(fl, e["args"][0])
    src = fl.trace(e)
    if src.get("k") == "Unary":
        src = fl.trace(src["e"])
    t = pp(src)
    if "self.variables[var].ty" in t and ".variable.map(" in t:
        return "varty:branch.variable"
    return "?" + t[:40]
