"""C02 — type soundness: structural necessary conditions (DESIGN §4 C02)."""
from hir import nodes, walk, fn_body, callee, last, line_of, peel, pp, norm_path, pat_alternatives, pat_variant
from engines import matches_on, arm_alternatives, ty_is
from flow import Flow
import tc
import c03
import c09
from tc import TC, TCM, NR, TY

EXPLANATION = (
    "Decides three mechanisms whose failure makes an accepted program go wrong at run time (necessary conditions of "
    "soundness, not the theorem): (SCOPE) no variable can be read outside the scope that declares it - the resolver's scope "
    "stack is balanced around every expression, branch, loop body, block and function (same instances as C09); (DISCHARGE) "
    "every deferred constraint (operator, field, variant, total-case, index, variable) recorded with add_constraint is "
    "checked on every success path; (COPY) fresh instantiation (TypeChecker::copy) is applied only to the types of "
    "let-generalisable binders (blob/enum declarations named by a type or constructor), never blindly to the result of an "
    "arbitrary expression such as a lambda-bound parameter; (COPY-STRUCTURE) instantiation rebuilds every constraint and "
    "type constructor unchanged and remaps every type-graph edge into the copy."
    ' (OPERAND-PAIR) a binary-operator constraint is stored on both operand nodes, so refining either one re-checks it; (FIELD-SETS) unifying two blob types compares their field sets in both directions.'
    ' (DEFER-RECORDED, RET-FOLD, RET-ORIGIN, BINDER-TYPED, TYPE-NAME) as in C03; (VALUE-PATH) a missing branch value / a body that falls off its end / a quotient whose dividend is refined later are not silently compatible with everything (four known findings).'
)
UNDECIDED = ("soundness of unification with deferred constraints as a theorem; run-time behaviour of `external` code; "
             "assignment through a tuple index is accepted by can_assign but rejected by the runtime (reported as information).")

MANIFEST = dict(
    text=EXPLANATION + " Not decided: " + UNDECIDED,
    technique="scope-stack abstract interpretation + constraint must-pass-through + generalisation-site classification over resolved HIR",
)

E, S = NR + "Expression", NR + "Statement"


def run(F, rep, tier):
    rep.explanation = EXPLANATION
    rep.undecided = UNDECIDED
    c09.scope_rules(F, rep, "SCOPE")
    n = c03.discharge(F, rep, only=None)
    rep.floor("DISCHARGE", "add_constraint sites", n, 25)
    copy_discipline(F, rep)
    copy_structure(F, rep)
    c03.pairing(F, rep)
    c03.ret_fold(F, rep)
    c03.defer_recorded(F, rep)
    c03.binder_typed(F, rep)
    c03.type_names_are_not_values(F, rep)
    value_paths(F, rep)
    contradiction_info(F, rep)


def copy_discipline(F, rep):
    n = 0
    for fn in F.fns_in(TCM):
        body = fn_body(fn)
        fl = None
        fname = last(fn["_path"])
        if fname in ("copy", "inner_copy"):
            continue
        for c, parents in walk(body):
            if c.get("k") != "MethodCall" or callee(c) != TC + "copy":
                continue
            if fl is None:
                fl = Flow(fn, body)
                rep.analysed(fn)
            n += 1
            d = tc.describe(fl, c["args"][0])
            ctxname = tc._arm_context(parents)
            if d == "match(..)" and not ctxname:
                d = "result-of-any-expression"
            key = "%s|%s|%s" % (fname, ctxname or "-", d)
            if d.startswith("varty:"):
                # the type of a variable: only declarations named as a type / constructor are generalisable
                ref = d.split(":", 1)[1]
                ok = ref in ("ty", "blob", "var", "UserType.0", "0") or ref.endswith(".0")
                origin = ref
                rep.ob("COPY", key, ok,
                       "copy() of the type of variable `%s`: %s" % (origin, "a blob/enum declaration referenced as a type (generalisable)"
                                                                     if ok else "not known to be a let-generalisable binder"),
                       line_of(c))
            else:
                # dead code is tolerated: copying a field type when the *outer* value is a function can never happen
                dead = fname == "expression" and ctxname.startswith("BlobAccess")
                rep.ob("COPY", key, dead,
                       ("copy() of `%s` is unreachable here (a value with a Field constraint cannot be a function)" % d) if dead else
                       ("copy() is applied to `%s`, the result of an arbitrary expression: a function-typed value bound by a "
                        "lambda parameter is instantiated afresh at every use, so `f: fn *A -> *A` can be called at two "
                        "different types and any function passed for it is accepted" % d),
                       line_of(c))
    rep.floor("COPY", "copy() call sites", n, 5)


def copy_structure(F, rep):
    """inner_copy (instantiation of polymorphic types) must rebuild every constraint and every type with the same
    constructor and remap every type-graph edge into the copy: a stale edge or a changed constraint kind makes the
    instantiated type check something else than the original demanded"""
    fn = F.fn(TC + "inner_copy")
    rep.analysed(fn)
    n1 = tc.structure_preserving(F, rep, "COPY-STRUCTURE", fn, TCM + "Constraint", TC + "inner_copy")
    n2 = tc.structure_preserving(F, rep, "COPY-STRUCTURE", fn, TY, TC + "inner_copy")
    rep.floor("COPY-STRUCTURE", "constraint rows", n1, 17)
    rep.floor("COPY-STRUCTURE", "type rows", n2, 14)


def contradiction_info(F, rep):
    """can_assign admits Index targets, constant_index only types tuples, the runtime's __ASSIGN_INDEX rejects
    tuples: t[0] = 5 is accepted and fails at run time.  Cross-language fact, reported as information."""
    lua = F.read("sylt-compiler/src/preamble.lua")
    i = lua.find("__ASSIGN_INDEX = function")
    seg = lua[i:i + 600] if i >= 0 else ""
    if '"tuple"' in seg and "Cannot assign to tuple" in seg:
        rep.info("contradiction: TypeChecker::can_assign accepts Expression::Index targets, constant_index types only tuples, "
                 "and preamble.lua's __ASSIGN_INDEX asserts on tuples: `t[0] = 5` is accepted and fails at run time")


def value_paths(F, rep):
    """three places where an accepted program computes with nil because a *missing* value or return is treated as
    `compatible with anything` (Option<TyID> = None meets Some(t) in unify_option):"""
    fexpr = F.fn(TC + "expression")
    rep.analysed(fexpr)
    # (1) if / case used as a value: a branch that yields no value must make the whole expression valueless
    for v in ("If", "Case"):
        for arm, alt in tc.arm_of(F, fexpr, E, v):
            distinguishes = False
            for c in nodes(arm["body"], "MethodCall"):
                if c["m"] in ("is_none", "is_some", "all", "any") and any("value" in (x.get("name") or "") for x in nodes(c, "Path")):
                    distinguishes = True
            for m in nodes(arm["body"], "Match"):
                if "Option<sylt_common::TyID>" in (m.get("scrut_ty") or "") and any("value" in (x.get("name") or "") for x in nodes(m["scrut"], "Path")):
                    distinguishes = True
            rep.ob("VALUE-PATH", "expression|%s|branch-without-value" % v, distinguishes,
                   "a branch that yields no value makes the whole %s valueless" % v.lower() if distinguishes else
                   "the %s arm folds the branch values with unify_option, for which a branch *without* a value (None) matches "
                   "anything: `x := if c do 1 else do y := 2 end` gives x the type int although the else branch leaves nil" % v.lower(),
                   line_of(arm))
    # (2) a function with a declared return type must not fall off its end
    for arm, alt in tc.arm_of(F, fexpr, E, "Function"):
        guards_fall_off = False
        for i in nodes(arm["body"], "If"):
            t = pp(i["c"])
            if "implicit_ret" in t and ("is_none" in t or "None" in t) and tc.is_err_value(i["t"]):
                guards_fall_off = True
        rep.ob("VALUE-PATH", "expression|Function|fall-off-the-end", guards_fall_off,
               "a body that can end without a value is rejected when a return type is declared" if guards_fall_off else
               "the Function arm unifies the explicit returns with the body's trailing value when there is one and accepts a body "
               "that has `ret`s somewhere but can also run off its end: `f :: fn c: bool -> int do loop c do ret 1 end end` "
               "returns nil for f(false)", line_of(arm))
    # (3) the quotient of a division is only tied to the dividend by a constraint stored on the quotient
    back = False
    for c in nodes(fn_body(fexpr), "MethodCall"):
        if callee(c) == TC + "add_constraint" and tc.constraint_name(c["args"][2]) == "DivRes":
            node = tc.local_hid(c["args"][0])
            con = peel(c["args"][2])
            payload = tc.local_hid(con["args"][0]) if con.get("args") else None
            for c2 in nodes(fn_body(fexpr), "MethodCall"):
                if callee(c2) == TC + "add_constraint" and tc.local_hid(c2["args"][0]) == payload and payload is not None:
                    con2 = peel(c2["args"][2])
                    if con2.get("args") and any(tc.local_hid(a) == node for a in con2["args"]):
                        back = True
    rep.ob("VALUE-PATH", "expression|Div|quotient-follows-dividend", back,
           "the dividend carries a constraint naming the quotient, so refining the dividend re-derives the quotient's type" if back else
           "`c := a / 2` records DivRes(a) on the quotient only; when `a` becomes known later (a parameter at a call) nothing "
           "revisits the quotient, which stays Unknown: `g :: fn a do c := a / 2  d := c + \"px\" end` with g(4) is accepted",
           fexpr["sp"])
