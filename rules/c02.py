"""C02 — type soundness: structural necessary conditions (DESIGN §4 C02)."""
from hir import nodes, walk, fn_body, callee, last, line_of, peel, pp, norm_path, pat_alternatives, pat_variant, pat_bindings, pat_strip
from engines import matches_on, arm_alternatives, ty_is
from flow import Flow
import tc
import c03
import c09
from tc import TC, TCM, NR, TY

EXPLANATION = (
    "Decides three mechanisms whose failure makes an accepted program go wrong at run time (necessary conditions of "
    "soundness, not the theorem): (SCOPE) no variable can be read outside the scope that declares it - the resolver's scope "
    "stack is balanced around every expression, branch, loop body, block and function (same instances as C09); (DISCHARGE) "
    "every deferred constraint (operator, field, variant, total-case, index, variable) recorded with add_constraint is "
    "checked on every success path; (COPY) fresh instantiation (TypeChecker::copy) is applied only to the types of "
    "let-generalisable binders (blob/enum declarations named by a type or constructor), never blindly to the result of an "
    "arbitrary expression such as a lambda-bound parameter; (COPY-STRUCTURE) instantiation rebuilds every constraint and "
    "type constructor unchanged and remaps every type-graph edge into the copy."
    ' (OPERAND-PAIR) a binary-operator constraint is stored on both operand nodes, so refining either one re-checks it; (FIELD-SETS) unifying two blob types compares their field sets in both directions.'
    ' (ASSIGNABILITY) an index assignment is only accepted if the runtime can perform it for some type the checker admits there;'
    ' (DEFER-RECORDED, RET-FOLD, RET-ORIGIN, BINDER-TYPED, TYPE-NAME) as in C03; (VALUE-PATH) a missing branch value / a body that falls off its end / a quotient whose dividend is refined later are not silently compatible with everything (four known findings).'
    " (COPY environment) instantiating a generalised function's type leaves everything reachable from the variables that have one type at that point (parameters, locals and case variables of the functions being checked, non-function definitions) shared; parameters enter that set before the body is checked, non-generalised definitions when they are defined."
    ' (VALUE-PATH end-not-reached) every answer `true` of the predicate that lifts the fall-off-the-end and missing-value guards is justified per kind of last statement (ret, <!>, break, continue; a block; an if with else; a case): a reason outside the reviewed table is reported, a stricter one passes. (quotient) the dividend of a division carries a constraint that names the quotient.'
    ' (GUARD discipline, shared) the visited set of a guarded walk is not shared between constraints; (VALUE-PATH every-branch-counts) what a branch contributes to the valueless verdict reads nothing else the loop updates.'
    " (expression_block obligations, shared with C03) what a block's last expression returns is part of what the block returns; (VALUE-PATH trailing-value-always-compared) only the test on the declared return type stands in front of comparing the trailing value with the `ret`s."
)
UNDECIDED = ("soundness of unification with deferred constraints as a theorem; run-time behaviour of `external` code; "
             "nothing else about the runtime library.")

MANIFEST = dict(
    text=EXPLANATION + " Not decided: " + UNDECIDED,
    technique="scope-stack abstract interpretation + constraint must-pass-through + generalisation-site classification over resolved HIR",
)

E, S = NR + "Expression", NR + "Statement"


def run(F, rep, tier):
    rep.explanation = EXPLANATION
    rep.undecided = UNDECIDED
    c09.scope_rules(F, rep, "SCOPE")
    n = c03.discharge(F, rep, only=None)
    rep.floor("DISCHARGE", "add_constraint sites", n, 25)
    copy_discipline(F, rep)
    copy_structure(F, rep)
    c03.pairing(F, rep)
    c03.ret_fold(F, rep)
    c03.defer_recorded(F, rep)
    c03.binder_typed(F, rep)
    c03.type_names_are_not_values(F, rep)
    value_paths(F, rep)
    # the visited set of a guarded walk belongs to that walk: one set shared by all the constraints of a node makes `a - b` on two
    # strings pass because `a + b` looked at the pair first (shared with C03/C07)
    import c07
    c07.guard_discipline(F, rep)
    # what a block's last expression returns (`ret` inside an if that ends the block) is part of what the block returns
    import core
    core.borrow(rep, c03.obligations, lambda o: o["key"].startswith("expression_block|"), F)
    contradiction_info(F, rep)
    # "no read of an uninitialised variable": a global is initialised before anything that mentions it runs - every mention
    # is a dependency edge (the C11 instances)
    # a requirement on a type that is not known yet is kept until it is (unary minus on an element of a tuple included), and joining
    # two nodes keeps the requirements of both - or the arithmetic on a non-number they stand for is never refused (shared with C03)
    core.borrow(rep, lambda F_, r_: c03.accept(F_, r_, "ACCEPT"), lambda o: o["rule"] == "DEFER-RECORDED", F)
    core.borrow(rep, c03.unification_core, lambda o: o["rule"] == "UNIFY-CORE", F)
    import c11
    c11.dependency_visit(F, rep)
    # .. and every edge is followed when the globals are ordered: `x :: x + 1` reads x before it has a value unless the edge to
    # itself is followed and reported as a cycle
    c11.cycle(F, rep)
    # the types the checker works with for library functions are the ones their Lua definitions have
    import c18
    c18.library_typing(F, rep)


def copy_discipline(F, rep, only_declaration=False, only_generalised=False):
    n = 0
    real = rep
    if only_generalised:
        import core
        scratch = core.Report("_", "quick")
        copy_discipline(F, scratch)
        for o in scratch.obs:
            if o["key"].startswith(("expression|Read|variable-type", "environment|")) or o["key"].endswith("|insertions") or \
                    (o["rule"] == "COPY" and ("|Type::" in o["key"] or "|Constraint::" in o["key"] or o["key"].endswith("|no-early-return"))) or \
                    (o["rule"] == "COPY" and o["key"].startswith("expression|") and "|is-a-declaration" not in o["key"]
                     and not o["key"].startswith(("expression|Variant", "expression|Blob|"))) or \
                    o["key"] == "expression|-|result-of-any-expression":
                real.obs.append(o)
                real.sites += 1
        return
    if only_declaration:
        import core
        rep = core.Report("_", "quick")
    # the functions that hand out a fresh instance of a type: whatever enters inner_copy from outside
    copiers = {f_["_path"] for f_ in F.fns_in(TCM) if last(f_["_path"]) != "inner_copy" and
               any(callee(c_) == TC + "inner_copy" for c_ in nodes(fn_body(f_), "MethodCall"))}
    for fn in F.fns_in(TCM):
        body = fn_body(fn)
        fl = None
        fname = last(fn["_path"])
        if fn["_path"] in copiers or fname == "inner_copy":
            continue
        for c, parents in walk(body):
            if c.get("k") != "MethodCall" or callee(c) not in copiers:
                continue
            if fl is None:
                fl = Flow(fn, body)
                rep.analysed(fn)
            n += 1
            d = tc.describe(fl, c["args"][0])
            ctxname = tc._arm_context(parents)
            if d == "match(..)" and not ctxname:
                d = "result-of-any-expression"
            key = "%s|%s|%s" % (fname, ctxname or "-", d)
            if fname == "expression" and ctxname.startswith("Read"):
                # the value of a variable: a fresh instance only for let-generalised constants
                key = "expression|Read|variable-type"
                g = _generalised_guard(F, fl, c, parents)
                rep.ob("COPY", key + "|only-generalised", g is not None,
                       "reading a variable instantiates its type afresh only under `%s`: parameters, mutable variables and a "
                       "function inside its own body keep one type" % g if g else
                       "the Read arm copies the type of any variable: a function-typed parameter (`f: fn *A -> *A`) can then be "
                       "called at two different types and any function passed for it is accepted", line_of(c))
                if g:
                    _generalised_insertions(F, rep, g)
                _environment_shared(F, rep, callee(c))
                continue
            if d.startswith("varty:"):
                # the type of a variable: only declarations named as a type / constructor are generalisable
                ref = d.split(":", 1)[1]
                ok = ref in ("ty", "blob", "var", "UserType.0", "0") or ref.endswith(".0")
                origin = ref
                rep.ob("COPY", key, ok,
                       "copy() of the type of variable `%s`: %s" % (origin, "a blob/enum declaration referenced as a type (generalisable)"
                                                                     if ok else "not known to be a let-generalisable binder"),
                       line_of(c))
                # ... and the position only *names* a variable: nothing in the syntax makes it a declaration (a
                # capitalised parameter or local shadows the declaration), so the arm has to establish that it is one
                how = _is_declaration_established(F, fl, c, parents, ref)
                rep.ob("COPY", key + "|is-a-declaration", how is not None,
                       "the instantiated variable `%s` is shown to be a blob/enum declaration: %s" % (ref, how) if how else
                       "`%s` is instantiated like a declaration, but the arm never establishes that the variable *is* one: a "
                       "capitalised parameter or local with that name is looked up like any variable, its type is still "
                       "Unknown, so whatever is demanded of the copy (a variant, fields) is deferred for ever: "
                       "`f :: fn Color do c :: Color.Purple 1 end` builds a variant no enum declares" % ref,
                       line_of(c))
            else:
                # dead code is tolerated: copying a field type when the *outer* value is a function can never happen
                dead = fname == "expression" and ctxname.startswith("BlobAccess") and _guarded_by_outer_being_a_function(fl, c, parents)
                rep.ob("COPY", key, dead,
                       ("copy() of `%s` is unreachable here (a value with a Field constraint cannot be a function)" % d) if dead else
                       ("copy() is applied to `%s`, the result of an arbitrary expression: a function-typed value bound by a "
                        "lambda parameter is instantiated afresh at every use, so `f: fn *A -> *A` can be called at two "
                        "different types and any function passed for it is accepted" % d),
                       line_of(c))
    if only_declaration:
        for o in rep.obs:
            if o["key"].endswith("|is-a-declaration"):
                real.obs.append(o)
                real.sites += 1
        return
    rep.floor("COPY", "copy() call sites", n, 5)


def _guarded_by_outer_being_a_function(fl, copy_call, parents):
    """`match self.find_type(outer) { Function => copy(field) }` with `outer` the value a Field constraint was just added
    to: that arm cannot be taken"""
    for p in reversed(parents):
        if p.get("k") == "Match":
            sc = peel(p["scrut"])
            if sc.get("k") == "MethodCall" and callee(sc) == TC + "find_type":
                return tc.describe(fl, sc["args"][0]).startswith(("exprof:", "retof:"))
    return False


def _generalised_guard(F, fl, copy_call, parents):
    """name of the TypeChecker set whose membership (of the variable being read) guards the copy, or None"""
    for p in reversed(parents):
        if p.get("k") != "If":
            continue
        if not any(x is copy_call for x in nodes(p["t"])):
            continue
        for x in nodes(p["c"]):
            cand = x
            if x.get("k") == "Path" and x.get("res") == "Local":
                cand = fl.trace(x)
            for m in nodes(cand, "MethodCall") if isinstance(cand, dict) else []:
                r = peel(m["recv"])
                if m["m"] in ("contains", "contains_key") and r.get("k") == "Field" and \
                        ty_is((r.get("base_ty") or "").replace("&mut ", "").replace("&", ""), TCM + "TypeChecker") and \
                        tc.root_field(fl, m["args"][0]) in ("var", "0"):
                    return r["name"]
    return None


def _environment_shared(F, rep, copier):
    """a generalised function's type may mention types that are not its own: the type of a parameter or local of the
    function it is defined in (`outer :: fn x do inner :: fn -> x end ..`), of a mutable global (`z := []`,
    `get :: fn -> z end`).  An instance that copies those as well cuts the function loose from the variable it reads:
    `inner() + 1` no longer says anything about `x`.  So the instantiation enters inner_copy with the surroundings already
    mapped to themselves, and the surroundings are kept up to date where variables get their one type."""
    fn = F.fns[copier]
    body = fn_body(fn)
    seen_local = None
    for c in nodes(body, "MethodCall"):
        if callee(c) == TC + "inner_copy" and len(c["args"]) >= 2:
            a = peel(c["args"][1])
            if a.get("k") == "Path" and a.get("res") == "Local":
                seen_local = a["hid"]
    seeded_from = None
    if seen_local is not None:
        seeds = [c for c in nodes(body, "MethodCall") if c["m"] in ("insert", "extend", "entry") and
                 peel(c["recv"]).get("hid") == seen_local]
        if seeds:
            for f_ in nodes(body, "Field"):
                if ty_is((f_.get("base_ty") or "").replace("&mut ", "").replace("&", ""), TCM + "TypeChecker") and \
                        f_["name"] not in ("variables", "types"):
                    seeded_from = f_["name"]
    rep.ob("COPY", "expression|Read|variable-type|environment-stays-shared", seeded_from is not None,
           ("the instance of a generalised function's type is made with the types reachable from `self.%s` mapped to themselves"
            % seeded_from) if seeded_from else
           "TypeChecker::%s copies everything reachable from a generalised function's type, including type variables that belong to "
           "the surroundings: `outer :: fn x do inner :: fn -> x end / a := inner() + 1 end` with `outer(\"s\")` is accepted "
           "(`\"s\" + 1` at run time), and so is `z := []`, `get :: fn -> z end`, `list.push(z, 1)`, `s: [str] = get()`" % last(copier),
           fn["sp"])
    if not seeded_from:
        return
    from flow import uncond_nodes
    from engines import _drops_elements
    # .. all of them: the walk starts from every variable in that set (a filter in front of it lets some go: a global
    # `seen := []` whose element type is still open is copied with every function that pushes into it) ..
    starts = [x for x in nodes(body) if x.get("k") == "Field" and x["name"] == seeded_from]
    dropped = False
    for x, parents in walk(body):
        if x.get("k") == "MethodCall" and x["m"] in ("filter", "skip", "take", "step_by", "skip_while", "take_while", "filter_map") and \
                any(f_ is y for f_ in starts for y in nodes(x["recv"])):
            dropped = True
    rep.ob("COPY", "environment|every-variable-of-the-surroundings-is-a-start", not dropped,
           "the reachability walk starts from every variable in `self.%s`" % seeded_from if not dropped else
           "the reachability walk filters `self.%s` before it starts: the variables left out are copied with every function that "
           "mentions them (`seen := []`, `note :: fn v do list.push(seen, v) end`, `note(1)`, `note(\"two\")` is accepted)" % seeded_from,
           fn["sp"])
    # .. and every node the walk reaches is kept as it is - known or not: a known `fn int -> int` still has an open purity
    loops = [x for x in nodes(body) if x.get("k") in ("While", "Loop", "ForLoop")]
    keeps = []
    for lp in loops:
        lb = lp.get("body")
        if lp.get("k") == "Loop":
            # `while let Some(x) = todo.pop()` desugars to loop { match .. { Some(x) => body, None => break } }
            for m_ in nodes(lp, "Match"):
                for a_ in m_["arms"]:
                    if any(c_.get("k") == "MethodCall" and c_["m"] in ("insert",) and peel(c_["recv"]).get("hid") == seen_local
                           for c_ in nodes(a_["body"])):
                        lb = a_["body"]
        if lb is None:
            continue
        ins = [c_ for c_ in nodes(lb, "MethodCall") if c_["m"] == "insert" and peel(c_["recv"]).get("hid") == seen_local]
        for c_ in ins:
            keeps.append(any(y is c_ for y in uncond_nodes(lb)))
    rep.ob("COPY", "environment|every-reached-node-is-kept", bool(keeps) and all(keeps),
           "every node the walk reaches is mapped to itself" if keeps and all(keeps) else
           "the walk maps a reached node to itself only under a condition (only the still-unknown ones, say): the others are rebuilt "
           "as copies - and a known function type with an open purity loses what an instance learns about it, so an impure "
           "function reaches a `pu` parameter through a local function", fn["sp"])
    # .. reachable means: along every edge the copy follows.  The function that lists a node's edges is the sibling of
    # inner_copy and has to name the same payloads
    walkers = {callee(c) for c in nodes(body, "MethodCall") if (callee(c) or "").startswith(TC) and
               callee(c) not in (TC + "inner_copy", TC + "find", TC + "find_node", TC + "find_type")}
    ne = 0
    for w in sorted(walkers):
        wf = F.fns.get(w)
        if wf is None or wf.get("body") is None:
            continue
        ne += tc.edges_enumerated(F, rep, "COPY", wf, TCM.replace("typechecker::", "ty::") + "Type")
        ne += tc.edges_enumerated(F, rep, "COPY", wf, TCM + "Constraint")
        # both sources of edges are consulted for every node: no way out of the function between them
        early = [x for x in nodes(fn_body(wf), "Ret")]
        rep.ob("COPY", "%s|no-early-return" % last(w), not early,
               "%s lists the parts of the type and the types its constraints name for every node" % last(w) if not early else
               "%s returns early (line %s): for those nodes the types their constraints talk about are not followed - exactly the "
               "still-unknown nodes, which are the ones that carry constraints" % (last(w), (line_of(early[0]) or "?").split(":")[-2]),
               line_of(early[0]) if early else wf["sp"])
    rep.floor("COPY", "type-graph edges enumerated by the reachability walk", ne, 20)
    # who keeps the surroundings: parameters enter before the body is checked and leave after it; definitions that are not
    # generalised enter
    fexpr = F.fn(TC + "expression")
    arms = tc.arm_of(F, fexpr, "sylt_compiler::name_resolution::Expression", "Function")
    ok_params = False
    for arm, _alt in arms or []:
        order = []
        for x in nodes(arm["body"], "MethodCall"):
            r = peel(x["recv"])
            if r.get("k") == "Field" and r["name"] == seeded_from and x["m"] in ("extend", "push", "insert"):
                order.append("enter")
            elif r.get("k") == "Field" and r["name"] == seeded_from and x["m"] in ("truncate", "pop", "remove", "retain", "split_off", "drain"):
                order.append("leave")
            elif callee(x) == TC + "expression_block":
                order.append("body")
        ok_params = "enter" in order and "body" in order and order.index("enter") < order.index("body") and \
            ("leave" not in order or order.index("leave") > order.index("body"))
    rep.ob("COPY", "environment|parameters-enter-before-the-body", ok_params,
           "the parameters of a function literal are in `self.%s` while its body is checked" % seeded_from if ok_params else
           "the Function arm does not put the parameters into `self.%s` before checking the body (or takes them out before): an "
           "inner function that returns a parameter of the enclosing one is generalised over that parameter's type" % seeded_from,
           fexpr["sp"])
    # .. and so has the function whose body is being checked (it is not generalised yet: a local helper that calls it must
    # not get a fresh copy of its still-unknown result type at every use) ..
    fdef = F.fn(TC + "definition")
    order = []
    for x in nodes(fn_body(fdef), "MethodCall"):
        r = peel(x["recv"])
        if r.get("k") == "Field" and r["name"] == seeded_from and x["m"] in ("extend", "push", "insert"):
            order.append("enter")
        elif callee(x) == TC + "expression":
            order.append("body")
    own = "enter" in order and "body" in order and order.index("enter") < order.index("body")
    rep.ob("COPY", "environment|function-has-one-type-in-its-own-body", own,
           "definition() puts the variable being defined into `self.%s` before its value is checked" % seeded_from if own else
           "while the body of `f :: fn ..` is checked `f` is neither generalised nor in `self.%s`: a local helper `g :: fn y -> f(y) end` "
           "is instantiated with a fresh copy of f's unknown result type at every use - `g(x - 1) + \"s\"` is accepted in a function "
           "that returns int" % seeded_from, fdef["sp"])
    # .. and `self` inside a blob literal's methods
    arms_b = tc.arm_of(F, fexpr, "sylt_compiler::name_resolution::Expression", "Blob")
    self_ok = False
    for arm, alt in arms_b or []:
        order = []
        for x in nodes(arm["body"]):
            if x.get("k") == "MethodCall":
                r = peel(x["recv"])
                if r.get("k") == "Field" and r["name"] == seeded_from and x["m"] in ("extend", "push", "insert") and \
                        "self_var" in pp(x["args"][0] if x["args"] else {}):
                    order.append("enter")
                elif callee(x) == TC + "expression":
                    order.append("field")
        self_ok = "enter" in order and "field" in order and order.index("enter") < order.index("field")
    rep.ob("COPY", "environment|self-has-one-type-in-the-methods", self_ok,
           "the Blob arm puts `self` into `self.%s` before the field values are checked" % seeded_from if self_ok else
           "`self` of a blob literal is not in `self.%s` while the methods are checked: a local helper `get :: fn -> self.x end` gets a "
           "fresh copy of the field's type at every use - `get() + \"!\"` is accepted for a field declared int" % seeded_from, fexpr["sp"])
    enters = [x for x in nodes(fn_body(fdef), "MethodCall") if peel(x["recv"]).get("k") == "Field" and
              peel(x["recv"])["name"] == seeded_from and x["m"] in ("extend", "push", "insert")]
    rep.ob("COPY", "environment|definitions-enter", bool(enters),
           "a definition that is not generalised enters `self.%s`" % seeded_from if enters else
           "definition() never adds a variable to `self.%s`: a mutable variable read by a generalised function is copied with it"
           % seeded_from, fdef["sp"])


def _generalised_insertions(F, rep, setname):
    """who puts a variable into that set: (a) definition(), after the value has been checked (so not the function inside
    its own body), for immutable definitions whose value is a function literal or names a generalised constant; (b) the
    ExternalDefinition arm of outer_statement (the declaration is all there is).  Nothing else - in particular not the
    code that introduces parameters."""
    sites = []
    for fn in F.fns_in(TCM):
        for n_, parents in walk(fn_body(fn)):
            if n_.get("k") == "MethodCall" and n_["m"] == "insert":
                r = peel(n_["recv"])
                if r.get("k") == "Field" and r["name"] == setname and \
                        ty_is((r.get("base_ty") or "").replace("&mut ", "").replace("&", ""), TCM + "TypeChecker"):
                    sites.append((fn, n_, parents))
    ok_all = bool(sites)
    notes = []
    for fn, n_, parents in sites:
        fname = last(fn["_path"])
        if fname == "definition":
            body = fn_body(fn)
            # after the call that checks the value, in statement order
            order = [x for x in nodes(body) if (x.get("k") == "MethodCall" and callee(x) == TC + "expression") or x is n_]
            after = any(x is n_ for x in order[1:]) and order and order[0] is not n_
            cond = [p for p in parents if p.get("k") == "If"]
            txt = " ".join(pp(p["c"]) for p in cond)
            immut = "immutable" in txt
            shape = False
            fl = Flow(fn, body)
            for p in cond:
                # the test on the value's form: a match over Expression, written in the condition itself, behind a local,
                # or in a helper (which the fact loader has put back in place)
                cands = [m_ for m_ in nodes(p["c"], "Match")]
                for x in nodes(p["c"], "Path"):
                    if x.get("res") == "Local":
                        src = fl.trace(x)
                        if isinstance(src, dict):
                            cands += [m_ for m_ in nodes(src, "Match")]
                for src in cands:
                    if "name_resolution::Expression" not in (src.get("scrut_ty") or ""):
                        continue
                    vs = {last(pat_variant(alt) or "_") for a in src["arms"] for alt in pat_alternatives(a["pat"])
                          if not (peel(a["body"]).get("k") == "Lit" and peel(a["body"]).get("v") is False)}
                    shape = shape or (vs <= {"Function", "Read"} and "Function" in vs)
            good = after and immut and shape
            notes.append("definition(): after the value is checked=%s, immutable only=%s, function literal / generalised name only=%s" % (after, immut, shape))
        elif fname == "outer_statement":
            good = "ExternalDefinition" in (tc._arm_context(parents) or "")
            notes.append("outer_statement: in the ExternalDefinition arm=%s" % good)
        else:
            good = False
            notes.append("%s: not a place where a binding is generalised" % fname)
        ok_all = ok_all and good
    rep.ob("COPY", "%s|insertions" % setname, ok_all,
           "variables enter `%s` only where a binding may be generalised (%s)" % (setname, "; ".join(notes)) if ok_all else
           "`%s` - the set of variables whose type is instantiated afresh on every read - is filled somewhere it must not be (%s): "
           "a parameter, a mutable variable, or a function while its own body is checked would be usable at several types"
           % (setname, "; ".join(notes) or "no insertion found"), sites[0][1].get("sp") if sites else None, sites=len(sites))


def _declaration_sets(F):
    """fields of TypeChecker that the Blob *and* Enum arms of outer_statement insert into"""
    fos = F.fn(TC + "outer_statement")
    filled = {}
    for v in ("Blob", "Enum"):
        for arm, alt in tc.arm_of(F, fos, NR + "Statement", v):
            for c in nodes(arm["body"], "MethodCall"):
                r = peel(c["recv"])
                if c["m"] == "insert" and r.get("k") == "Field" and ty_is((r.get("base_ty") or "").replace("&mut ", "").replace("&", ""), TCM + "TypeChecker"):
                    filled.setdefault(r["name"], set()).add(v)
    return {f for f, vs in filled.items() if vs == {"Blob", "Enum"}}


def _is_declaration_established(F, fl, copy_call, parents, ref):
    from flow import uncond_nodes
    arm = None
    for p in parents:
        if p.get("k") is None and "pat" in p and "body" in p:
            arm = p
    scope = arm["body"] if arm is not None else fn_body(fl.fn) if hasattr(fl, "fn") else None
    if scope is None:
        return None
    decl_sets = _declaration_sets(F)
    # (a) `if !self.<declarations>.contains(X) { return Err }` unconditionally in the arm
    for n in uncond_nodes(scope):
        if n.get("k") == "If" and tc.is_err_value(n["t"]):
            c = peel(n["c"])
            if c.get("k") == "Unary" and c.get("op") == "Not":
                m = peel(c["e"])
                if m.get("k") == "MethodCall" and m["m"] in ("contains", "contains_key") and peel(m["recv"]).get("name") in decl_sets \
                        and tc.root_field(fl, m["args"][0]) == ref:
                    return "membership in %s is tested first" % peel(m["recv"]).get("name")
    # (b) the copy is matched on its type and everything that is not a declared type is an error (a quiet Unknown arm is
    #     the USERTYPE obligation of C03)
    res_hid = None
    for hid, o in fl.origin.items():
        if o["kind"] == "let" and o["src"] is not None and peel(o["src"]) is copy_call and o["path"] == ():
            res_hid = hid
    for m in nodes(scope, "Match"):
        sc = peel(m["scrut"])
        if sc.get("k") == "MethodCall" and callee(sc) == TC + "find_type" and res_hid is not None and tc.local_hid(sc["args"][0]) == res_hid:
            bad = []
            catch = False
            for a in m["arms"]:
                for alt in pat_alternatives(a["pat"]):
                    v = pat_variant(alt)
                    name = last(v) if v else "_"
                    if name == "_":
                        catch = True
                    if name not in ("Blob", "ExternBlob", "Enum", "Unknown") and not tc.is_err_value(a["body"]):
                        bad.append(name)
            if catch and not bad:
                return "the copy is matched on its type; anything but a blob / enum is an error"
    return None


def copy_structure(F, rep):
    """inner_copy (instantiation of polymorphic types) must rebuild every constraint and every type with the same
    constructor and remap every type-graph edge into the copy: a stale edge or a changed constraint kind makes the
    instantiated type check something else than the original demanded"""
    fn = F.fn(TC + "inner_copy")
    rep.analysed(fn)
    n1 = tc.structure_preserving(F, rep, "COPY-STRUCTURE", fn, TCM + "Constraint", TC + "inner_copy")
    n2 = tc.structure_preserving(F, rep, "COPY-STRUCTURE", fn, TY, TC + "inner_copy")
    rep.floor("COPY-STRUCTURE", "constraint rows", n1, 17)
    rep.floor("COPY-STRUCTURE", "type rows", n2, 14)


def contradiction_info(F, rep):
    """can_assign / constant_index / __ASSIGN_INDEX must agree: an accepted index assignment has to be able to succeed"""
    import c04
    fca = F.fn(TC + "can_assign")
    rep.analysed(fca)
    accepted = set()
    for m in matches_on(fn_body(fca), E):
        for a, alt, vp in arm_alternatives(m):
            if not tc.is_err_value(peel(a["body"])):
                accepted.add(last(vp) if vp else "_")
        break
    c04.index_targets_writable(F, rep, "Index" in accepted or "_" in accepted)


def trailing_value_is_the_return(F, rep, rule):
    """`a trailing expression means ret of that expression`: in the Function arm the value half of the body's
    expression_block result is what gets unified with the explicit returns and the declared type - the very value, not a
    filtered copy (one that is dropped when it is void, say: `fn -> int do if c do ret 1 end  note() end` would be accepted
    while the same body ending in `ret note()` is not)."""
    fexpr = F.fn(TC + "expression")
    fl = Flow(fexpr, fn_body(fexpr))
    n = 0
    for arm, alt in tc.arm_of(F, fexpr, E, "Function"):
        blocks = [c for c in nodes(arm["body"], "MethodCall") if callee(c) == TC + "expression_block"]
        for c, parents in walk(arm["body"]):
            if c.get("k") != "MethodCall" or callee(c) != TC + "unify_option" or len(c["args"]) < 4:
                continue
            ds = [tc.describe(fl, a) for a in c["args"][2:4]]
            if not any(d.startswith(("blockvalue:", "blockret:")) or "block" in d for d in ds):
                continue
            n += 1
            # the comparison of the trailing value with the `ret`s is made whenever the function is declared to return something:
            # the only test that may stand in front of it is the one on the declared type (`ret.is_void()`)
            if any(d.startswith("blockvalue:") for d in ds):
                extra = []
                for p_ in parents:
                    if p_.get("k") == "If" and any(x is c for b_ in (p_.get("t"), p_.get("e")) if b_ is not None for x in nodes(b_)):
                        ct = pp(p_["c"])
                        if "is_void" not in ct:
                            extra.append(ct[:60])
                rep.ob(rule, "expression|Function|trailing-value-always-compared", not extra,
                       "the trailing value is compared with the explicit returns whenever a value is returned" if not extra else
                       "the comparison of the body's trailing value with its `ret`s is skipped under a condition (`%s`): "
                       "`fn n: int -> int do if n < 0 do ret 0 end \"many\" end` is accepted and returns a string" % extra[0], line_of(c))
        # every local that receives the value half: must be bound directly by the let that destructures expression_block's result
        value_locals = []
        for st in nodes(arm["body"], "Let"):
            init = peel(st.get("init") or {})
            if init.get("k") == "Try":
                init = peel(init["e"])
            if init.get("k") == "MethodCall" and callee(init) == TC + "expression_block":
                bs = pat_bindings(st["pat"])
                if len(bs) == 2:
                    value_locals.append(bs[1])
        rebinds = []
        for vl in value_locals:
            for st in nodes(arm["body"], "Let"):
                bs = pat_bindings(st["pat"])
                init = st.get("init")
                if init is None or any(b["hid"] == vl["hid"] for b in bs):
                    continue
                if any(b["name"] == vl["name"] for b in bs) and any(x.get("hid") == vl["hid"] for x in nodes(init, "Path")):
                    rebinds.append((st, vl["name"]))
            for a_ in nodes(arm["body"], "Assign"):
                t = peel(a_["l"])
                if t.get("k") == "Path" and t.get("hid") == vl["hid"]:
                    rebinds.append((a_, vl["name"]))
        rep.ob(rule, "expression|Function|trailing-value-unfiltered", bool(value_locals) and not rebinds,
               "the value of the body's trailing expression is unified with the returns as it comes from expression_block" if value_locals and not rebinds else
               "the Function arm replaces the trailing value (`%s`) before it is compared with the explicit returns: a trailing expression "
               "that is filtered out no longer means `ret` of that expression" % (rebinds[0][1] if rebinds else "?"),
               line_of(rebinds[0][0]) if rebinds else line_of(arm))


def value_paths(F, rep):
    """three places where an accepted program computes with nil because a *missing* value or return is treated as
    `compatible with anything` (Option<TyID> = None meets Some(t) in unify_option):"""
    fexpr = F.fn(TC + "expression")
    rep.analysed(fexpr)
    # (1) if / case used as a value: a branch that yields no value must make the whole expression valueless
    fl_e = Flow(fexpr, fn_body(fexpr))
    for v in ("If", "Case"):
        for arm, alt in tc.arm_of(F, fexpr, E, v):
            # somewhere in the arm the *absence* of a branch's value is looked at: is_none() / is_some() / a match on an
            # Option that is the value half of an expression_block result (whatever the local is called)
            distinguishes = False

            def is_block_value(e):
                d = tc.describe(fl_e, e)
                if d.startswith("blockvalue:"):
                    return True
                # an element of a collection of (.., .., value) triples built from expression_block results
                e0 = peel(e)
                if e0.get("k") == "Path" and e0.get("res") == "Local":
                    o = fl_e.origin.get(e0["hid"])
                    if o and o["kind"] in ("closure", "for") and o.get("src") is not None:
                        base = fl_e.trace(tc._iter_base(o["src"]))
                        return isinstance(base, dict) and any(callee(c) == TC + "expression_block" for c in nodes(base, "MethodCall"))
                return False
            for c in nodes(arm["body"], "MethodCall"):
                if c["m"] in ("is_none", "is_some") and is_block_value(c["recv"]):
                    distinguishes = True
            for m in nodes(arm["body"], "Match"):
                if "Option<sylt_common::TyID>" in (m.get("scrut_ty") or "") and is_block_value(m["scrut"]):
                    distinguishes = True
            rep.ob("VALUE-PATH", "expression|%s|branch-without-value" % v, distinguishes,
                   "a branch that yields no value makes the whole %s valueless" % v.lower() if distinguishes else
                   "the %s arm folds the branch values with unify_option, for which a branch *without* a value (None) matches "
                   "anything: `x := if c do 1 else do y := 2 end` gives x the type int although the else branch leaves nil" % v.lower(),
                   line_of(arm))
            # .. and of *every* branch: a verdict that is overwritten on each turn of the loop over the branches only knows the last one
            k_ = 0
            for w, parents in walk(arm["body"]):
                if w.get("k") not in ("Assign", "AssignOp"):
                    continue
                tgt = peel(w["l"])
                if not (tgt.get("k") == "Path" and tgt.get("res") == "Local"):
                    continue
                looks = any(c["m"] in ("is_none", "is_some") and is_block_value(c["recv"]) for c in nodes(w["r"], "MethodCall"))
                if not looks:
                    continue
                in_loop = any(p_.get("k") in ("ForLoop", "While", "Loop", "Closure") for p_ in parents
                              if any(x is p_ for x in nodes(arm["body"])))
                k_ += 1
                accumulates = (w.get("k") == "AssignOp" and str(w.get("op", "")).startswith(("BitOr", "BitAnd", "Or", "And"))) or \
                    any(x.get("k") == "Path" and x.get("hid") == tgt["hid"] for x in nodes(w["r"]))
                ok_ = accumulates or not in_loop
                # .. and what one branch contributes depends on that branch only: a term that also reads another variable the
                # same loop updates (`value.is_some() && branch_value.is_none()`) asks what the *earlier* branches gave - a
                # valueless branch in front of the first branch with a value goes unnoticed
                order_dep = None
                if in_loop and ok_:
                    loops_ = [p_ for p_ in parents if p_.get("k") in ("ForLoop", "While", "Loop", "Closure") and
                              any(x is p_ for x in nodes(arm["body"]))]
                    upd = set()
                    for a2 in nodes(loops_[-1].get("body"), None) if loops_ else ():
                        if a2.get("k") in ("Assign", "AssignOp"):
                            t2 = peel(a2["l"])
                            if t2.get("k") == "Path" and t2.get("res") == "Local":
                                upd.add(t2["hid"])
                    for x in nodes(w["r"], "Path"):
                        if x.get("res") == "Local" and x["hid"] in upd and x["hid"] != tgt["hid"]:
                            order_dep = x.get("name")
                if order_dep:
                    rep.ob("VALUE-PATH", "expression|%s|every-branch-counts#%d" % (v, k_), False,
                           "what a branch without a value contributes to `%s` also depends on `%s`, which the same loop updates: only a "
                           "valueless branch *after* a branch with a value counts, `x := if c do y = 2 else do 1 end` gives x the type "
                           "int although the first branch leaves nil" % (tgt.get("name"), order_dep), line_of(w))
                    continue
                rep.ob("VALUE-PATH", "expression|%s|every-branch-counts#%d" % (v, k_), ok_,
                       "the verdict `%s` accumulates over the branches" % tgt.get("name") if ok_ else
                       "inside the loop over the branches `%s` is overwritten (`=`) with whether *this* branch lacks a value: only the "
                       "last branch decides, `y := case m do None -> n += 1 end Just x -> x end end` gives y the type int although the "
                       "None branch leaves nil" % tgt.get("name"), line_of(w))
            # .. and what the other branches *return* is not the value of a branch that yields nothing: `value.or(ret)` hands the
            # function's return type on as the value of `if c do ret 1 else do n = 2 end`
            for c in nodes(arm["body"], "MethodCall"):
                if c["m"] == "or" and c["args"] and "Option<sylt_common::TyID>" in (c.get("recv_ty") or ""):
                    a_ = peel(c["args"][0])
                    plain = a_.get("k") == "Path" and a_.get("res") == "Local"
                    rep.ob("VALUE-PATH", "expression|%s|returns-are-not-the-value" % v, not plain,
                           "the return type stands in for a missing value only under a test (that no branch can reach its end)" if not plain else
                           "the %s arm answers `value.or(%s)`: when no branch yields a value the type of the `ret`s is taken as the value of "
                           "the expression - a function ending in `if c do ret 1 else do n = 2 end` is accepted as returning int and "
                           "returns nil on the else path" % (v.lower(), a_.get("name")), line_of(c))
    # (2) a function with a declared return type must not fall off its end
    for arm, alt in tc.arm_of(F, fexpr, E, "Function"):
        guards_fall_off = False
        for i in nodes(arm["body"], "If"):
            t = pp(i["c"])
            if "implicit_ret" in t and ("is_none" in t or "None" in t) and tc.is_err_value(i["t"]):
                guards_fall_off = True
        rep.ob("VALUE-PATH", "expression|Function|fall-off-the-end", guards_fall_off,
               "a body that can end without a value is rejected when a return type is declared" if guards_fall_off else
               "the Function arm unifies the explicit returns with the body's trailing value when there is one and accepts a body "
               "that has `ret`s somewhere but can also run off its end: `f :: fn c: bool -> int do loop c do ret 1 end end` "
               "returns nil for f(false)", line_of(arm))
    trailing_value_is_the_return(F, rep, "VALUE-PATH")
    end_unreachable(F, rep, "VALUE-PATH")
    # (3) the quotient of a division is only tied to the dividend by a constraint stored on the quotient
    back = False
    for c in nodes(fn_body(fexpr), "MethodCall"):
        if callee(c) == TC + "add_constraint" and tc.constraint_name(c["args"][2]) == "DivRes":
            node = tc.local_hid(c["args"][0])
            con = peel(c["args"][2])
            payload = tc.local_hid(con["args"][0]) if con.get("args") else None
            for c2 in nodes(fn_body(fexpr), "MethodCall"):
                if callee(c2) == TC + "add_constraint" and tc.local_hid(c2["args"][0]) == payload and payload is not None:
                    con2 = peel(c2["args"][2])
                    if con2.get("args") and any(tc.local_hid(a) == node for a in con2["args"]):
                        back = True
    # .. or the function that derives the quotient from the dividend (the one DivRes replays) records, when the dividend is still
    # unknown, a constraint *on the dividend* that names the quotient
    replay = None
    back_why = None
    fcc = F.fn(TC + "check_constraints")
    for arm, alt in tc.arm_of(F, fcc, TCM + "Constraint", "DivRes"):
        for c in nodes(arm["body"], "MethodCall"):
            if (callee(c) or "").startswith(TC) and callee(c) != TC + "check_constraints":
                replay = callee(c)
    if replay and not back:
        fdr = F.fn(replay)
        rep.analysed(fdr)
        ty_params = [b for prm in fdr["params"] if prm["ty"].strip() in ("sylt_common::TyID", "usize", "TyID") for b in pat_bindings(prm["pat"])]
        for m in nodes(fn_body(fdr), "Match"):
            for arm in m["arms"]:
                for alt in pat_alternatives(arm["pat"]):
                    p_ = pat_strip(alt)
                    subs = p_.get("pats") if p_.get("k") == "Tuple" else None
                    if not subs or not (pat_variant(subs[0]) or "").endswith("Type::Unknown"):
                        continue
                    for c in nodes(arm["body"], "MethodCall"):
                        if callee(c) == TC + "add_constraint" and len(ty_params) >= 2:
                            on = tc.local_hid(c["args"][0])
                            con = peel(c["args"][2])
                            names = [tc.local_hid(a_) for a_ in (con.get("args") or [])]
                            fl_dr = Flow(fdr, fn_body(fdr))
                            d0, d1 = fl_dr.derived({ty_params[0]["hid"]}), fl_dr.derived({ty_params[1]["hid"]})
                            # (`let (a, b) = (self.find(a), self.find(b))` keeps the roles under the same names)
                            nm_on = peel(c["args"][0]).get("name")
                            nm_pl = [peel(a_).get("name") for a_ in (con.get("args") or [])]
                            if on in d0 and nm_on == ty_params[0]["name"] and \
                                    any(x in d1 and n_ == ty_params[1]["name"] for x, n_ in zip(names, nm_pl)):
                                # .. and that constraint is replayed by check_constraints as the very same derivation: the
                                # deriver itself, with the node (the dividend) first and the payload (the quotient) second
                                cn_back = tc.constraint_name(c["args"][2])
                                replayed = False
                                cc_nodes = [b["hid"] for prm in fcc["params"] for b in pat_bindings(prm["pat"])
                                            if prm["ty"].strip().split("::")[-1] == "TyID"]
                                for arm2, alt2 in tc.arm_of(F, fcc, TCM + "Constraint", cn_back or "?"):
                                    bound2 = [b["hid"] for b in pat_bindings(alt2)]
                                    for c2 in nodes(arm2["body"], "MethodCall"):
                                        if callee(c2) == replay:
                                            hs = [tc.local_hid(a_) for a_ in c2["args"]]
                                            tys = [h for h in hs if h in cc_nodes or h in bound2]
                                            replayed = len(tys) >= 2 and tys[0] in cc_nodes and tys[1] in bound2
                                back = replayed
                                if not replayed:
                                    back_why = "Constraint::%s, which the dividend carries, is not replayed as %s(dividend, quotient)" % (cn_back, last(replay))
    rep.ob("VALUE-PATH", "expression|Div|quotient-follows-dividend", back,
           "the dividend carries a constraint naming the quotient, so refining the dividend re-derives the quotient's type" if back else
           ("%s: when the dividend becomes known the quotient is not derived - `g :: fn a do c := a / 2  d := c + \"px\" end` with "
            "g(4) is accepted" % back_why) if back_why else
           "`c := a / 2` records DivRes(a) on the quotient only; when `a` becomes known later (a parameter at a call) nothing "
           "revisits the quotient, which stays Unknown: `g :: fn a do c := a / 2  d := c + \"px\" end` with g(4) is accepted",
           fexpr["sp"])


# --------------------------------------------------------------------------- "the end of these statements is not reached"

def end_unreachable(F, rep, rule):
    """The guards of (1) and (2) are lifted for a body whose end `cannot be reached`: every function
    `(&[Statement]) -> bool` of the checker that the Function / If / Case arms consult must answer `true` only for a reason
    that really keeps control from the end of the list.  Reviewed reasons, per kind of the *last* statement:
      ret, <!>, break, continue        - always
      a block                          - its own statements do not reach their end
      if                               - there is an else branch and no branch reaches its end
      case                             - no branch reaches its end, and neither does the else (when there is one)
    Every other answer (a loop, a definition ..) is reported: nothing else is decided here."""
    fexpr = F.fn(TC + "expression")
    preds = set()
    for c in nodes(fn_body(fexpr), "Call"):
        cal = callee(c)
        if not cal or not cal.startswith("sylt_compiler::"):
            continue
        try:
            g = F.fn(cal)
        except Exception:
            continue
        if g.get("ret") == "bool" and len(g["params"]) == 1 and "[sylt_compiler::name_resolution::Statement]" in g["params"][0]["ty"]:
            preds.add(cal)
    n = 0
    for cal in sorted(preds):
        g = F.fn(cal)
        rep.analysed(g)
        n += _end_unreachable_fn(F, rep, rule, g, cal)
    rep.floor(rule, "answers of the end-not-reached predicate examined", n, 6)


def _conj(e, self_path, fl):
    """what is known when the boolean e is true: None = e is never true; else a set of atoms"""
    e = peel(e)
    k = e.get("k")
    if k == "Block" and e.get("e") is not None and all(st.get("k") == "Let" for st in e["stmts"]):
        return _conj(e["e"], self_path, fl)          # `let has_else = ..; has_else && ..`: the locals are followed below
    if k == "Path" and e.get("res") == "Local":
        o = fl.origin.get(e["hid"])
        if o and o["kind"] == "let" and o.get("path") == () and o.get("src") is not None:
            return _conj(o["src"], self_path, fl)
    if k == "Lit":
        return set() if e.get("v") is True else (None if e.get("v") is False else {("?", pp(e))})
    if k == "Binary" and e.get("op") == "And":
        a, b = _conj(e["l"], self_path, fl), _conj(e["r"], self_path, fl)
        return None if a is None or b is None else a | b
    if k == "Binary" and e.get("op") == "Or":
        a, b = _conj(e["l"], self_path, fl), _conj(e["r"], self_path, fl)
        if a is None:
            return b
        if b is None:
            return a
        return a & b
    if k == "Call" and callee(e) == self_path:
        return {("END-NOT-REACHED", _field_of(e["args"][0], fl))}
    if k == "MethodCall":
        m = e["m"]
        clo = [a for a in e["args"] if a.get("k") == "Closure"]
        if m == "all" and clo:
            inner = _conj(clo[0]["body"], self_path, fl)
            base = _field_of(tc._iter_base(e["recv"]), fl)
            if inner is None:
                return {("EMPTY", base)}
            return {("ALL", base, a) for a in inner}
        if m == "unwrap_or" or m == "map_or":
            dflt = peel(e["args"][0])
            dv = dflt.get("v") if dflt.get("k") == "Lit" else "?"
            if m == "unwrap_or":
                r = peel(e["recv"])
                mapped = r if (r.get("k") == "MethodCall" and r["m"] == "map") else None
                f_clo = [a for a in (mapped or {}).get("args", []) if a.get("k") == "Closure"]
                src = mapped["recv"] if mapped else None
            else:
                f_clo = clo
                src = e["recv"]
            if not f_clo or src is None:
                return {("?", pp(e)[:60])}
            inner = _conj(f_clo[0]["body"], self_path, fl)
            src_p = peel(src)
            while src_p.get("k") == "MethodCall" and src_p["m"] in ("as_ref", "as_deref", "iter"):
                src_p = peel(src_p["recv"])
            if src_p.get("k") == "MethodCall" and src_p["m"] == "last":
                what = ("LAST", _field_of(src_p["recv"], fl))
            else:
                what = ("OPT", _field_of(src_p, fl))
            out = set()
            if inner is not None:
                out |= {(what[0] + ("-OR-ABSENT" if dv is True else ""), what[1], a) for a in inner}
            elif dv is True:
                out.add((what[0] + "-ABSENT", what[1]))
            else:
                return None
            if dv not in (True, False):
                return {("?", pp(e)[:60])}
            return out
        if m == "is_none":
            return {("IS-NONE", _field_of(e["recv"], fl))}
        if m == "is_some":
            return {("IS-SOME", _field_of(e["recv"], fl))}
    if k == "Unary" and e.get("op") == "Not":
        return {("NOT", pp(e["e"])[:60])}
    if k == "Match":
        return {("?", "match")}
    return {("?", pp(e)[:60])}


def _field_of(e, fl):
    """name of the pattern field / record field the expression denotes (the binding's origin, not its spelling)"""
    e = peel(e)
    if e.get("k") == "Field":
        return e["name"]
    if e.get("k") == "Path" and e.get("res") == "Local":
        o = fl.origin.get(e["hid"])
        if o:
            for el in reversed(o.get("path") or []):
                if el[0] in ("field", "vfield"):
                    return el[2] if len(el) > 2 else el[1]
            if o["kind"] in ("closure", "for") and o.get("src") is not None:
                return _field_of(tc._iter_base(o["src"]), fl)
        return e.get("name")
    if e.get("k") == "MethodCall" and e["m"] in ("as_ref", "iter", "as_slice", "as_deref"):
        return _field_of(e["recv"], fl)
    return pp(e)[:40]


END_REASONS = {
    "Ret": [], "Unreachable": [], "Break": [], "Continue": [],
    "Block": [("END-NOT-REACHED", "statements")],
}
EXPR_REASONS = {
    # an else branch exists (the last condition is absent) and every branch's body does not reach its end
    "If": [("LAST", "branches", ("IS-NONE", "condition")), ("ALL", "branches", ("END-NOT-REACHED", "body"))],
    "Case": [("ALL", "branches", ("END-NOT-REACHED", "body")), ("OPT-OR-ABSENT", "fall_through", ("END-NOT-REACHED", "fall_through"))],
}


def _end_unreachable_fn(F, rep, rule, g, cal):
    fl = Flow(g, fn_body(g))
    name = last(cal)
    n = 0
    top = [m for m in nodes(fn_body(g), "Match") if "name_resolution::Statement" in (m.get("scrut_ty") or "")]
    if not top:
        rep.ob(rule, "%s|shape" % name, False, "%s decides whether the end of a statement list is reached, but not by a case "
               "split on a statement: its answers cannot be examined" % name, g["sp"])
        return 0
    m = top[0]
    scr = peel(m["scrut"])
    on_last = scr.get("k") == "MethodCall" and scr["m"] == "last"
    rep.ob(rule, "%s|looks-at-the-last-statement" % name, on_last,
           "the verdict is about the last statement of the list" if on_last else
           "%s does not look at the *last* statement of the list (`%s`): a diverging statement elsewhere says nothing about "
           "whether the end is reached" % (name, pp(scr)[:60]), line_of(m))

    def strip_some(p):
        p = pat_strip(p)
        if p.get("k") == "TupleStruct" and (p.get("path") or "").endswith("Option::Some") and p.get("pats"):
            return pat_strip(p["pats"][0])
        return p

    def judge(vname, body, table, where, label):
        nonlocal n
        got = _conj(body, cal, fl)
        n += 1
        if got is None:
            rep.ob(rule, "%s|%s|%s" % (name, label, vname), True, "after a `%s` the end counts as reachable" % vname, where)
            return
        need = table.get(vname)
        if need is None:
            rep.ob(rule, "%s|%s|%s" % (name, label, vname), False,
                   "%s answers that the end of a statement list ending in a `%s` is not reached (when: %s). No reviewed reason "
                   "covers that kind of statement: if the answer is wrong for one program, a function with a declared return type "
                   "is accepted although it can run off its end and return nil" % (
                       name, vname, " and ".join(sorted(str(a) for a in got)) or "always"), where)
            return
        missing = [r for r in need if not _has(got, r)]
        rep.ob(rule, "%s|%s|%s" % (name, label, vname), not missing,
               "`%s`: the end is not reached only when %s" % (vname, "; ".join(_say(r) for r in need) or "- always") if not missing else
               "%s answers that the end is not reached after a `%s` without requiring that %s" % (
                   name, vname, "; ".join(_say(r) for r in missing)), where)

    for arm in m["arms"]:
        for alt in pat_alternatives(arm["pat"]):
            a = strip_some(alt)
            vp = pat_variant(a)
            if vp is None:
                got = _conj(arm["body"], cal, fl)
                n += 1
                rep.ob(rule, "%s|statement|_" % name, got is None,
                       "every other kind of last statement counts as reaching the end" if got is None else
                       "the catch-all arm of %s does not answer `false`: statements of kinds nobody looked at count as never "
                       "reaching the end" % name, line_of(arm))
                continue
            v = last(vp)
            if v == "StatementExpression":
                inner = [mm for mm in nodes(arm["body"], "Match") if "name_resolution::Expression" in (mm.get("scrut_ty") or "")]
                if not inner:
                    judge(v, arm["body"], END_REASONS, line_of(arm), "statement")
                    continue
                for arm2 in inner[0]["arms"]:
                    for alt2 in pat_alternatives(arm2["pat"]):
                        vp2 = pat_variant(pat_strip(alt2))
                        if vp2 is None:
                            got = _conj(arm2["body"], cal, fl)
                            n += 1
                            rep.ob(rule, "%s|expression|_" % name, got is None,
                                   "every other kind of expression statement counts as reaching the end" if got is None else
                                   "the catch-all arm over expression statements does not answer `false`", line_of(arm2))
                        else:
                            judge(last(vp2), arm2["body"], EXPR_REASONS, line_of(arm2), "expression")
            else:
                judge(v, arm["body"], END_REASONS, line_of(arm), "statement")
    return n


def _has(got, need):
    return need in got


def _say(r):
    if r[0] == "END-NOT-REACHED":
        return "its `%s` do not reach their end" % r[1]
    if r[0] == "ALL":
        return "every one of the `%s` satisfies: %s" % (r[1], _say(r[2]))
    if r[0] == "LAST":
        return "the last of the `%s` has no `%s` (an else branch)" % (r[1], r[2][1]) if r[2][0] == "IS-NONE" else str(r)
    if r[0] == "OPT-OR-ABSENT":
        return "the `%s`, when present, satisfies: %s" % (r[1], _say(r[2]))
    return str(r)
