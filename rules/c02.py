"""C02 — type soundness: structural necessary conditions (DESIGN §4 C02)."""
from hir import nodes, walk, fn_body, callee, last, line_of, peel, pp, norm_path, pat_alternatives, pat_variant
from engines import matches_on, arm_alternatives, ty_is
from flow import Flow
import tc
import c03
import c09
from tc import TC, TCM, NR, TY

EXPLANATION = (
    "Decides three mechanisms whose failure makes an accepted program go wrong at run time (necessary conditions of "
    "soundness, not the theorem): (SCOPE) no variable can be read outside the scope that declares it - the resolver's scope "
    "stack is balanced around every expression, branch, loop body, block and function (same instances as C09); (DISCHARGE) "
    "every deferred constraint (operator, field, variant, total-case, index, variable) recorded with add_constraint is "
    "checked on every success path; (COPY) fresh instantiation (TypeChecker::copy) is applied only to the types of "
    "let-generalisable binders (blob/enum declarations named by a type or constructor), never blindly to the result of an "
    "arbitrary expression such as a lambda-bound parameter; (COPY-STRUCTURE) instantiation rebuilds every constraint and "
    "type constructor unchanged and remaps every type-graph edge into the copy."
    ' (OPERAND-PAIR) a binary-operator constraint is stored on both operand nodes, so refining either one re-checks it; (FIELD-SETS) unifying two blob types compares their field sets in both directions.'
)
UNDECIDED = ("soundness of unification with deferred constraints as a theorem; run-time behaviour of `external` code; "
             "assignment through a tuple index is accepted by can_assign but rejected by the runtime (reported as information).")

MANIFEST = dict(
    text=EXPLANATION + " Not decided: " + UNDECIDED,
    technique="scope-stack abstract interpretation + constraint must-pass-through + generalisation-site classification over resolved HIR",
)

E, S = NR + "Expression", NR + "Statement"


def run(F, rep, tier):
    rep.explanation = EXPLANATION
    rep.undecided = UNDECIDED
    c09.scope_rules(F, rep, "SCOPE")
    n = c03.discharge(F, rep, only=None)
    rep.floor("DISCHARGE", "add_constraint sites", n, 25)
    copy_discipline(F, rep)
    copy_structure(F, rep)
    c03.pairing(F, rep)
    c03.ret_fold(F, rep)
    c03.defer_recorded(F, rep)
    c03.binder_typed(F, rep)
    c03.type_names_are_not_values(F, rep)
    contradiction_info(F, rep)


def copy_discipline(F, rep):
    n = 0
    for fn in F.fns_in(TCM):
        body = fn_body(fn)
        fl = None
        fname = last(fn["_path"])
        if fname in ("copy", "inner_copy"):
            continue
        for c, parents in walk(body):
            if c.get("k") != "MethodCall" or callee(c) != TC + "copy":
                continue
            if fl is None:
                fl = Flow(fn, body)
                rep.analysed(fn)
            n += 1
            d = tc.describe(fl, c["args"][0])
            ctxname = tc._arm_context(parents)
            if d == "match(..)" and not ctxname:
                d = "result-of-any-expression"
            key = "%s|%s|%s" % (fname, ctxname or "-", d)
            if d.startswith("varty:"):
                # the type of a variable: only declarations named as a type / constructor are generalisable
                ref = d.split(":", 1)[1]
                ok = ref in ("ty", "blob", "var", "UserType.0", "0") or ref.endswith(".0")
                origin = ref
                rep.ob("COPY", key, ok,
                       "copy() of the type of variable `%s`: %s" % (origin, "a blob/enum declaration referenced as a type (generalisable)"
                                                                     if ok else "not known to be a let-generalisable binder"),
                       line_of(c))
            else:
                # dead code is tolerated: copying a field type when the *outer* value is a function can never happen
                dead = fname == "expression" and ctxname.startswith("BlobAccess")
                rep.ob("COPY", key, dead,
                       ("copy() of `%s` is unreachable here (a value with a Field constraint cannot be a function)" % d) if dead else
                       ("copy() is applied to `%s`, the result of an arbitrary expression: a function-typed value bound by a "
                        "lambda parameter is instantiated afresh at every use, so `f: fn *A -> *A` can be called at two "
                        "different types and any function passed for it is accepted" % d),
                       line_of(c))
    rep.floor("COPY", "copy() call sites", n, 5)


def copy_structure(F, rep):
    """inner_copy (instantiation of polymorphic types) must rebuild every constraint and every type with the same
    constructor and remap every type-graph edge into the copy: a stale edge or a changed constraint kind makes the
    instantiated type check something else than the original demanded"""
    fn = F.fn(TC + "inner_copy")
    rep.analysed(fn)
    n1 = tc.structure_preserving(F, rep, "COPY-STRUCTURE", fn, TCM + "Constraint", TC + "inner_copy")
    n2 = tc.structure_preserving(F, rep, "COPY-STRUCTURE", fn, TY, TC + "inner_copy")
    rep.floor("COPY-STRUCTURE", "constraint rows", n1, 17)
    rep.floor("COPY-STRUCTURE", "type rows", n2, 14)


def contradiction_info(F, rep):
    """can_assign admits Index targets, constant_index only types tuples, the runtime's __ASSIGN_INDEX rejects
    tuples: t[0] = 5 is accepted and fails at run time.  Cross-language fact, reported as information."""
    lua = F.read("sylt-compiler/src/preamble.lua")
    i = lua.find("__ASSIGN_INDEX = function")
    seg = lua[i:i + 600] if i >= 0 else ""
    if '"tuple"' in seg and "Cannot assign to tuple" in seg:
        rep.info("contradiction: TypeChecker::can_assign accepts Expression::Index targets, constant_index types only tuples, "
                 "and preamble.lua's __ASSIGN_INDEX asserts on tuples: `t[0] = 5` is accepted and fails at run time")
