"""C14 — call/return sugar and layout never change meaning (DESIGN §4 C14)."""
from hir import (nodes, walk, fn_body, callee, call_args, last, line_of, peel, peel_clone, pp, norm_path, pat_alternatives,
                 pat_variant, pat_bindings, pat_strip)
from engines import matches_on, arm_alternatives, ty_is, ty_mentions
from flow import Flow, uncond_nodes
from hir import ppat
import nonint
import irp
import irtpl
import tc

P = "sylt_parser::"
NR = "sylt_compiler::name_resolution::"
R = NR + "Resolver::"

EXPLANATION = (
    "Decides: (ONE-CALL-NODE) `f' a, b` and `f(a, b)` are built by the same constructor call - assignable_call creates "
    "AssignableKind::Call(callee, args) once, not depending on which opener was seen; (ARROW) ArrowCall(x, f, args) resolves to "
    "the same Expression::Call node as Call, with x prepended to the arguments; (IMPLICIT-RET) the lowering of a function whose "
    "last statement is an expression equals the lowering of `ret <expr>` (code of the expression, then Return of its value); "
    "(LOOP-DO) `loop do` builds the condition literal true; (NEWLINE-FLAG) every push_skip_newlines is paired, on every success "
    "path of its block, with a pop_skip_newlines of the flag it saved, so bracketed layout cannot leak into what follows; "
    "(NEWLINE-MODE) each parser selects the reviewed newline mode: true inside brackets, false at statement level, "
    "and a prime call inherits the surrounding mode; (COMMENTS) Context::skip passes over comment tokens on every advance and comments live only in the parser's Statement "
    "(the resolved AST has no comment field); (NO-LAYOUT-FLOW) lowering and emission never use a span except the line of "
    "`<!>` (the one difference the property allows); (PARENS) a parenthesised expression resolves to its content."
    ' (CURSOR) the token cursor is moved only by Context::skip/prev; skip ends with one loop passing comments and (under the flag) newlines in any interleaving; switching newline skipping on re-normalises the position.'
    " (ARROW rhs level) the call after `->` is parsed at call level; (PARENS shape tests) name resolution's tests on the shape of an unresolved expression look through parentheses; (NEWLINE-MODE continuation) the argument list of a prime call continues over any run of line breaks next to a comma."
    ' (BRACKET-MODE) wherever a parsing function moves a cursor known to stand on `(`, `[` or `{`, newline skipping is switched on before the next parsing call: derived for every bracket, not tabulated.'
    ' (ARROW parser arm) every arm over `Call(callee, args)` after `->` answers ArrowCall(value, callee, args), unguarded; (PARENS parser form tests) where the parser demands a form of a sub-expression it has just parsed, the test is made without the parentheses.'
    ' (TABLE Comment, shared with C17) every `//` up to the line break is a comment token, the empty comment included; (VISIT-dep, shared) a trailing expression and `ret` of it contribute the same dependencies.'
    ' (BRACKET-MODE inspection) nothing looks at the token behind an opening bracket before newline skipping is on; (NEWLINE-MODE after the comma) runs of line breaks are passed over on both sides of the comma of a prime call.'
)
UNDECIDED = ("that every pair of surface variants parses to the same tree in all combinations (the prime-call argument loop ends at the "
             "first expression that fails to parse, which is layout dependent by design).")

MANIFEST = dict(
    text=EXPLANATION + " Not decided: " + UNDECIDED,
    technique="constructor-site uniqueness, template equality, push/pop pairing (must-pass-through) and span non-interference over resolved HIR",
)


def run(F, rep, tier):
    rep.explanation = EXPLANATION
    rep.undecided = UNDECIDED
    one_call_node(F, rep)
    arrow(F, rep)
    # comments are insignificant - every comment is *a comment token* first: the Comment pattern matches `//` followed by anything
    # up to the line break, the empty rest included (shared with C17)
    import core
    import c17
    core.borrow(rep, lambda F_, r_: c17.run(F_, r_, "quick"), lambda o: o["rule"] == "TABLE" and o["key"] == "variable-tokens|Comment", F)
    # a trailing expression means `ret` of it in every pass: the dependency fold sees the same mentions in both forms
    import c11
    core.borrow(rep, c11.dependency_visit, lambda o: o["rule"] == "VISIT-dep" and ("StatementExpression" in o["key"] or "|Ret." in o["key"]), F)
    implicit_ret(F, rep)
    loop_do(F, rep)
    newline_flag(F, rep)
    bracket_modes(F, rep)
    # `f' a, b` means f(a, b): the argument list goes on exactly as long as an expression starts
    import c15
    c15.optional_expressions(F, rep, "PRIME-ARGS")
    # a trailing expression means `ret` of that expression - for the checker too
    import c02
    c02.trailing_value_is_the_return(F, rep, "IMPLICIT-RET")
    # `a -> f(b)` means f(a, b) with `a` the expression in front of the arrow: a unary operator takes its operand at factor
    # level (an operand parsed by prefix() alone would leave `-x -> f()` as f(-x))
    import core
    import c13
    core.borrow(rep, lambda F_, r_: c13.run(F_, r_, "quick"), lambda o: o["rule"] == "UNARY", F)
    comments(F, rep)
    raw_text_scan_is_anchored(F, rep)
    no_layout_flow(F, rep)
    paren_transparent(F, rep)
    prime_continuation(F, rep)


def one_call_node(F, rep):
    fn = F.fn(P + "assignable_call")
    rep.analysed(fn)
    body = fn_body(fn)
    ctors = []
    for n, parents in walk(body):
        if n.get("k") == "Call" and (callee(n) or "").endswith("AssignableKind::Call"):
            cond = [p for p in parents if p.get("k") in ("If", "Match") and not any(x == "expect" for x in p.get("mac", []))]
            ctors.append((n, cond))
    ok = len(ctors) == 1 and not ctors[0][1]
    rep.ob("ONE-CALL-NODE", "assignable_call|single-constructor", ok,
           "assignable_call builds AssignableKind::Call at one unconditional site (%d site(s))" % len(ctors), fn["sp"])
    if ctors:
        a = [pp(peel_clone(x)) for x in ctors[0][0]["args"]]
        rep.ob("ONE-CALL-NODE", "assignable_call|payload", a[0].endswith("callee)") or "callee" in a[0],
               "the node holds the callee and the collected argument list (%s)" % a, fn["sp"])
    # both openers lead here
    sa = F.fn(P + "sub_assignable")
    toks = set()
    for m in nodes(fn_body(sa), "Match"):
        for arm in m["arms"]:
            if callee(peel(arm["body"])) == P + "assignable_call":
                for alt in pat_alternatives(arm["pat"]):
                    if pat_variant(alt):
                        toks.add(last(pat_variant(alt)))
    rep.ob("ONE-CALL-NODE", "sub_assignable|openers", toks == {"Prime", "LeftParen"}, "both `'` and `(` dispatch to assignable_call (%s)" % sorted(toks), sa["sp"])


def _all_pats(p):
    out, todo = [], [p]
    while todo:
        q = todo.pop()
        if not isinstance(q, dict):
            continue
        out.append(q)
        for y in q.get("pats") or []:
            todo.append(y)
        for y in q.get("fields") or []:
            todo.append(y.get("pat") if isinstance(y, dict) and "pat" in y and "k" not in y else y)
        for k_ in ("pat", "sub"):
            if isinstance(q.get(k_), dict):
                todo.append(q[k_])
    return out


def arrow(F, rep):
    fn = F.fn(R + "assignable")
    rep.analysed(fn)
    fl = Flow(fn, fn_body(fn))
    shapes = {}
    for m in matches_on(fn_body(fn), "sylt_parser::AssignableKind"):
        for arm, alt, vp in arm_alternatives(m):
            if not vp or last(vp) not in ("Call", "ArrowCall"):
                continue
            name = last(vp)
            structs = [s for s in nodes(arm["body"], "Struct") if s["path"].endswith("Expression::Call")]
            binds = pat_bindings(alt)
            info = dict(n_struct=len(structs), binds=[b["name"] for b in binds])
            if structs:
                f = {x["name"]: x["e"] for x in structs[0]["fields"]}
                callee_args = [tc.root_field(fl, c["args"][0]) for c in nodes(arm["body"], "MethodCall") if callee(c) == R + "assignable"]
                info["function_from"] = callee_args[0] if len(callee_args) == 1 else "?%s" % callee_args
                info["function_is_that"] = "self.assignable(" in pp(fl.trace(f["function"]))
                # how the args vector is filled
                args_local = peel(f["args"])
                o = fl.origin.get(args_local.get("hid"))
                init = pp(o["src"]) if o and o["src"] is not None else "?"
                info["args_init"] = init
                pushes = [pp(c["args"][0]) for c in nodes(arm["body"], "MethodCall") if c["m"] == "push" and peel(c["recv"]).get("hid") == args_local.get("hid")]
                loops = [tc.root_field(fl, l["iter"]) for l in nodes(arm["body"], "ForLoop")]
                info["pushes"] = pushes
                info["loops"] = loops
            shapes[name] = (info, arm)
    c, a = shapes.get("Call"), shapes.get("ArrowCall")
    if not c or not a:
        rep.anchor_missing("Call / ArrowCall arms of Resolver::assignable")
        return
    rep.ob("ARROW", "same-node", c[0]["n_struct"] == 1 and a[0]["n_struct"] == 1, "both arms build exactly one Expression::Call", line_of(a[1]))
    rep.ob("ARROW", "callee", c[0].get("function_from") == "0" and a[0].get("function_from") == "1",
           "the callee is the call's callee in both forms (Call.0 / ArrowCall.1): %s / %s" % (c[0].get("function_from"), a[0].get("function_from")), line_of(a[1]))
    ok_c = "Vec::new()" in c[0].get("args_init", "") and c[0].get("loops") == ["1"]
    ok_a = "extra_arg" in a[0].get("args_init", "") and a[0].get("loops") == ["2"]
    rep.ob("ARROW", "arguments", ok_c and ok_a,
           "Call: args = [resolve(a) for a in .1]; ArrowCall: args = [resolve(.0)] ++ [resolve(a) for a in .2] (%s | %s)" % (
               (c[0].get("args_init"), c[0].get("loops")), (a[0].get("args_init"), a[0].get("loops"))), line_of(a[1]))
    # the prepended argument is the resolved left operand: the args vector of the ArrowCall arm starts as vec![X] where X is
    # self.expression(<field 0 of the ArrowCall pattern>)
    ea = None
    if a is not None and a[0].get("n_struct"):
        arm_a = a[1]
        st = [x for x in nodes(arm_a["body"], "Struct") if x["path"].endswith("Expression::Call")][0]
        f_ = {x["name"]: x["e"] for x in st["fields"]}
        o = fl.origin.get(peel(f_["args"]).get("hid"))
        init = o["src"] if o and o.get("src") is not None else None
        first = None
        if init is not None:
            els = [x for x in nodes(init, "Path") if x.get("res") == "Local"]
            first = els[0] if els else None
        if first is not None:
            src = fl.trace(first)
            calls = [c for c in nodes(src, "MethodCall") if callee(c) == R + "expression"] if isinstance(src, dict) else []
            if calls:
                ea = "self.expression(%s)" % tc.root_field(fl, calls[0]["args"][0])
    # parser side: what follows `->` is parsed at the call level, so a binary operator after the call belongs to the
    # surrounding expression: `a -> f(b) + c` is `f(a, b) + c`
    ac = F.fn("sylt_parser::expression::arrow_call")
    rep.analysed(ac)
    lv = None
    whole = False
    for c_ in nodes(fn_body(ac), "Call"):
        if callee(c_) == "sylt_parser::expression::expression":
            whole = True
        if callee(c_) == "sylt_parser::expression::parse_precedence" and len(c_["args"]) > 1:
            lv = last(norm_path(peel(c_["args"][1]).get("path", "")))
    # the level follows from the precedence table: the climbing loop continues while level <= precedence(token), so the
    # call / index / access openers must sit at or above the level (or `3 -> (add, sub)[1](4)` stops in front of `[`), and
    # every binary operator below it (or `a -> f(b) + c` swallows `+ c`)
    order = [v["name"] for v in F.adt("sylt_parser::Prec")["variants"]]
    fpre = F.fn("sylt_parser::expression::precedence")
    level = {}
    for m_ in nodes(fn_body(fpre), "Match"):
        for arm_ in m_["arms"]:
            b_ = peel(arm_["body"])
            lvname = last(norm_path(b_["path"])) if b_.get("k") == "Path" and b_.get("res") == "Def" else None
            for alt_ in pat_alternatives(arm_["pat"]):
                v_ = pat_variant(alt_)
                if v_ and lvname:
                    level[last(v_)] = lvname
    postfix = {"LeftParen", "LeftBracket", "Dot", "Prime"}
    binary = {t for t in level if t not in postfix and t != "Arrow" and level[t] != "No"}
    rank = {n_: i for i, n_ in enumerate(order)}
    ok_level = lv in rank and bool(binary) and postfix <= set(level) and \
        all(rank.get(level[t], -1) >= rank[lv] for t in postfix) and all(rank.get(level[t], 99) < rank[lv] for t in binary)
    rep.ob("ARROW", "parser|rhs-level", ok_level and not whole,
           "the right-hand side of `->` is parsed at the call level (parse_precedence(.., Prec::%s): every call / index / access opener "
           "%s continues it, every binary operator ends it)%s" % (
               lv, sorted((t, level.get(t)) for t in postfix),
               "; it is parsed with expression(), i.e. at the loosest level: it swallows every operator that follows, and "
               "`a -> f(b) + c` is rejected with `Expected a call-expression after '->'`" if whole else "") if ok_level and not whole else
           "the right-hand side of `->` is parsed at Prec::%s, but the call / index / access openers have levels %s and the binary "
           "operators at most %s: %s" % (lv, sorted((t, level.get(t)) for t in postfix),
                                         max([level[t] for t in binary], key=lambda x: rank.get(x, -1)) if binary else "?",
                                         "a callee that is not a plain name loses its postfix (`3 -> (add, sub)[1](4)` is rejected while "
                                         "`(add, sub)[1](3, 4)` compiles)" if lv in rank and any(rank.get(level.get(t), -1) < rank[lv] for t in postfix)
                                         else "operators after the call are swallowed by it"), ac["sp"])
    # .. and the call it finds there takes the value as its first argument whatever its callee is: every arm of the function that
    # builds the arrow call which matches `Call(callee, args)` answers ArrowCall(value, callee, args) with that callee and those
    # arguments (a special case for some callees - `a -> f(b)(c)` giving f(a, b)(c) - is a different meaning for the same text)
    n_arms = 0
    for pf in [F.fns[p_] for p_ in sorted(F.fns) if p_.startswith("sylt_parser::expression::arrow_call")]:
        prm = {b["hid"]: b["name"] for q in pf["params"] for b in pat_bindings(q["pat"])}
        for m_ in nodes(fn_body(pf), "Match"):
            for arm_ in m_["arms"]:
                for alt_ in pat_alternatives(arm_["pat"]):
                    calls_ = [q for q in _all_pats(alt_) if (q.get("path") or "").endswith("AssignableKind::Call")]
                    if not calls_:
                        continue
                    n_arms += 1
                    binds = [b["hid"] for sub in (calls_[0].get("pats") or []) for b in pat_bindings(sub)]
                    built = [c_ for c_ in nodes(arm_["body"], "Call") if (callee(c_) or "").endswith("AssignableKind::ArrowCall")]
                    ok_ = False
                    for c_ in built:
                        a_ = [peel(x) for x in c_["args"]]
                        from flow import Flow as _Flow
                        from_value = _Flow(pf, fn_body(pf)).derived(set(prm))
                        if len(a_) == 3 and len(binds) == 2 and a_[1].get("hid") == binds[0] and a_[2].get("hid") == binds[1] and \
                                any(x.get("hid") in from_value for x in nodes(a_[0], "Path")):
                            ok_ = True
                    rep.ob("ARROW", "parser|call-takes-the-value-first#%d" % n_arms, ok_ and not arm_.get("guard"),
                           "a call after `->` becomes ArrowCall(value, its callee, its arguments)" if ok_ and not arm_.get("guard") else
                           "%s treats some calls after `->` differently (%s): for those `a -> f(b)` no longer means f(a, b) with f the "
                           "callee that is written" % (last(pf["_path"]), "the arm is guarded" if arm_.get("guard") else
                                                      "the arm does not answer ArrowCall(value, callee, args)"), line_of(arm_))
    rep.floor("ARROW", "arms over a call after the arrow", n_arms, 1)
    rep.ob("ARROW", "prepended-is-lhs", ea == "self.expression(0)", "the prepended argument is the resolved left operand (%s)" % ea, line_of(a[1]))


def implicit_ret(F, rep):
    T = irp.Tables(F)
    fnarm = [a for a in T.expr if a["label"] == "Function"]
    ret = [a for a in T.stmt if a["label"] == "Ret/Some"]
    if not fnarm or not ret or not fnarm[0]["items"]:
        rep.anchor_missing("Function arm / Ret arm templates")
        return
    alts = [it for it in fnarm[0]["items"] if it[0] == "alt"]
    implicit = None
    for it in alts:
        for lab, seq in zip(it[2], it[1]):
            if any(x[0] == "op" and x[1] == "Return" for x in seq):
                implicit = seq
    def shape(seq):
        out = []
        for x in seq:
            if x[0] == "code":
                out.append(("code", x[1]))
            elif x[0] == "op":
                out.append(("op", x[1], tuple("R" if a[0] == "result" else a[0] for a in x[2])))
        return out
    want = shape(ret[0]["items"])
    got = shape(implicit) if implicit else None
    rep.ob("IMPLICIT-RET", "same-template", got == want and want == [("code", "expr"), ("op", "Return", ("R",))],
           "a trailing expression statement lowers to %s, `ret e` to %s" % (got, want), line_of(fnarm[0]["arm"]))
    # the trailing statement is taken from the *last* statement of the body only
    fn = F.fn("sylt_compiler::intermediate::IRCodeGen::expression")
    pops = [c for c in nodes(fn_body(fn), "MethodCall") if c["m"] == "pop" and "body" in pp(c["recv"])]
    rep.ob("IMPLICIT-RET", "last-statement", len(pops) >= 1, "the value returned implicitly is the body's last statement (body.pop())", fn["sp"])
    # .. whatever expression it is: the arm that turns the trailing expression statement into a return has no condition on the
    # expression (an `if` without `else` included - `ret if c do f() end` and a trailing `if c do f() end` are the same bytes)
    guarded = []
    n_split = 0
    for m in nodes(fn_body(fn), "Match"):
        if "Option<" not in (m.get("scrut_ty") or "") or "Statement" not in (m.get("scrut_ty") or ""):
            continue
        hits = [a for a in m["arms"] if "StatementExpression" in ppat(a["pat"]) and any(callee(c) == "sylt_compiler::intermediate::IR::Return" for c in nodes(a["body"], "Call"))]
        if not hits:
            continue
        n_split += 1
        guarded += [a for a in hits if a.get("guard") is not None]
    rep.ob("IMPLICIT-RET", "every-trailing-expression", n_split >= 1 and not guarded,
           "the trailing expression statement of a function body becomes a return whatever the expression is" if n_split and not guarded else
           "the arm of the lowering that turns a trailing expression statement into a return %s: for the expressions it leaves out, `ret e` "
           "and a trailing `e` give different Lua" % ("is guarded (`%s`)" % pp(guarded[0]["guard"])[:60] if guarded else "was not found"),
           line_of(guarded[0]) if guarded else fn["sp"])
    # the checker treats both the same way: expression_block's value is unified with the returns
    rep.info("typing side: TypeChecker::expression unifies the implicit value with explicit returns in the Function arm (checked by C03 obligations)")


def loop_do(F, rep):
    fn = F.fn(P + "statement::statement")
    rep.analysed(fn)
    ok = False
    for i in nodes(fn_body(fn), "If"):
        c = pp(i["c"])
        if "Token::Do" in c and any(m == "matches" for x in nodes(i["c"]) for m in x.get("mac", [])):
            t = pp(i["t"])
            if "ExpressionKind::Bool(true)" in t:
                ok = True
    rep.ob("LOOP-DO", "condition-true", ok, "`loop do` builds the condition ExpressionKind::Bool(true)", fn["sp"])


def newline_flag(F, rep):
    n = 0
    PUSH, POP = P + "Context::push_skip_newlines", P + "Context::pop_skip_newlines"
    for fn in F.own_fns(["sylt_parser"]):
        body = fn_body(fn)
        if not any(callee(c) == PUSH for c in nodes(body, "MethodCall")):
            continue
        rep.analysed(fn)
        k = 0
        for blk in nodes(body, "Block"):
            items = [(s, s.get("init") if s.get("k") == "Let" else s.get("e")) for s in blk["stmts"]] + [(None, blk.get("e"))]
            for idx, (st, e) in enumerate(items):
                if st is None or st.get("k") != "Let" or e is None:
                    continue
                # pushes directly in this let's initialiser (not inside a nested block's own let)
                pushes = [c for c in _own_calls(e) if callee(c) == PUSH]
                if not pushes:
                    continue
                binds = pat_bindings(st["pat"])
                saved = [b for b in binds if b["ty"] == "bool"]
                n += 1
                k += 1
                key = "%s|push#%d" % (last(fn["_path"], 2), k)
                if len(saved) != 1:
                    rep.ob("NEWLINE-FLAG", key, False, "cannot identify the saved flag of push_skip_newlines", line_of(st))
                    continue
                hid = saved[0]["hid"]
                ok = False
                for st2, e2 in items[idx + 1:]:
                    if e2 is not None and _pops(e2, hid, POP):
                        ok = True
                        break
                if not ok:
                    ok = _pops_in_end_callback(F, items[idx + 1:], hid, POP)
                rep.ob("NEWLINE-FLAG", key, ok,
                       "the flag saved by push_skip_newlines (`%s`) is restored with pop_skip_newlines on every success path of its block%s" % (
                           saved[0]["name"], "" if ok else " — NOT restored: newline handling of the bracketed construct leaks into the code that follows"),
                       line_of(st))
    rep.floor("NEWLINE-FLAG", "push_skip_newlines sites", n, 10)
    newline_modes(F, rep, PUSH)
    # push/pop themselves
    fpush, fpop = F.fn(PUSH), F.fn(POP)
    rep.ob("NEWLINE-FLAG", "push|returns-old", "self.skip_newlines" in pp(tc.n_tail(fn_body(fpush))), "push returns the previous flag", fpush["sp"])
    pop_params = {b["hid"] for prm in fpop["params"] for b in pat_bindings(prm["pat"]) if b["name"] != "self"}
    pop_sets = any(a.get("k") == "Assign" and peel(a["l"]).get("k") == "Field" and peel(a["l"])["name"] == "skip_newlines"
                   and peel(a["r"]).get("hid") in pop_params for a in nodes(fn_body(fpop)))
    rep.ob("NEWLINE-FLAG", "pop|sets", pop_sets, "pop installs the given flag", fpop["sp"])


# which newline mode each construct selects (read from the source, one reason per line).  Inside brackets newlines
# are skipped (true); statement-level parsers switch skipping off because a newline ends a statement (false);
# a prime call has no closing token of its own and must keep the mode of whatever surrounds it (inherit).
NEW_BRACKETS_STATEMENT = ["true", "true"]                          # enum( *A .. ), blob( *A .. )
NEWLINE_MODE_TABLE = {
    "sylt_parser::assignable_call": ["inherit", "true"],          # f' a, b  /  f(a, b)
    "expression::case_expression": ["true"],                       # case .. do .. end spans lines
    "expression::if_expression": ["true", "true"],                 # if / elif conditions
    "expression::grouping_or_tuple": ["true"],
    "expression::blob": ["true"],
    "expression::list": ["true"],
    "statement::statement": ["false", "true", "false", "false", "true"] + NEW_BRACKETS_STATEMENT,   # statement start; from (..) / from ..; enum header; blob { }
    "sylt_parser::assignable_index": ["true"],                     # t[ 0 ]
    "sylt_parser::parse_type": ["true", "true", "true"],           # A( .. ), ( .. ), [ .. ]
}


def newline_modes(F, rep, PUSH):
    for fn in F.own_fns(["sylt_parser"]):
        modes = []
        for c in nodes(fn_body(fn), "MethodCall"):
            if callee(c) != PUSH:
                continue
            a = peel(c["args"][0])
            if a.get("k") == "Lit" and a.get("lk") == "bool":
                modes.append("true" if a["v"] else "false")
            elif a.get("k") == "Field" and a["name"] == "skip_newlines":
                modes.append("inherit")
            else:
                modes.append("?" + pp(a)[:20])
        if not modes:
            continue
        name = last(fn["_path"], 2)
        want = NEWLINE_MODE_TABLE.get(name)
        if want is None:
            rep.ob("NEWLINE-MODE", name, False, "%s selects newline modes %s but is not in the reviewed table" % (name, modes), fn["sp"])
        else:
            rep.ob("NEWLINE-MODE", name, sorted(modes) == sorted(want),
                   "%s selects the newline modes %s (reviewed: %s)%s" % (name, modes, want, "" if sorted(modes) == sorted(want) else
                   " — a bracketed construct whose inner parser switches newline skipping off (or a prime call that no longer inherits "
                   "the surrounding mode) makes line breaks inside brackets significant"), fn["sp"])


def _pops_in_end_callback(F, items, hid, POP):
    """the list parser's protocol: parse_sep_end_by(ctx, sep, end, item) succeeds only with the cursor an `end` callback
    returned together with `true`.  A closure that restores the saved flag exactly when it answers `true`, handed over as
    that callback by what follows in the block, restores the flag on every success path."""
    closures = {}
    for st, e in items:
        if st is not None and st.get("k") == "Let" and e is not None and peel(e).get("k") == "Closure":
            cl = peel(e)
            body = peel(cl["body"])
            # Ok((if COND { ..pop(saved).. } else { .. }, COND))
            tups = [t for t in nodes(body, "Tup") if len(t["es"]) == 2]
            for t in tups:
                first, second = peel(t["es"][0]), peel(t["es"][1])
                if first.get("k") == "If" and first.get("e") is not None and pp(first["c"]) == pp(second):
                    pops_then = any(n.get("k") == "MethodCall" and callee(n) == POP and peel(n["args"][0]).get("hid") == hid
                                    for n in uncond_nodes(first["t"]) if isinstance(n, dict))
                    if pops_then:
                        for b in pat_bindings(st["pat"]):
                            closures[b["hid"]] = True
    if not closures:
        return False
    handed = False
    for st, e in items:
        if e is None:
            continue
        for c in uncond_nodes(e):
            if isinstance(c, dict) and c.get("k") == "Call" and callee(c) == P + "parse_sep_end_by" and len(c["args"]) >= 3:
                a = peel(c["args"][2])
                if a.get("k") == "Path" and a.get("hid") in closures:
                    handed = True
    return handed and _list_parser_ends_with_end(F)


def _list_parser_ends_with_end(F):
    """every Ok(..) of parse_sep_end_by carries a cursor that an `end(..)` call returned with `true`, or the one of the
    recursive call"""
    fn = F.fn(P + "parse_sep_end_by")
    body = fn_body(fn)
    prm = [b for q in fn["params"] for b in pat_bindings(q["pat"])]
    end_hid = prm[2]["hid"] if len(prm) >= 4 else None
    src = {}
    for st in nodes(body, "Let"):
        init = st.get("init")
        if init is None:
            continue
        calls = [c for c in nodes(init, "Call")]
        kind = None
        for c in calls:
            f = peel(c.get("f") or {})
            if f.get("k") == "Path" and f.get("hid") == end_hid:
                kind = "end"
            elif callee(c) == P + "parse_sep_end_by":
                kind = "rec"
        bs = pat_bindings(st["pat"])
        if kind and bs:
            src[bs[0]["hid"]] = (kind, bs[1]["hid"] if len(bs) > 1 else None)
    oks = []
    for c, parents in walk(body):
        if c.get("k") == "Call" and (callee(c) or "").endswith("Result::Ok") and c["args"]:
            t = peel(c["args"][0])
            if t.get("k") == "Tup" and t["es"]:
                x = peel(t["es"][0])
                if x.get("k") == "Path" and x.get("res") == "Local":
                    oks.append((x["hid"], parents))
    if not oks:
        return False
    for hid, parents in oks:
        if hid not in src:
            return False
        kind, flag = src[hid]
        if kind == "end":
            guarded = any(p.get("k") == "If" and peel(p["c"]).get("hid") == flag for p in parents)
            if not guarded:
                return False
    return True


def _own_calls(e):
    """method calls in e not nested inside an inner block's let statement (those have their own scope)"""
    for n, parents in walk(e):
        if n.get("k") == "MethodCall":
            if any(p.get("k") == "Let" for p in parents):
                continue
            yield n


def _pops(e, hid, POP):
    """does evaluating e necessarily call pop_skip_newlines(<saved>)"""
    def is_pop(n):
        return n.get("k") == "MethodCall" and callee(n) == POP and peel(n["args"][0]).get("hid") == hid
    for n in uncond_nodes(e):
        if isinstance(n, dict) and is_pop(n):
            return True
    return False


def comments(F, rep):
    fn = F.fn(P + "Context::skip")
    rep.analysed(fn)
    body = fn_body(fn)
    t = pp(body)
    cm = [m for m in nodes(body, "Match")]
    loop_skips = False
    for m in cm:
        for a in m["arms"]:
            if any((pat_variant(x) or "").endswith("Token::Comment") for x in pat_alternatives(a["pat"])):
                b = peel(a["body"])
                if b.get("k") == "AssignOp" and peel(b["l"]).get("k") == "Field" and peel(b["l"])["name"] == "curr":
                    loop_skips = True
    counts = "!" in t and "Token::Comment" in t
    rep.ob("COMMENTS", "Context::skip|skips-comments", loop_skips and counts,
           "skip(n) does not count comment tokens and passes over trailing comments", fn["sp"])
    adt = F.adt(NR + "Statement")
    has = [f["name"] for v in adt["variants"] for f in v["fields"] if "comment" in f["name"].lower()]
    rep.ob("COMMENTS", "resolved-AST-has-no-comments", not has, "the resolved AST carries no comments (%s)" % has, adt["sp"])
    # parse functions never inspect ctx.tokens directly for anything but comments_since_last_statement
    raw = []
    for f2 in F.own_fns(["sylt_parser"]):
        for n in nodes(fn_body(f2), "Field"):
            if n["name"] == "tokens" and "Context" in n.get("base_ty", "") and last(f2["_path"], 2) not in (
                    "Context::peek", "Context::comments_since_last_statement", "Context::new"):
                raw.append(last(f2["_path"], 2))
    cursor(F, rep)
    rep.ob("COMMENTS", "tokens-accessed-through-peek", not raw, "the token slice is read only by peek() and the comment collector (%s)" % raw)


def cursor(F, rep):
    """every Context a parse function can hold rests on a token that is neither a comment nor (in newline-skipping
    mode) a newline.  That holds when (1) the cursor `curr` is only moved by Context::skip / Context::prev, (2) skip ends
    with ONE loop that passes comments and - under the flag - newlines in any interleaving, and (3) switching the
    newline mode on re-normalises the position through skip(0)."""
    CT = P + "Context"
    writers = set()
    for f2 in F.own_fns(["sylt_parser"]):
        for a in nodes(fn_body(f2)):
            if a.get("k") in ("Assign", "AssignOp"):
                l = peel(a["l"])
                if l.get("k") == "Field" and l["name"] == "curr" and CT in (l.get("base_ty") or ""):
                    writers.add(last(f2["_path"], 2))
    rep.ob("CURSOR", "writers", writers == {"Context::skip", "Context::prev"},
           "the token cursor is moved only by Context::skip and Context::prev (%s)" % sorted(writers))
    fn = F.fn(P + "Context::skip")
    passes = None
    for lp in nodes(fn_body(fn), "Loop"):
        if lp.get("src") != "Loop":
            continue
        for m in nodes(lp["body"], "Match"):
            got = {}
            for a in m["arms"]:
                for alt in pat_alternatives(a["pat"]):
                    v = pat_variant(alt)
                    b = peel(a["body"])
                    moves = b.get("k") == "AssignOp" and peel(b["l"]).get("name") == "curr"
                    if v and moves:
                        g = a.get("guard")
                        got[last(v)] = bool(g) and any(x.get("name") == "skip_newlines" for x in nodes(g, "Field"))
            if got:
                passes = got
    rep.ob("CURSOR", "skip|one-normalising-loop", passes == {"Comment": False, "Newline": True},
           "skip() ends with a single loop that passes Comment tokens unconditionally and Newline tokens under the "
           "skip_newlines flag, so they may alternate (%s)" % passes, fn["sp"])
    # (2') prev() steps back one token and then passes comments backwards: it hands back a context that rests on a token
    import progress
    pv_ok, pv_text = progress.check_prev(F)
    rep.ob("CURSOR", "prev|rests-on-a-token", pv_ok, "Context::prev: " + pv_text, F.fns.get(P + "Context::prev", {}).get("sp"))
    fpush = F.fn(P + "Context::push_skip_newlines")
    t = tc.n_tail(fn_body(fpush))
    ok = False
    if t.get("k") == "Tup" and t["es"]:
        c = peel(t["es"][0])
        if c.get("k") == "MethodCall" and callee(c) == P + "Context::skip":
            a = peel(c["args"][0]) if c.get("args") else {}
            ok = a.get("k") == "Lit" and a.get("v") == 0
    rep.ob("CURSOR", "push_skip_newlines|renormalises", ok,
           "push_skip_newlines returns new.skip(0): a context that enters newline-skipping mode on a newline (or on a comment "
           "followed by one) is moved to the next significant token", fpush["sp"])


def prime_continuation(F, rep):
    """a prime call has no closing bracket, so its argument list continues over a line break only next to a comma.  That
    test must treat a *run* of line breaks (a blank line, a comment-only line - comments are skipped, their newline is
    not) like a single one: a fixed-width token lookahead with Newline in it does not."""
    fn = F.fn(P + "assignable_call")
    rep.analysed(fn)
    fixed = []
    for m in nodes(fn_body(fn), "Match"):
        scr = peel(m["scrut"])
        if scr.get("k") == "MethodCall" and scr["m"] == "tokens_lookahead":
            for a in m["arms"]:
                if any((pat_variant(x) or "").endswith("Token::Newline") for alt in pat_alternatives(a["pat"]) for x in _subpats(alt)):
                    fixed.append(a)
    loops = [w for w in nodes(fn_body(fn), "While")
             if any((pat_variant(alt) or "").endswith("Token::Newline") for mm in nodes(w.get("cond") or {}, "Match") for a in mm["arms"]
                    for alt in pat_alternatives(a["pat"]))]
    # .. on both sides of the comma: a single conditional step (`skip_if(T::Newline)`) passes over one line break only
    single = [c for c in nodes(fn_body(fn), "MethodCall") if c["m"] == "skip_if" and "Token::Newline" in pp(c)]
    rep.ob("NEWLINE-MODE", "assignable_call|continuation-after-the-comma-skips-runs", not single and len(loops) >= 2,
           "line breaks are passed over in runs before and after the comma (%d loops)" % len(loops) if not single and len(loops) >= 2 else
           "after the comma of a prime call's argument list only one line break is passed over (`%s`): a blank or comment-only line "
           "behind a comma ends the list - `f' a,⏎⏎ b` becomes `f(a)` followed by the statement `b`" % (pp(single[0])[:50] if single else "%d loop(s)" % len(loops)),
           line_of(single[0]) if single else fn["sp"])
    rep.ob("NEWLINE-MODE", "assignable_call|continuation-skips-runs", not fixed and bool(loops),
           "the continuation test of a prime call's argument list passes over any run of line breaks around the comma" if not fixed and loops else
           "the continuation test of a prime call's argument list is a fixed two-token lookahead (`[Newline, Comma]` / `[Comma, Newline]`): "
           "a blank or comment-only line between two arguments ends the list, and the rest becomes a separate statement",
           line_of(fixed[0]) if fixed else fn["sp"])


def _subpats(p):
    out = [p]
    if isinstance(p, dict):
        for x in (p.get("pats") or []) + (p.get("before") or []) + (p.get("after") or []):
            out += _subpats(x)
        if isinstance(p.get("pat"), dict):
            out += _subpats(p["pat"])
    return out


def paren_transparent(F, rep):
    """`(e)` resolves to `e` (Resolver::expression's Parenthesis arm), so a redundant pair of parentheses can only matter
    where name resolution looks at the *shape* of an unresolved expression (`matches!(value.kind, Function { .. })` decides
    whether a definition may refer to itself, whether a blob field gets `self`).  Every such test has to look through
    parentheses."""
    NRP = "sylt_compiler::name_resolution::"
    EKP = "sylt_parser::expression::ExpressionKind"
    n = 0
    for fn in F.fns_in(NRP):
        fname = last(fn["_path"], 2)
        k = 0
        for m in nodes(fn_body(fn), "Match"):
            if not ty_is((m.get("scrut_ty") or "").lstrip("&"), EKP):
                continue
            scr = peel(m["scrut"])
            # the fold's own dispatch: `match &expression.kind` on the function's parameter
            is_shape_test = any(x == "matches" for x in m.get("mac", []))
            if not is_shape_test:
                continue
            n += 1
            k += 1
            base = scr
            while base.get("k") in ("Field", "Unary"):
                base = peel(base["e"])
            through = False
            if base.get("k") in ("Call", "MethodCall"):
                cal = F.fns.get(callee(base) or "")
                if cal is not None:
                    # *every* layer has to come off: a loop on the Parenthesis pattern, or recursion of the helper into itself
                    loops = any((pat_variant(alt) or "").endswith("ExpressionKind::Parenthesis")
                                for x in nodes(fn_body(cal)) if x.get("k") in ("While", "Loop")
                                for y in nodes(x) if y.get("k") in ("Match", "LetCond", "While") for alt in _pats_of(y))
                    recurses = any((pat_variant(alt) or "").endswith("ExpressionKind::Parenthesis")
                                   for x in nodes(fn_body(cal)) if x.get("k") in ("Match", "LetCond") for alt in _pats_of(x)) and \
                        any(callee(y) == cal["_path"] for y in nodes(fn_body(cal)) if y.get("k") in ("Call", "MethodCall"))
                    through = loops or recurses
            rep.ob("PARENS", "%s|shape-test#%d" % (fname, k), through,
                   ("the shape test `%s` looks through parentheses" % pp(m)[:60].replace("\n", " ")) if through else
                   ("`%s` tests the outermost node of an unresolved expression: wrapped in redundant parentheses the expression is "
                    "classified differently (`f :: (fn n do .. f(n - 1) .. end)` cannot see itself; a parenthesised blob field function "
                    "gets no `self`)" % pp(m)[:70].replace("\n", " ")), line_of(m))
    rep.floor("PARENS", "shape tests on unresolved expressions", n, 2)
    # the parser itself: where it demands a particular form of a sub-expression it has just parsed (`t[<int literal>]`), the test
    # is made on the expression without its parentheses
    # not form tests: a dispatch over (most of) the kinds - the printer -, and the function that rewrites the call after `->`
    # (it builds AssignableKind::ArrowCall): the right-hand side of `->` is a call *form*, `a -> (f(b))` groups f(b) as a value
    # first, so the parentheses there are not redundant
    n_kinds = len(F.adt(EKP)["variants"])
    m_ = 0
    for fn in F.fns_in("sylt_parser::"):
        fname = last(fn["_path"], 2)
        tests = []
        for x in nodes(fn_body(fn)):
            if x.get("k") == "LetCond" and any((pat_variant(q) or "").startswith(EKP + "::") for q in _all_pats(x["pat"])):
                tests.append((x, [pat_variant(q) for q in _all_pats(x["pat"]) if (pat_variant(q) or "").startswith(EKP + "::")]))
            elif x.get("k") == "Match" and ty_is((x.get("scrut_ty") or "").lstrip("&"), EKP):
                tests.append((x, [pat_variant(q) for a in x["arms"] for alt in pat_alternatives(a["pat"]) for q in _all_pats(alt)
                                  if (pat_variant(q) or "").startswith(EKP + "::")]))
        k = 0
        for x, variants in tests:
            if all(v.endswith("::Parenthesis") for v in variants):
                continue  # the stripping itself
            m_ += 1
            k += 1
            if len({v for v in variants}) * 2 > n_kinds:
                rep.ob("PARENS", "parser|%s|form-test#%d" % (fname, k), True, "a dispatch over the kinds of expression, not a demand for one form", line_of(x))
                continue
            if any((callee(c_) or "").endswith("AssignableKind::ArrowCall") for c_ in nodes(fn_body(fn), "Call")):
                rep.ob("PARENS", "parser|%s|form-test#%d" % (fname, k), True,
                       "the rewrite of the call after `->`: the arrow takes a call form, parentheses around it group it as a value", line_of(x))
                continue
            # the tested expression had its parentheses taken off: a loop over the Parenthesis pattern assigns the tested local
            tested = {y["hid"] for y in nodes(x.get("scrut") or x.get("init") or {}, "Path") if y.get("res") == "Local"}
            stripped = False
            for lp in nodes(fn_body(fn)):
                if lp.get("k") in ("While", "Loop") and any((pat_variant(alt) or "").endswith("ExpressionKind::Parenthesis")
                                                            for y in nodes(lp) if y.get("k") in ("Match", "LetCond", "While")
                                                            for alt in _pats_of(y)):
                    assigned = {peel(a_["l"]).get("hid") for a_ in nodes(lp, "Assign")}
                    if assigned & tested:
                        stripped = True
            rep.ob("PARENS", "parser|%s|form-test#%d" % (fname, k), stripped,
                   "the form the parser demands (%s) is tested on the expression without its parentheses" % ", ".join(sorted({last(v) for v in variants})) if stripped else
                   "%s demands a form of the expression it has just parsed (%s) and looks at the outermost node only: the same expression in "
                   "redundant parentheses is a syntax error (`t[(0)]` while `t[0]` compiles)" % (fname, ", ".join(sorted({last(v) for v in variants}))),
                   line_of(x))
    rep.floor("PARENS", "form tests of the parser on parsed sub-expressions", m_, 2)


def _pats_of(x):
    if x.get("k") == "Match":
        return [alt for a in x["arms"] for alt in pat_alternatives(a["pat"])]
    if x.get("k") == "LetCond":
        return pat_alternatives(x["pat"])
    if x.get("k") == "While":
        c = peel(x.get("cond") or {})
        return pat_alternatives(c["pat"]) if c.get("k") == "LetCond" else []
    return []


def no_layout_flow(F, rep):
    n = 0
    def pred(path, ty, o):
        return ty_mentions(ty, ["Span"])
    for fn, b, o, used in nonint.used_bindings(F, pred):
        n += 1
        arm = nonint.arm_of_binding(fn, o)
        if used and nonint.is_tuple_vector(b["ty"]):
            only_iter, uses = nonint.container_only_iterated(fn, b)
            rep.ob("NO-LAYOUT-FLOW", "%s|%s.%s" % (last(fn["_path"], 2), arm, b["name"]), only_iter,
                   "`%s` (a vector of tuples containing a span) is only iterated in %s (%s); its span element is checked through the "
                   "element patterns" % (b["name"], last(fn["_path"], 2), uses), fn["sp"])
            continue
        unreach = last(fn["_path"], 2) == "IRCodeGen::statement" and arm == "Unreachable"
        rep.ob("NO-LAYOUT-FLOW", "%s|%s.%s" % (last(fn["_path"], 2), arm, b["name"]), not used,
               "span binding `%s` (%s arm) in %s is %s" % (b["name"], arm, last(fn["_path"], 2),
                                                            "written into the run-time message of `<!>` (`Reached unreachable code on line N`): a "
                                                            "blank line or a comment above a `<!>` changes the emitted Lua" if used and unreach else
                                                            "used: layout can reach the generated code" if used else "unused"), fn["sp"])
    proj = []
    for fn, node in nonint.field_projections(F, lambda t: t.replace("&", "").strip().endswith("Span")):
        if node["name"] == "file_id":
            continue  # which file a variable is declared in is not layout (comments, blank lines, line breaks cannot change it)
        proj.append((last(fn["_path"], 2), node["name"]))
    rep.ob("NO-LAYOUT-FLOW", "span-projections", proj == [("IRCodeGen::statement", "line_start")],
           "the only span field read by lowering/emission is line_start in IRCodeGen::statement (%s)" % proj)
    calls = []
    for fn in nonint.sink_fns(F):
        for c in nodes(fn_body(fn), "MethodCall"):
            if c["m"] == "span" and (callee(c) or "").startswith(NR):
                calls.append(last(fn["_path"], 2))
    rep.ob("NO-LAYOUT-FLOW", "no-span-calls", not calls, "lowering/emission never call .span() on AST nodes (%s)" % calls)
    rep.floor("NO-LAYOUT-FLOW", "span-typed bindings inspected", n, 1)


# --------------------------------------------------------------------------- every bracket switches newline skipping on

OPENERS = {"LeftParen", "LeftBracket", "LeftBrace"}


def _matches_pats(e):
    """variant names P of a `matches!(X.token(), P | ..)` expansion (match .. { P => true, _ => false }), else None"""
    from hir import pat_alternatives, pat_variant
    e = peel(e)
    if not isinstance(e, dict) or e.get("k") != "Match" or len(e["arms"]) != 2:
        return None
    scr = peel(e["scrut"])
    if not (scr.get("k") == "MethodCall" and scr["m"] == "token"):
        return None
    yes = peel(e["arms"][0]["body"])
    no = peel(e["arms"][1]["body"])
    if not (yes.get("k") == "Lit" and yes.get("v") is True and no.get("k") == "Lit" and no.get("v") is False):
        return None
    if e["arms"][0].get("guard") is not None:
        return None
    out = set()
    for alt in pat_alternatives(e["arms"][0]["pat"]):
        v = pat_variant(alt)
        if not v:
            return None
        out.add(last(v))
    return out


def _leaves(e):
    from hir import diverges
    e = peel(e)
    while isinstance(e, dict) and e.get("k") == "Block":
        if e.get("e") is not None:
            e = peel(e["e"])
        elif e["stmts"] and e["stmts"][-1].get("k") in ("Semi", "ExprStmt"):
            e = peel(e["stmts"][-1]["e"])
        else:
            return False
    return isinstance(e, dict) and (e.get("k") in ("Ret", "Break", "Continue") or diverges(e))


def _tested_cursor(m):
    """hid of the local whose .token() a match / matches! looks at"""
    scr = peel(m["scrut"])
    if scr.get("k") == "MethodCall" and scr["m"] == "token":
        return _cursor_key(scr["recv"])
    return None


def _cursor_key(r):
    r = peel(r)
    if r.get("k") == "Path" and r.get("res") == "Local":
        return r["hid"]
    return "expr:" + pp(r)


def _token_known(site, parents):
    """variant names the token under the cursor that `site` moves is known to be (from the innermost test of that very
    cursor variable; a closure has its own cursor), else None"""
    from hir import pat_alternatives, pat_variant
    cur = _cursor_key(site["recv"])
    chain = list(parents) + [site]
    for i in range(len(chain) - 2, -1, -1):
        p, child = chain[i], chain[i + 1]
        k = p.get("k")
        if k == "Closure":
            return None
        if k == "Match":
            scr = peel(p["scrut"])
            if scr.get("k") == "MethodCall" and scr["m"] == "token" and _tested_cursor(p) == cur:
                for a in p["arms"]:
                    if a is child or any(x is child for x in nodes(a)):
                        vs = {last(pat_variant(alt)) for alt in pat_alternatives(a["pat"]) if pat_variant(alt)}
                        if vs and a.get("guard") is None and len(vs) == len(pat_alternatives(a["pat"])):
                            return vs
                        return None
        elif k == "If":
            pats = _matches_pats(p["c"])
            if pats is not None and _tested_cursor(peel(p["c"])) == cur and (child is p["t"] or any(x is child for x in nodes(p["t"]))):
                return pats
        elif k == "Block":
            # expect!: { if !matches!(tok, P) { return Err(..) }; ctx.skip(1) }
            idx = None
            for j, st in enumerate(p["stmts"]):
                if st is child or any(x is child for x in nodes(st)):
                    idx = j
            if idx is None and p.get("e") is not None and (p["e"] is child or any(x is child for x in nodes(p["e"]))):
                idx = len(p["stmts"])
            if idx:
                prev = p["stmts"][idx - 1]
                e = peel(prev.get("e") if prev.get("k") in ("ExprStmt", "Semi") else prev)
                if isinstance(e, dict) and e.get("k") == "If" and e.get("e") is None:
                    c = peel(e["c"])
                    if c.get("k") == "Unary" and c.get("op") == "Not":
                        pats = _matches_pats(c["e"])
                        if pats is not None and _tested_cursor(peel(c["e"])) == cur and _leaves(e["t"]):
                            return pats
    return None


def bracket_modes(F, rep, rule="BRACKET-MODE"):
    """`line breaks inside brackets are insignificant`: wherever a parsing function consumes an opening bracket (the cursor is
    known to stand on `(`, `[` or `{` when it is moved on), newline skipping is switched on before anything inside the
    brackets is parsed - otherwise the first line break after the bracket is a token the inner parser does not expect."""
    PUSH = P + "Context::push_skip_newlines"
    parsers = {f["_path"] for f in F.own_fns(["sylt_parser"]) if not f["_path"].startswith(P + "Context::")
               and any("sylt_parser::Context" in prm["ty"] for prm in f["params"])}
    n = 0
    for fn in F.own_fns(["sylt_parser"]):
        if fn["_path"].startswith(P + "Context::"):
            continue
        body = fn_body(fn)
        k = 0
        for site, parents in walk(body):
            if not (site.get("k") == "MethodCall" and callee(site) == P + "Context::skip"):
                continue
            known = _token_known(site, parents)
            if not known or not known <= OPENERS:
                continue
            n += 1
            k += 1
            verdict = _mode_after(site, parents, parsers, PUSH)
            rep.ob(rule, "%s|%s#%d" % (last(fn["_path"], 2) if fn["_path"].count("::") > 1 else last(fn["_path"]), "+".join(sorted(known)), k),
                   verdict is True,
                   "after the opening %s newline skipping is switched on before the contents are parsed" % "/".join(sorted(known))
                   if verdict is True else
                   "%s moves past an opening %s and %s: a line break inside these brackets (`t[⏎ 0⏎]`, `a: (int,⏎ int)`, "
                   "`A(int,⏎ str)`) is a syntax error, although line breaks inside brackets are layout" % (
                       last(fn["_path"]), "/".join(sorted(known)), verdict), line_of(site))
    rep.floor(rule, "places where an opening bracket is consumed", n, 8)


def _mode_after(site, parents, parsers, PUSH):
    """True when push_skip_newlines(true) comes before the next parsing call on the way on from `site`"""
    def is_push_true(x):
        if x.get("k") == "MethodCall" and callee(x) == PUSH and x["args"]:
            a = peel(x["args"][0])
            return a.get("k") == "Lit" and a.get("v") is True
        return False

    def is_parser_call(x):
        return x.get("k") in ("Call", "MethodCall") and callee(x) in parsers

    chain = list(parents) + [site]
    # 1. enclosing expressions the site is an operand of
    for i in range(len(chain) - 2, -1, -1):
        p, child = chain[i], chain[i + 1]
        if is_push_true(p) and peel(p["recv"]) is peel(child):
            return True
        if is_push_true(p):
            return True
        if is_parser_call(p):
            return "hands the cursor straight to %s()" % last(callee(p))
        if p.get("k") in ("Block", "Loop", "While", "ForLoop", "Match", "If", "Closure"):
            break
    # 2. what follows in the enclosing blocks, innermost first
    for i in range(len(chain) - 2, -1, -1):
        p, child = chain[i], chain[i + 1]
        if p.get("k") == "Closure":
            return "leaves the closure without switching newline skipping on"
        if p.get("k") != "Block":
            continue
        idx = None
        for j, st in enumerate(p["stmts"]):
            if st is child or any(x is child for x in nodes(st)):
                idx = j
        rest = p["stmts"][idx + 1:] if idx is not None else []
        if p.get("e") is not None and not (p["e"] is child or any(x is child for x in nodes(p["e"]))):
            rest = rest + [p["e"]]
        for st in rest:
            for x in nodes(st):
                if is_push_true(x):
                    return True
                if is_parser_call(x):
                    return "calls %s() with newline skipping as it was" % last(callee(x))
                if x.get("k") == "MethodCall" and (callee(x) or "").startswith(P + "Context::") and x["m"] in ("token", "tokens_lookahead", "peek", "eat"):
                    return "looks at the token behind the bracket (`%s`) with newline skipping as it was - a line break directly after the " \
                           "bracket is the token it sees" % pp(x)[:40]
    return "returns without switching newline skipping on"


def raw_text_scan_is_anchored(F, rep, rule="COMMENT"):
    """One pass reads the source *text*, before there are tokens: the search for git conflict markers.  It cannot tell a comment from
    code, so it may only look where no comment text can be - at the first characters of a line (a comment starts with `//`).  A search
    inside the line (`find`, `contains`) finds the marker in the text of a comment, and a program is rejected for what a comment says."""
    fn = F.fn("sylt_parser::find_conflict_markers")
    rep.analysed(fn)
    inside = [c for c in nodes(fn_body(fn), "MethodCall") if c["m"] in ("find", "rfind", "contains", "matches", "match_indices", "rmatches",
              "ends_with", "split", "split_once", "rsplit", "trim_start_matches", "strip_suffix") and "str" in (peel(c["recv"]).get("ty") or "str")]
    anchored = [c for c in nodes(fn_body(fn), "MethodCall") if c["m"] in ("starts_with", "strip_prefix")]
    rep.ob(rule, "raw-text-scan|looks-at-line-starts-only", bool(anchored) and not inside,
           "the search for conflict markers in the raw text tests the start of each line only (%d test(s)): no comment text is looked at" % len(anchored)
           if anchored and not inside else
           "find_conflict_markers searches inside the lines of the raw text (`%s`): the text of a comment is searched too, so a program "
           "whose comment mentions `<<<<<<<` is rejected while the same program without the comment compiles" % (pp(inside[0])[:50] if inside else "no anchored test"),
           line_of(inside[0]) if inside else fn["sp"])
