"""Helpers over the JSON HIR mini-trees dumped by engines/syltfacts.

Node shapes are documented in engines/syltfacts/src/main.rs.  Nothing here takes a
decision; these are traversal / normalisation / printing utilities shared by the rules.
"""
import re

# ------------------------------------------------------------------ paths

_GEN = re.compile(r"::<[^<>]*(?:<[^<>]*>[^<>]*)*>")


def norm_path(p):
    """strip generic/lifetime segments: a::B::<'a, 'b>::c -> a::B::c"""
    if p is None:
        return None
    prev = None
    while prev != p:
        prev = p
        p = _GEN.sub("", p)
    # fns nested in a #[timed] function live inside its wrapper closure
    p = re.sub(r"::\{closure#\d+\}", "", p)
    return p


def last(p, n=1):
    p = norm_path(p)
    return "::".join(p.split("::")[-n:])


# ------------------------------------------------------------------ traversal

CHILD_KEYS = (
    "f", "args", "recv", "es", "e", "l", "r", "init", "c", "t", "body", "scrut", "arms",
    "stmts", "fields", "base", "guard", "iter", "cond", "i", "els", "params",
)


def children(n):
    """direct sub-nodes (expressions / blocks / statements / arms), in evaluation-ish order"""
    if isinstance(n, list):
        for x in n:
            if isinstance(x, (dict, list)):
                yield x
        return
    if not isinstance(n, dict):
        return
    k = n.get("k")
    if k == "Block":
        # statements first, then the tail expression (evaluation order)
        for st in n.get("stmts") or []:
            if isinstance(st, dict):
                yield st
        if isinstance(n.get("e"), dict):
            yield n["e"]
        return
    for key in CHILD_KEYS:
        if key not in n:
            continue
        v = n[key]
        if v is None:
            continue
        if key == "fields" and k in ("Struct",) and isinstance(v, list):
            for fe in v:
                if "e" in fe:
                    yield fe["e"]
            continue
        if key == "fields":
            continue
        if key == "params":
            continue
        if key == "arms":
            for a in v:
                yield a  # arm dict: pat, guard, body
            continue
        if isinstance(v, list):
            for x in v:
                if isinstance(x, dict):
                    yield x
        elif isinstance(v, dict):
            yield v


def walk(n, parents=()):
    """pre-order walk yielding (node, parents tuple) for every dict node"""
    if isinstance(n, list):
        for x in n:
            yield from walk(x, parents)
        return
    if not isinstance(n, dict):
        return
    yield n, parents
    p2 = parents + (n,)
    for c in children(n):
        yield from walk(c, p2)


def nodes(n, kind=None):
    for x, _ in walk(n):
        if kind is None or x.get("k") == kind:
            yield x


def is_arm(n):
    return isinstance(n, dict) and "k" not in n and "pat" in n and "body" in n


# ------------------------------------------------------------------ function bodies


def fn_body(fn):
    """body expression of a function, looking through #[sylt_macro::timed]'s closure wrapper:
        { let mut f = move || { BODY }; { f() } }
    """
    b = fn.get("body")
    if not b:
        return b
    if b.get("k") == "Block" and len(b["stmts"]) >= 1:
        s0 = b["stmts"][0]
        if (
            s0.get("k") == "Let"
            and s0["pat"].get("k") == "Binding"
            and s0["pat"].get("name") == "f"
            and s0.get("init")
            and s0["init"].get("k") == "Closure"
            and any(m.startswith("attr:") and m.endswith("timed") for m in fn.get("from_macro", []))
        ):
            inner = s0["init"]["body"]
            return _unnest(inner)
    return _unnest(b)


def _unnest(b):
    while isinstance(b, dict) and b.get("k") == "Block" and not b["stmts"] and isinstance(b.get("e"), dict) \
            and b["e"].get("k") == "Block" and not b.get("label"):
        b = b["e"]
    return b


def peel(e):
    """strip wrappers that do not change the value: blocks with only a tail, &, *, casts-free"""
    while isinstance(e, dict):
        k = e.get("k")
        if k == "Block" and not e["stmts"] and e.get("e") is not None:
            e = e["e"]
        elif k == "AddrOf":
            e = e["e"]
        elif k == "Unary" and e.get("op") == "Deref":
            e = e["e"]
        else:
            break
    return e


def peel_clone(e):
    """peel + look through .clone()/.into()/.to_string()/.to_owned()/.cloned() style identity adaptors"""
    while True:
        e = peel(e)
        if isinstance(e, dict) and e.get("k") == "MethodCall" and e["m"] in (
            "clone", "into", "to_owned", "cloned", "as_ref", "borrow", "deref", "copied", "to_vec",
        ) and not e["args"]:
            e = e["recv"]
            continue
        return e


# ------------------------------------------------------------------ divergence

PANIC_PREFIXES = ("core::panicking::", "std::rt::begin_panic", "std::rt::panic", "core::panic::", "std::process::exit",
                  "std::process::abort")


def is_panic_call(n):
    return isinstance(n, dict) and n.get("k") == "Call" and (norm_path(n.get("callee")) or "").startswith(PANIC_PREFIXES)


def panic_macro(n):
    """user-facing macro name of a panic call: unreachable / panic / assert / todo / unimplemented ..."""
    for m in reversed(n.get("mac", []) or (n.get("f", {}).get("mac", []))):
        if not m.startswith("$crate") and not m.startswith("desugar"):
            return m
    return "panic"


def diverges(e):
    """does evaluating e always end in a panic (unreachable!/panic!/...)"""
    e = peel(e)
    while isinstance(e, dict) and e.get("k") == "Block":
        if e.get("e") is not None:
            e = peel(e["e"])
        elif e["stmts"] and e["stmts"][-1].get("k") in ("Semi", "ExprStmt"):
            e = peel(e["stmts"][-1]["e"])
        else:
            return False
    return is_panic_call(e)


def is_err_exit(e):
    """an expression that leaves with an error: Err(..) value (also through .help(..) chains), `return Err(..)`,
    or a block ending in one"""
    e = peel(e)
    if not isinstance(e, dict):
        return False
    k = e.get("k")
    if k == "Call" and (norm_path(e.get("callee")) or "").endswith("core::result::Result::Err"):
        return True
    if k == "MethodCall" and e["m"] in ("help", "help_no_span"):
        return is_err_exit(e["recv"])
    if k == "Ret":
        return is_err_exit(e.get("e"))
    if k == "Block":
        if e.get("e") is not None:
            return is_err_exit(e["e"])
        if e["stmts"]:
            s = e["stmts"][-1]
            if s.get("k") in ("Semi", "ExprStmt") and peel(s["e"]).get("k") == "Ret":
                return is_err_exit(s["e"])
    return False


# ------------------------------------------------------------------ patterns


def pat_bindings(p, out=None):
    """all Binding nodes in a pattern"""
    if out is None:
        out = []
    if not isinstance(p, dict):
        return out
    k = p.get("k")
    if k == "Binding":
        out.append(p)
        if p.get("sub"):
            pat_bindings(p["sub"], out)
    elif k == "Struct":
        for f in p["fields"]:
            pat_bindings(f["pat"], out)
    elif k in ("TupleStruct", "Tuple", "Or"):
        for x in p["pats"]:
            pat_bindings(x, out)
    elif k in ("Ref", "Box", "Deref", "GuardPat"):
        pat_bindings(p["pat"], out)
    elif k == "Slice":
        for x in p["before"] + ([p["mid"]] if p.get("mid") else []) + p["after"]:
            pat_bindings(x, out)
    return out


def pat_strip(p):
    while isinstance(p, dict) and p.get("k") in ("Ref", "Box", "Deref"):
        p = p["pat"]
    return p


def pat_alternatives(p):
    """flatten top-level or-patterns"""
    p = pat_strip(p)
    if p.get("k") == "Or":
        out = []
        for x in p["pats"]:
            out.extend(pat_alternatives(x))
        return out
    return [p]


def pat_variant(p):
    """resolved variant / struct path named by a pattern (None for wild/binding)"""
    p = pat_strip(p)
    k = p.get("k")
    if k in ("Struct", "TupleStruct"):
        return norm_path(p["path"])
    if k == "PathPat":
        return norm_path(p.get("path"))
    return None


def pat_is_catchall(p):
    p = pat_strip(p)
    return p.get("k") in ("Wild",) or (p.get("k") == "Binding" and not p.get("sub"))


def pat_fields(p):
    """{field name -> sub pattern} for Struct patterns, {index -> pat} for tuple structs"""
    p = pat_strip(p)
    if p.get("k") == "Struct":
        return {f["name"]: f["pat"] for f in p["fields"]}
    if p.get("k") == "TupleStruct":
        return {str(i): x for i, x in enumerate(p["pats"])}
    return {}


# ------------------------------------------------------------------ calls


def callee(n):
    """normalised def path of the function / method called by a Call or MethodCall node"""
    if not isinstance(n, dict):
        return None
    if n.get("k") in ("Call", "MethodCall", "Index"):
        return norm_path(n.get("callee"))
    return None


def calls(n, suffix=None, pred=None):
    """all Call/MethodCall nodes under n whose callee path ends with suffix"""
    for x in nodes(n):
        if x.get("k") in ("Call", "MethodCall"):
            c = callee(x)
            if c is None:
                continue
            if suffix is not None and not (c == suffix or c.endswith("::" + suffix)):
                continue
            if pred is not None and not pred(x):
                continue
            yield x


def call_args(n):
    """arguments including the receiver for method calls"""
    if n.get("k") == "MethodCall":
        return [n["recv"]] + n["args"]
    return n["args"]


def local_name(e):
    e = peel(e)
    if isinstance(e, dict) and e.get("k") == "Path" and e.get("res") == "Local":
        return e["name"]
    return None


def local_hid(e):
    e = peel(e)
    if isinstance(e, dict) and e.get("k") == "Path" and e.get("res") == "Local":
        return e["hid"]
    return None


def def_path(e):
    e = peel(e)
    if isinstance(e, dict) and e.get("k") == "Path" and e.get("res") == "Def":
        return norm_path(e["path"])
    return None


def in_macro(n, name):
    return any(m == name or m.endswith("::" + name) for m in n.get("mac", []))


def line_of(n):
    sp = n.get("sp") if isinstance(n, dict) else None
    return sp or "?"


# ------------------------------------------------------------------ format strings


def decode_template(bs):
    """decode core::fmt::Arguments' template byte string (library/core/src/fmt/mod.rs):
    returns a list of str (literal) and dict(arg=index, flags.. ) placeholders"""
    out = []
    i = 0
    nxt = 0
    while True:
        n = bs[i]
        i += 1
        if n == 0:
            break
        if n < 0x80:
            out.append(bytes(bs[i:i + n]).decode("utf-8"))
            i += n
        elif n == 0x80:
            ln = bs[i] | (bs[i + 1] << 8)
            i += 2
            out.append(bytes(bs[i:i + ln]).decode("utf-8"))
            i += ln
        else:
            assert n >= 0xC0, n
            ph = {}
            if n & 1:
                ph["flags"] = int.from_bytes(bytes(bs[i:i + 4]), "little")
                i += 4
            if n & 2:
                ph["width"] = bs[i] | (bs[i + 1] << 8)
                i += 2
            if n & 4:
                ph["precision"] = bs[i] | (bs[i + 1] << 8)
                i += 2
            if n & 8:
                nxt = bs[i] | (bs[i + 1] << 8)
                i += 2
            ph["arg"] = nxt
            nxt += 1
            out.append(ph)
    # merge adjacent literals
    merged = []
    for p in out:
        if isinstance(p, str) and merged and isinstance(merged[-1], str):
            merged[-1] += p
        else:
            merged.append(p)
    return merged


def binding_inits(root):
    """hid -> init expression for every `let <simple binding> = init` under root"""
    m = {}
    for x in nodes(root, "Block"):
        for st in x["stmts"]:
            if st.get("k") == "Let" and st.get("init") is not None:
                p = st["pat"]
                if p.get("k") == "Binding" and not p.get("sub"):
                    m[p["hid"]] = st["init"]
    return m


def find_formats(root):
    """yield (call node, parts) for every format_args lowering under root, where parts is a list of
    literal str and {'e': expr, 'spec': 'display'|'debug'|.., [flags,width,precision]} in output order.
    Lowering on this toolchain:
       { let args = (&a, &b); let args = [Argument::new_display(args.0), ..];
         { Arguments::new(b"<template>", &args) } }        or  Arguments::from_str("lit")
    """
    inits = binding_inits(root)

    def resolve(e):
        e = peel(e)
        seen = 0
        while isinstance(e, dict) and e.get("k") == "Path" and e.get("res") == "Local" and e["hid"] in inits and seen < 8:
            e = peel(inits[e["hid"]])
            seen += 1
        return e

    for x in nodes(root, "Call"):
        c = callee(x) or ""
        if c.endswith("fmt::Arguments::from_str"):
            a = peel(x["args"][0])
            if a.get("k") == "Lit":
                yield x, [a["v"]]
            continue
        if not c.endswith("fmt::Arguments::new"):
            continue
        tmpl = peel(x["args"][0])
        if tmpl.get("k") != "Lit" or tmpl.get("lk") != "bytes":
            continue
        pieces = decode_template(tmpl["v"])
        arr = resolve(x["args"][1])
        argv = []
        if arr.get("k") == "Array":
            for el in arr["es"]:
                el = peel(el)
                cc = callee(el) or ""
                spec = cc.split("::")[-1].replace("new_", "") if "Argument" in cc else "?"
                y = peel(el["args"][0]) if el.get("args") else None
                if isinstance(y, dict) and y.get("k") == "Field" and y["name"].isdigit():
                    tup = resolve(y["e"])
                    if tup.get("k") == "Tup":
                        y = peel(tup["es"][int(y["name"])])
                argv.append({"e": y, "spec": spec})
        out = []
        ok = True
        for p in pieces:
            if isinstance(p, str):
                out.append(p)
            elif p["arg"] < len(argv):
                d = dict(argv[p["arg"]])
                for k in ("flags", "width", "precision"):
                    if k in p:
                        d[k] = p[k]
                out.append(d)
            else:
                ok = False
        if ok:
            yield x, out


def format_text(parts, hole=lambda d: "{}"):
    return "".join(p if isinstance(p, str) else hole(p) for p in parts)


# ------------------------------------------------------------------ printing (debug aid)


def pp(n, ind=0):
    """compact pseudo-Rust rendering of a node (for reports and debugging)"""
    I = "  " * ind
    if n is None:
        return ""
    if isinstance(n, list):
        return ", ".join(pp(x, ind) for x in n)
    k = n.get("k")
    if k is None and "pat" in n and "body" in n:
        g = " if " + pp(n["guard"], ind) if n.get("guard") else ""
        return ppat(n["pat"]) + g + " => " + pp(n["body"], ind)
    if k == "Lit":
        v = n["v"]
        if n["lk"] == "str":
            return '"' + str(v).replace("\n", "\\n")[:60] + '"'
        if n["lk"] == "bytes":
            return "b" + repr(bytes(v))[1:][:60]
        return str(v).lower() if isinstance(v, bool) else str(v)
    if k == "Path":
        if n.get("res") == "Local":
            return n["name"]
        return last(n.get("path", "?"), 2)
    if k == "Call":
        c = n.get("callee")
        head = last(c, 2) if c else pp(n["f"], ind)
        return head + "(" + ", ".join(pp(a, ind) for a in n["args"]) + ")"
    if k == "MethodCall":
        return pp(n["recv"], ind) + "." + n["m"] + "(" + ", ".join(pp(a, ind) for a in n["args"]) + ")"
    if k in ("Tup",):
        return "(" + ", ".join(pp(a, ind) for a in n["es"]) + ")"
    if k == "Array":
        return "[" + ", ".join(pp(a, ind) for a in n["es"]) + "]"
    if k == "Binary":
        return "(" + pp(n["l"], ind) + " " + n["op"] + " " + pp(n["r"], ind) + ")"
    if k == "Unary":
        return {"Deref": "*", "Not": "!", "Neg": "-"}.get(n["op"], n["op"]) + pp(n["e"], ind)
    if k == "AddrOf":
        return "&" + ("mut " if n.get("mut") else "") + pp(n["e"], ind)
    if k == "Field":
        return pp(n["e"], ind) + "." + n["name"]
    if k == "Index":
        return pp(n["e"], ind) + "[" + pp(n["i"], ind) + "]"
    if k == "Try":
        return pp(n["e"], ind) + "?"
    if k == "Struct":
        fs = ", ".join(f["name"] + ": " + pp(f["e"], ind) for f in n["fields"])
        b = (", .." + pp(n["base"], ind)) if n.get("base") else ""
        return last(n["path"], 2) + " { " + fs + b + " }"
    if k == "Block":
        lines = []
        for s in n["stmts"]:
            if s["k"] == "Let":
                lines.append(I + "  let " + ppat(s["pat"]) + (" = " + pp(s["init"], ind + 1) if s.get("init") else "") + ";")
            elif s["k"] in ("Semi", "ExprStmt"):
                lines.append(I + "  " + pp(s["e"], ind + 1) + ";")
        if n.get("e") is not None:
            lines.append(I + "  " + pp(n["e"], ind + 1))
        return "{\n" + "\n".join(lines) + "\n" + I + "}"
    if k == "If":
        s = "if " + pp(n["c"], ind) + " " + pp(n["t"], ind)
        if n.get("e"):
            s += " else " + pp(n["e"], ind)
        return s
    if k == "LetCond":
        return "let " + ppat(n["pat"]) + " = " + pp(n["init"], ind)
    if k == "Match":
        arms = "".join(I + "  " + pp(a, ind + 1) + ",\n" for a in n["arms"])
        return "match " + pp(n["scrut"], ind) + " {\n" + arms + I + "}"
    if k == "Closure":
        return "|" + ", ".join(ppat(p) for p in n["params"]) + "| " + pp(n["body"], ind)
    if k == "ForLoop":
        return "for " + ppat(n["pat"]) + " in " + pp(n["iter"], ind) + " " + pp(n["body"], ind)
    if k == "While":
        return "while " + pp(n["cond"], ind) + " " + pp(n["body"], ind)
    if k == "Loop":
        return "loop " + pp(n["body"], ind)
    if k == "Assign":
        return pp(n["l"], ind) + " = " + pp(n["r"], ind)
    if k == "AssignOp":
        return pp(n["l"], ind) + " " + n["op"] + "= " + pp(n["r"], ind)
    if k == "Ret":
        return "return " + pp(n.get("e"), ind)
    if k == "Break":
        return "break " + pp(n.get("e"), ind)
    if k == "Continue":
        return "continue"
    if k == "Cast":
        return pp(n["e"], ind) + " as _"
    return "<" + str(k) + ">"


def ppat(p):
    k = p.get("k")
    if k == "Wild":
        return "_"
    if k == "Binding":
        return p["name"] + ("@" + ppat(p["sub"]) if p.get("sub") else "")
    if k == "Struct":
        fs = ", ".join(f["name"] + ": " + ppat(f["pat"]) for f in p["fields"])
        return last(p["path"], 2) + " { " + fs + (", .." if p["rest"] else "") + " }"
    if k == "TupleStruct":
        ps = [ppat(x) for x in p["pats"]]
        if p.get("dd") is not None:
            ps.insert(p["dd"], "..")
        return last(p["path"], 2) + "(" + ", ".join(ps) + ")"
    if k == "Tuple":
        ps = [ppat(x) for x in p["pats"]]
        if p.get("dd") is not None:
            ps.insert(p["dd"], "..")
        return "(" + ", ".join(ps) + ")"
    if k == "Or":
        return " | ".join(ppat(x) for x in p["pats"])
    if k in ("Ref", "Box", "Deref"):
        return "&" + ppat(p["pat"])
    if k == "PathPat":
        return last(p.get("path", "?"), 2)
    if k == "LitPat":
        return pp(p["lit"])
    if k == "Slice":
        return "[..]"
    return "<" + str(k) + ">"


def with_roles(fn, roles):
    """deep copy of a function (params + body) in which the locals identified by `roles` ({canonical name: hid}) carry the
    canonical name - rules can then talk about roles (`visited`, `to_visit`, `line` ..) whatever the source calls them"""
    import copy
    f2 = copy.deepcopy({k: v for k, v in fn.items()})
    by_hid = {h: r for r, h in roles.items() if h is not None}

    def fix(n):
        if isinstance(n, dict):
            if n.get("hid") in by_hid and ("name" in n):
                n["name"] = by_hid[n["hid"]]
            for v in n.values():
                fix(v)
        elif isinstance(n, list):
            for v in n:
                fix(v)
    fix(f2.get("body"))
    fix(f2.get("params"))
    return f2


def local_bindings(fn):
    """every local binding of a function: {hid: binding node}"""
    out = {}
    for prm in fn.get("params", []):
        for b in pat_bindings(prm["pat"]):
            out[b["hid"]] = b
    for n in nodes(fn_body(fn)):
        k = n.get("k")
        pats = []
        if k in ("Let", "LetCond", "ForLoop"):
            pats.append(n["pat"])
        elif k == "Match":
            pats += [a["pat"] for a in n["arms"]]
        elif k == "Closure":
            pats += [p["pat"] for p in n.get("params", []) if isinstance(p, dict) and "pat" in p]
        for p in pats:
            for b in pat_bindings(p):
                out[b["hid"]] = b
    return out
