"""NONINT — non-interference by non-access (DESIGN §3.13): which fields of the resolved AST / of the type
checker's state do the lowering and emission functions bind *and use*."""
from hir import nodes, walk, fn_body, callee, last, line_of, peel, pp, norm_path
from flow import Flow

NR = "sylt_compiler::name_resolution::"
SINK_PREFIXES = ("sylt_compiler::intermediate::", "sylt_compiler::lua::")


def sink_fns(F):
    out = []
    for p in SINK_PREFIXES:
        out += F.fns_in(p)
    return out


def used_bindings(F, pred):
    """yield (fn, binding name, origin path, type) for every pattern binding in the sink functions that is
    *used* and satisfies pred(origin_path_elements, binding_type)"""
    for fn in sink_fns(F):
        body = fn_body(fn)
        fl = Flow(fn, body)
        for hid, o in fl.origin.items():
            b = o["binding"]
            if not pred(o["path"], b.get("ty", ""), o):
                continue
            used = Flow.mentions(body, {hid})
            yield fn, b, o, used


def field_projections(F, base_pred):
    """yield (fn, Field node) for field projections in the sinks whose base type satisfies base_pred"""
    for fn in sink_fns(F):
        for n in nodes(fn_body(fn), "Field"):
            if base_pred(n.get("base_ty", "")):
                yield fn, n


def arm_of_binding(fn, o):
    """last-name of the AST variant whose arm binds o (if any)"""
    for el in o["path"]:
        if el[0] == "field" and el[1].startswith(NR):
            return last(el[1])
    return None


def container_only_iterated(fn, b):
    """for a used binding that is a vector of tuples: are all its uses .iter()/.len()/.is_empty() receivers?
    returns (bool, uses)"""
    uses = []
    for x, parents in walk(fn_body(fn)):
        if x.get("k") == "Path" and x.get("hid") == b["hid"]:
            ps = list(parents)
            par = ps[-1] if ps else {}
            while par.get("k") in ("AddrOf", "Unary") and len(ps) > 1:
                ps = ps[:-1]
                par = ps[-1]
            uses.append(par.get("m") if par.get("k") == "MethodCall" else par.get("k"))
    return all(u in ("iter", "len", "is_empty") for u in uses), uses


def is_tuple_vector(ty):
    return ty.lstrip("&").replace("mut ", "").startswith("alloc::vec::Vec<(")
