"""C13 — operators parse with the documented precedence and associativity (DESIGN §4 C13)."""
from hir import (nodes, walk, fn_body, callee, last, line_of, peel, pp, norm_path, pat_alternatives, pat_variant,
                 pat_is_catchall, pat_bindings)
from engines import matches_on, arm_alternatives, ty_is
import pipe

P = "sylt_parser::expression::"
PREC = "sylt_parser::Prec"
TOK = "sylt_tokenizer::token::Token"

EXPLANATION = (
    "Decides the grouping claim for the parser, given that it is a precedence-climbing parser: the finite set of "
    "parameters that determine grouping is extracted and compared with the documented table. (SHAPE) parse_precedence is "
    "`prefix` followed by `while prec <= precedence(token)` ... `infix`; expression() starts at the lowest level; (ORDER) "
    "the declaration order of Prec is No < Assert < BoolOr < BoolAnd < Comp < Term < Factor < Index < Arrow, its comparison is "
    "the derived one and `next()` maps every level to its successor; (LEVELS) precedence() maps each of the 13 binary "
    "operator tokens to the documented level, `[ . (` to Index, `->` to Arrow and everything else to No; (LEFT-ASSOC) infix "
    "parses the right operand at precedence(op).next(); (UNARY) the operand of unary `-`/`not` is parsed at Factor, i.e. "
    "tighter than + - comparisons and boolean operators, looser than call/index/field; (SETS) the operator sets of infix, "
    "valid_infix and precedence agree; (PARENS) a parenthesised expression resolves to its content (no node is left)."
    " (SETS all-have-a-level) every token that can continue an expression (`(`, `[`, `.`, `'`, `->`, the operators) has a precedence level."
    ' (ARROW rhs-level, shared with C14) the call after `->` ends before any binary operator.'
    ' (PARENS parser form tests, PIPE emission, GRAMMAR self-delimiting - shared) the climbing loop decides by the next token alone and every operator is emitted with its own parentheses.'
)
UNDECIDED = "`evaluates to the same value` beyond what the operator pipeline (C01) gives."

MANIFEST = dict(
    text=EXPLANATION + " Not decided: " + UNDECIDED,
    technique="exhaustive extraction of the precedence-climbing parser's parameter tables from resolved HIR, compared with the documented table",
)

WANT_ORDER = ["No", "Assert", "BoolOr", "BoolAnd", "Comp", "Term", "Factor", "Index", "Arrow"]
WANT_LEVEL = {
    "AssertEqual": "Assert", "Or": "BoolOr", "And": "BoolAnd",
    "EqualEqual": "Comp", "NotEqual": "Comp", "Greater": "Comp", "GreaterEqual": "Comp", "Less": "Comp", "LessEqual": "Comp",
    "Plus": "Term", "Minus": "Term", "Star": "Factor", "Slash": "Factor",
    "LeftBracket": "Index", "Dot": "Index", "LeftParen": "Index", "Prime": "Index", "Arrow": "Arrow",
}


def run(F, rep, tier):
    rep.explanation = EXPLANATION
    rep.undecided = UNDECIDED
    # `call .. binds tighter still`: the call after `->` ends before any binary operator (shared with C14)
    import core
    import c14
    core.borrow(rep, c14.arrow, lambda o: o["rule"] == "ARROW" and o["key"] == "parser|rhs-level", F)
    # the climbing loop decides by the next *token* alone: a test on the form of what has been parsed so far (a comparison followed
    # by a comparison is "a mistake") rejects chains whose parenthesised form is accepted (shared with C14)
    core.borrow(rep, c14.paren_transparent, lambda o: o["rule"] == "PARENS" and o["key"].startswith("parser|"), F)
    # .. and the tree's grouping survives the emission: every operator is written with its own parentheses (shared with C01 / C06)
    import c01
    import c06
    import irp
    core.borrow(rep, lambda F_, r_: c01.pipe_rules(F_, r_, irp.Tables(F_)), lambda o: o["rule"] == "PIPE" and o["key"].startswith("emission|"), F)
    core.borrow(rep, lambda F_, r_: c06.run(F_, r_, "quick"), lambda o: o["rule"] == "GRAMMAR" and o["key"].endswith("|self-delimiting"), F)
    # ---- ORDER
    adt = F.adt(PREC)
    order = [v["name"] for v in adt["variants"]]
    rep.ob("ORDER", "Prec|declaration-order", order == WANT_ORDER, "Prec declares its levels in the order %s" % order, adt["sp"])
    impls = [i for i in F.crates["sylt_parser"]["impls"] if i["self_ty"].endswith("Prec")]
    po = [i for i in impls if (i["trait"] or "").endswith("PartialOrd")]
    rep.ob("ORDER", "Prec|derived-PartialOrd", len(po) == 1 and po[0]["derived"],
           "`<=` on Prec is the derived comparison (declaration order), not a hand-written one", adt["sp"])
    nxt = F.fn("sylt_parser::[Prec as Next]::next")
    rep.analysed(nxt)
    succ = {}
    for m in matches_on(fn_body(nxt), PREC):
        for arm, alt, vp in arm_alternatives(m):
            b = peel(arm["body"])
            if vp and b.get("k") == "Path":
                succ[last(vp)] = last(norm_path(b["path"]))
    want_succ = {a: b for a, b in zip(WANT_ORDER, WANT_ORDER[1:] + WANT_ORDER[-1:])}
    rep.ob("ORDER", "Prec::next|successor", succ == want_succ, "next() maps every level to the next tighter one (%s)" % succ, nxt["sp"])
    # ---- LEVELS
    fn = F.fn(P + "precedence")
    rep.analysed(fn)
    level = {}
    default = None
    for m in nodes(fn_body(fn), "Match"):
        if not ty_is(m.get("scrut_ty", ""), TOK):
            continue
        for arm in m["arms"]:
            b = peel(arm["body"])
            lv = last(norm_path(b["path"])) if b.get("k") == "Path" and b.get("res") == "Def" else "?"
            for alt in pat_alternatives(arm["pat"]):
                v = pat_variant(alt)
                if v:
                    level[last(v)] = lv
                elif pat_is_catchall(alt):
                    default = lv
    for tok, want in sorted(WANT_LEVEL.items()):
        rep.ob("LEVELS", "precedence|%s" % tok, level.get(tok) == want, "token %s has level %s (documented: %s)" % (tok, level.get(tok), want), fn["sp"])
    extra = {k: v for k, v in level.items() if k not in WANT_LEVEL and v != "No"}
    rep.ob("LEVELS", "precedence|no-other-operators", not extra and default == "No",
           "no other token has a precedence (default: %s, extra: %s)" % (default, extra), fn["sp"])
    # ---- SHAPE
    pp_fn = F.fn(P + "parse_precedence")
    rep.analysed(pp_fn)
    body = fn_body(pp_fn)
    calls = [callee(c) for c in nodes(body, "Call")]
    whiles = list(nodes(body, "While"))
    shape = False
    if whiles:
        c = peel(whiles[0]["cond"])
        if c.get("k") == "Binary" and c.get("op") == "Le":
            l, r = peel(c["l"]), peel(c["r"])
            params = {b["hid"]: b["name"] for prm in pp_fn["params"] for b in pat_bindings(prm["pat"])}
            shape = l.get("k") == "Path" and params.get(l.get("hid")) == "prec" and callee(r) == P + "precedence"
        inner = [callee(x) for x in nodes(whiles[0]["body"], "Call")]
        shape = shape and P + "infix" in inner
    rep.ob("SHAPE", "parse_precedence|climbing-loop", shape and calls and calls[0] == P + "prefix",
           "parse_precedence = prefix, then `while prec <= precedence(token)` { infix }", pp_fn["sp"])
    ex = F.fn(P + "expression")
    c = [x for x in nodes(fn_body(ex), "Call") if callee(x) == P + "parse_precedence"]
    ok = len(c) == 1 and last(norm_path(peel(c[0]["args"][1]).get("path", ""))) == "No"
    rep.ob("SHAPE", "expression|starts-at-No", ok, "expression() parses at the loosest level Prec::No", ex["sp"])
    # ---- LEFT-ASSOC
    fn_infix, ptab, valid, rhs = pipe.parser_infix(F)
    rep.analysed(fn_infix)
    ok = False
    if rhs is not None:
        r = peel(rhs)
        if r.get("k") == "MethodCall" and r["m"] == "next" and (callee(r) or "").endswith("Next::next"):
            inner = peel(r["recv"])
            ok = callee(inner) == P + "precedence" and peel(inner["args"][0]).get("name") == "op"
    # ... on every path: no other sub-parse may produce an operand inside infix() (a special case such as
    # `T::AssertEqual => expression(ctx)?` makes that operator right-associative)
    others = []
    for c_ in nodes(fn_body(fn_infix), "Call"):
        cal = callee(c_) or ""
        if not cal.startswith(P) or "Result<(sylt_parser::Context" not in (c_.get("ty") or ""):
            continue
        if last(cal) in ("arrow_call", "sub_assignable"):
            continue      # the postfix forms (`->`, call, index, access) continue the left operand
        if last(cal) == "parse_precedence" and len(c_["args"]) > 1:
            lv_ = peel(c_["args"][1])
            if lv_.get("k") == "MethodCall" and lv_["m"] == "next" and callee(peel(lv_["recv"])) == P + "precedence":
                continue
        others.append("%s @ %s" % (last(cal), line_of(c_)))
    ok = ok and not others
    rep.ob("LEFT-ASSOC", "infix|rhs-at-next-level", ok,
           "the right operand of every binary operator is parsed at precedence(op).next(): operators of one level associate to the left (%s)%s" % (
               pp(rhs) if rhs else None, "; but infix() also parses an operand with %s" % others if others else ""),
           fn_infix["sp"])
    # ---- UNARY
    fn_un, utab, uprec = pipe.parser_unary(F)
    lv = last(norm_path(peel(uprec).get("path", ""))) if uprec is not None else None
    # ... on every path: no other sub-parse may produce the operand (`-2 -> sq()` must stay `-(2 -> sq())`)
    others_u = []
    for c_ in nodes(fn_body(fn_un), "Call"):
        cal = callee(c_) or ""
        if not cal.startswith(P) or "Result<(sylt_parser::Context" not in (c_.get("ty") or ""):
            continue
        if last(cal) == "parse_precedence" and len(c_["args"]) > 1 and last(norm_path(peel(c_["args"][1]).get("path", ""))) == lv:
            continue
        others_u.append(last(cal))
    rep.ob("UNARY", "unary|operand-on-every-path", not others_u,
           "unary() parses its operand with parse_precedence(.., Prec::%s) and nothing else" % lv if not others_u else
           "unary() also parses an operand with %s: for those inputs the operand is not parsed at the unary level, so a postfix "
           "(call, index, `->`) after it binds to the whole negation instead of to the operand" % sorted(set(others_u)), fn_un["sp"])
    rep.ob("UNARY", "unary|operand-level", lv == "Factor", "the operand of unary -/not is parsed at Prec::%s (documented: tighter than + -, "
           "looser than call/index/field => Factor)" % lv, fn_un["sp"])
    rep.ob("UNARY", "unary|operators", set(utab) == {"Minus", "Not"}, "unary operators are exactly - and not (%s)" % sorted(utab), fn_un["sp"])
    pf = F.fn(P + "prefix")
    un_tokens = set()
    for m in nodes(fn_body(pf), "Match"):
        if ty_is(m.get("scrut_ty", ""), TOK):
            for arm in m["arms"]:
                b = peel(arm["body"])
                if callee(b) == P + "unary":
                    for alt in pat_alternatives(arm["pat"]):
                        if pat_variant(alt):
                            un_tokens.add(last(pat_variant(alt)))
    rep.ob("UNARY", "prefix|dispatch", un_tokens == {"Minus", "Not"}, "prefix() sends exactly - and not to unary() (%s)" % sorted(un_tokens), pf["sp"])
    # ---- SETS
    vi = F.fn(P + "valid_infix")
    vset = set()
    for m in nodes(fn_body(vi), "Match"):
        for arm in m["arms"]:
            b = peel(arm["body"])
            if b.get("k") == "Lit" and b.get("v") is True:
                for alt in pat_alternatives(arm["pat"]):
                    if pat_variant(alt):
                        vset.add(last(pat_variant(alt)))
    binops = {k for k, v in WANT_LEVEL.items() if v not in ("Index", "Arrow")}
    rep.ob("SETS", "valid_infix", vset == set(WANT_LEVEL),
           "valid_infix admits the 13 binary operators, -> and the call/index/field openers (%d tokens; unexpected: %s, missing: %s)" % (
               len(vset), sorted(vset - set(WANT_LEVEL)), sorted(set(WANT_LEVEL) - vset)), vi["sp"])
    # a token that may continue an expression but has no level is only taken at Prec::No - looser than every operator
    unlevelled = sorted(t for t in vset if level.get(t, default) == "No")
    rep.ob("SETS", "valid_infix|all-have-a-level", not unlevelled,
           "every token that can continue an expression has a precedence level (without one: %s - `1 + (f)'` would group as "
           "`(1 + (f))'`)" % unlevelled, vi["sp"])
    rep.ob("SETS", "infix|binary-set", set(ptab) == binops and valid == binops,
           "infix() builds nodes for exactly the 13 binary operators that have a level", fn_infix["sp"])
    # ---- PARENS
    fn_res, rtab, _ = pipe.resolver_ops(F)
    ok = False
    for m in matches_on(fn_body(fn_res), pipe.EK):
        for arm, alt, vp in arm_alternatives(m):
            if vp and last(vp) == "Parenthesis":
                b = peel(arm["body"])
                if b.get("k") == "Try":
                    b = peel(b["e"])
                binds = pat_bindings(alt)
                ok = callee(b) == pipe.R + "expression" and len(binds) == 1 and peel(b["args"][0]).get("hid") == binds[0]["hid"]
    rep.ob("PARENS", "Resolver::expression|Parenthesis", ok, "Parenthesis(x) resolves to expression(x): parentheses leave no node", fn_res["sp"])
    rep.info("unary minus takes a whole factor chain: `-a * b` parses as -(a * b); consistent with the statement (tighter than + -)")
