"""Regular-language inclusion for token patterns: sre parse tree -> NFA -> subset construction over a finite set of
representative characters; L(a) <= L(b) decided on the product automaton (exact for the classes the patterns use)."""
import sre_parse
import sre_constants as C


def _class_test(items):
    neg = False
    tests = []
    for op, av in items:
        if op == C.NEGATE:
            neg = True
        elif op == C.LITERAL:
            tests.append(("lit", av))
        elif op == C.RANGE:
            tests.append(("range", av))
        else:
            raise ValueError("class item %s not supported" % (op,))
    def f(ch):
        o = ord(ch)
        hit = any((t == "lit" and o == a) or (t == "range" and a[0] <= o <= a[1]) for t, a in tests)
        return hit != neg
    return f


class NFA:
    def __init__(self):
        self.eps = {}
        self.tr = {}      # state -> [(test, state)]
        self.n = 0

    def new(self):
        self.n += 1
        return self.n - 1

    def add_eps(self, a, b):
        self.eps.setdefault(a, set()).add(b)

    def add(self, a, test, b):
        self.tr.setdefault(a, []).append((test, b))

    def build(self, seq, start):
        cur = start
        for op, av in seq:
            nxt = self.new()
            if op == C.LITERAL:
                self.add(cur, (lambda c, o=av: ord(c) == o), nxt)
            elif op == C.NOT_LITERAL:
                self.add(cur, (lambda c, o=av: ord(c) != o), nxt)
            elif op == C.ANY:
                self.add(cur, (lambda c: c != "\n"), nxt)
            elif op == C.IN:
                self.add(cur, _class_test(av), nxt)
            elif op == C.BRANCH:
                for alt in av[1]:
                    e = self.build(alt, cur)
                    self.add_eps(e, nxt)
            elif op == C.SUBPATTERN:
                e = self.build(av[3], cur)
                self.add_eps(e, nxt)
            elif op in (C.MAX_REPEAT, C.MIN_REPEAT):
                lo, hi, sub = av
                at = cur
                for _ in range(lo):
                    at = self.build(sub, at)
                if hi == C.MAXREPEAT:
                    loop = self.new()
                    self.add_eps(at, loop)
                    e = self.build(sub, loop)
                    self.add_eps(e, loop)
                    self.add_eps(loop, nxt)
                else:
                    self.add_eps(at, nxt)
                    for _ in range(hi - lo):
                        at = self.build(sub, at)
                        self.add_eps(at, nxt)
            else:
                raise ValueError("regex op %s not supported" % (op,))
            cur = nxt
        return cur

    def closure(self, states):
        out, todo = set(states), list(states)
        while todo:
            s = todo.pop()
            for t in self.eps.get(s, ()):
                if t not in out:
                    out.add(t)
                    todo.append(t)
        return frozenset(out)

    def step(self, states, ch):
        return self.closure({b for s in states for test, b in self.tr.get(s, ()) if test(ch)})


def compile_rx(pattern, flags=0):
    n = NFA()
    s = n.new()
    e = n.build(list(sre_parse.parse(pattern, flags)), s)
    return n, n.closure({s}), e


def alphabet(*patterns):
    chars = set("aZ09_ \t\n.+-eE\"/\\x")
    for p in patterns:
        chars |= {c for c in p if c.isprintable()}
    return sorted(chars)


def not_included(pat_a, pat_b, flags_b=0):
    """a shortest string in L(a) \\ L(b), or None when L(a) <= L(b)"""
    na, sa, ea = compile_rx(pat_a)
    nb, sb, eb = compile_rx(pat_b, flags_b)
    sigma = alphabet(pat_a, pat_b)
    seen = {(sa, sb): ""}
    todo = [(sa, sb)]
    while todo:
        nxt = []
        for qa, qb in todo:
            w = seen[(qa, qb)]
            if ea in qa and eb not in qb:
                return w
            for ch in sigma:
                ra = na.step(qa, ch)
                if not ra:
                    continue
                rb = nb.step(qb, ch)
                if (ra, rb) not in seen:
                    seen[(ra, rb)] = w + ch
                    nxt.append((ra, rb))
        todo = nxt
    return None
