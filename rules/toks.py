"""Token specification of sylt-tokenizer (logos attributes) and regex-language facts.

The attributes are read from the source text of `enum Token` (kept in the ADT facts); patterns are analysed with
Python's own regex parser (re._parser), whose syntax covers the subset logos patterns use here; anything it cannot
parse is a fail-closed error."""
import re
import re._parser as sre_parse  # noqa
import re._constants as sre_c  # noqa

from facts import AnchorMissing

TOKEN_ADT = "sylt_tokenizer::token::Token"
ALPHABET = [chr(i) for i in range(0, 128)] + ["ä", "€", "\U0001f600"]


def _rust_string(src, i):
    """parse a Rust string literal starting at src[i] (", r", r#"); return (value, end index)"""
    if src[i] == '"':
        j = i + 1
        out = []
        while src[j] != '"':
            if src[j] == "\\":
                n = src[j + 1]
                out.append({"n": "\n", "t": "\t", "r": "\r", "\\": "\\", '"': '"', "0": "\0", "'": "'"}.get(n, "\\" + n))
                j += 2
            else:
                out.append(src[j])
                j += 1
        return "".join(out), j + 1
    if src[i] == "r":
        j = i + 1
        hashes = 0
        while src[j] == "#":
            hashes += 1
            j += 1
        assert src[j] == '"'
        end = '"' + "#" * hashes
        k = src.index(end, j + 1)
        return src[j + 1:k], k + len(end)
    raise ValueError("not a string literal")


def _split_attr_args(body):
    """split the inside of #[name( ... )] on top-level commas, respecting strings / brackets"""
    args, cur, depth, i = [], [], 0, 0
    while i < len(body):
        c = body[i]
        if c == '"' or (c == "r" and i + 1 < len(body) and body[i + 1] in '"#' and (i == 0 or not (body[i - 1].isalnum() or body[i - 1] == "_"))):
            try:
                _, j = _rust_string(body, i)
                cur.append(body[i:j])
                i = j
                continue
            except (ValueError, AssertionError):
                pass
        if c in "([{":
            depth += 1
        elif c in ")]}":
            depth -= 1
        if c == "," and depth == 0:
            args.append("".join(cur).strip())
            cur = []
        else:
            cur.append(c)
        i += 1
    if "".join(cur).strip():
        args.append("".join(cur).strip())
    return args


def parse_enum_attrs(src):
    """[(variant name, [attribute text without #[ ]])] in declaration order"""
    # strip line comments outside strings
    out = []
    i = src.index("{") + 1
    attrs = []
    n = len(src)
    while i < n:
        c = src[i]
        if c.isspace() or c == ",":
            i += 1
            continue
        if src.startswith("//", i):
            i = src.index("\n", i) if "\n" in src[i:] else n
            continue
        if src.startswith("#[", i):
            depth = 0
            j = i + 1
            while True:
                ch = src[j]
                if ch == '"' or (ch == "r" and src[j + 1] in '"#' and not (src[j - 1].isalnum() or src[j - 1] == "_")):
                    try:
                        _, j = _rust_string(src, j)
                        continue
                    except (ValueError, AssertionError):
                        pass
                if ch == "[":
                    depth += 1
                elif ch == "]":
                    depth -= 1
                    if depth == 0:
                        break
                j += 1
            attrs.append(src[i + 2:j].strip())
            i = j + 1
            continue
        if c == "}":
            break
        m = re.match(r"[A-Za-z_][A-Za-z0-9_]*", src[i:])
        if not m:
            raise AnchorMissing("cannot parse enum Token source near %r" % src[i:i + 30])
        name = m.group(0)
        i += len(name)
        # skip payload ( .. ) or { .. }
        if i < n and src[i] in "({":
            close = ")" if src[i] == "(" else "}"
            depth = 0
            while True:
                if src[i] in "({":
                    depth += 1
                elif src[i] in ")}":
                    depth -= 1
                    if depth == 0:
                        i += 1
                        break
                i += 1
        out.append((name, attrs))
        attrs = []
    return out


class TokenSpec:
    def __init__(self, F):
        adt = F.adt(TOKEN_ADT)
        if not adt.get("src"):
            raise AnchorMissing("source text of enum Token")
        self.rules = {}
        self.order = []
        for name, attrs in parse_enum_attrs(adt["src"]):
            r = dict(kind="none", pattern=None, skip=False, callback=None, priority=None, attrs=attrs)
            for a in attrs:
                m = re.match(r"(token|regex)\s*\((.*)\)\s*$", a, re.S)
                if m:
                    args = _split_attr_args(m.group(2))
                    pat, _ = _rust_string(args[0], 0)
                    r["kind"] = m.group(1)
                    r["pattern"] = pat
                    for extra in args[1:]:
                        if extra.replace(" ", "").startswith("priority="):
                            r["priority"] = int(extra.split("=")[1])
                        elif "logos::skip" in extra:
                            r["skip"] = True
                        else:
                            r["callback"] = extra
                elif a.strip() == "error":
                    r["kind"] = "error"
            self.rules[name] = r
            self.order.append(name)
        self.variant_fields = {v["name"]: v["fields"] for v in adt["variants"]}

    # ---- regex language helpers
    def _parsed(self, name):
        r = self.rules[name]
        if r["kind"] == "token":
            return sre_parse.parse(re.escape(r["pattern"]))
        if r["kind"] == "regex":
            return sre_parse.parse(r["pattern"])
        return None

    def regex(self, name):
        r = self.rules[name]
        if r["kind"] == "token":
            return re.compile(re.escape(r["pattern"]), re.S)
        if r["kind"] == "regex":
            return re.compile(r["pattern"])  # `.` excludes \n in both dialects; negated classes include it
        return None

    def can_contain(self, name, ch):
        """can a match of this token's pattern contain character ch"""
        p = self._parsed(name)
        if p is None:
            return None
        return ch in _chars_of(p)

    def chars(self, name):
        p = self._parsed(name)
        return _chars_of(p) if p is not None else set()

    def payload_chars(self, name):
        """characters that can occur in the payload handed to the parser: for patterns delimited by a literal
        first and last character that the callback strips (String), the delimiters are excluded"""
        p = self._parsed(name)
        if p is None:
            return set()
        items = list(p)
        cb = self.rules[name].get("callback") or ""
        if len(items) >= 2 and items[0][0] == sre_c.LITERAL and items[-1][0] == sre_c.LITERAL and \
                "remove(0)" in cb.replace(" ", "") and "pop()" in cb.replace(" ", ""):
            inner = set()
            for it in items[1:-1]:
                inner |= _chars_of([it])
            return inner
        return _chars_of(p)

    def matches_empty(self, name):
        rx = self.regex(name)
        return rx is not None and rx.fullmatch("") is not None

    def keywords(self):
        """literal words (from #[token] and from purely literal regex alternatives) that match the identifier pattern"""
        ident = self.regex("Identifier")
        kws = {}
        for name, r in self.rules.items():
            if name == "Identifier":
                continue
            words = []
            if r["kind"] == "token":
                words = [r["pattern"]]
            elif r["kind"] == "regex" and re.fullmatch(r"[A-Za-z_|]+", r["pattern"] or ""):
                words = r["pattern"].split("|")
            for w in words:
                if ident.fullmatch(w):
                    kws[w] = name
        return kws

    def identifier_language(self):
        ident = self.regex("Identifier")
        kws = self.keywords()
        return lambda w: ident.fullmatch(w) is not None and w not in kws


def _chars_of(parsed):
    """over-approximate set of characters (from ALPHABET) that can occur in a match of a parsed pattern"""
    out = set()
    for op, av in parsed:
        if op == sre_c.LITERAL:
            out.add(chr(av))
        elif op == sre_c.NOT_LITERAL:
            out |= {c for c in ALPHABET if c != chr(av)}
        elif op == sre_c.ANY:
            out |= {c for c in ALPHABET if c != "\n"}
        elif op == sre_c.IN:
            out |= _class_chars(av)
        elif op in (sre_c.MAX_REPEAT, sre_c.MIN_REPEAT):
            out |= _chars_of(av[2])
        elif op == sre_c.SUBPATTERN:
            out |= _chars_of(av[3])
        elif op == sre_c.BRANCH:
            for alt in av[1]:
                out |= _chars_of(alt)
        elif op == sre_c.AT:
            pass
        else:
            raise AnchorMissing("regex construct %s not supported by the token analysis" % op)
    return out


def _class_chars(items):
    neg = False
    pos = set()
    for op, av in items:
        if op == sre_c.NEGATE:
            neg = True
        elif op == sre_c.LITERAL:
            pos.add(chr(av))
        elif op == sre_c.RANGE:
            lo, hi = av
            pos |= {c for c in ALPHABET if lo <= ord(c) <= hi}
        elif op == sre_c.CATEGORY:
            cat = {sre_c.CATEGORY_DIGIT: r"\d", sre_c.CATEGORY_NOT_DIGIT: r"\D", sre_c.CATEGORY_SPACE: r"\s",
                   sre_c.CATEGORY_NOT_SPACE: r"\S", sre_c.CATEGORY_WORD: r"\w", sre_c.CATEGORY_NOT_WORD: r"\W"}[av]
            pos |= {c for c in ALPHABET if re.fullmatch(cat, c)}
        else:
            raise AnchorMissing("regex class item %s not supported" % op)
    return {c for c in ALPHABET if c not in pos} if neg else pos
