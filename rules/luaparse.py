"""A Lua 5.1 (+ goto / ::label::) parser producing a plain dict AST.  Fails closed (LuaSyntaxError) on
anything it does not understand.  Used on preamble.lua and on instantiated emission templates."""
import re

RESERVED = {
    "and", "break", "do", "else", "elseif", "end", "false", "for", "function", "goto", "if", "in", "local", "nil", "not",
    "or", "repeat", "return", "then", "true", "until", "while",
}
# `goto` is reserved in Lua 5.2+ and in LuaJIT's default build when used as a statement; we treat it as reserved.


class LuaSyntaxError(Exception):
    pass


TOKEN_RE = re.compile(r"""
    (?P<ws>\s+)
  | (?P<comment>--\[(?P<ceq>=*)\[.*?\](?P=ceq)\]|--[^\n]*)
  | (?P<name>[A-Za-z_][A-Za-z0-9_]*)
  | (?P<number>0[xX][0-9a-fA-F]+|\d+\.?\d*(?:[eE][+-]?\d+)?|\.\d+(?:[eE][+-]?\d+)?)
  | (?P<lstring>\[(?P<seq>=*)\[.*?\](?P=seq)\])
  | (?P<string>"(?:[^"\\\n]|\\.|\\\n)*"|'(?:[^'\\\n]|\\.|\\\n)*')
  | (?P<op>\.\.\.|\.\.|==|~=|<=|>=|::|//|<<|>>|[-+*/%^\#<>=(){}\[\];:,.&|~])
""", re.X | re.S)


def tokenize(src):
    toks = []
    i = 0
    line = 1
    while i < len(src):
        m = TOKEN_RE.match(src, i)
        if not m:
            raise LuaSyntaxError("line %d: unexpected character %r" % (line, src[i:i + 10]))
        kind = m.lastgroup
        text = m.group(0)
        if m.group("ws") is not None or m.group("comment") is not None:
            pass
        elif m.group("name") is not None:
            toks.append(("kw" if text in RESERVED else "name", text, line))
        elif m.group("number") is not None:
            toks.append(("number", text, line))
        elif m.group("lstring") is not None or m.group("string") is not None:
            toks.append(("string", text, line))
        elif m.group("op") is not None:
            toks.append(("op", text, line))
        else:
            raise LuaSyntaxError("line %d: bad token" % line)
        line += text.count("\n")
        i = m.end()
    toks.append(("eof", "", line))
    return toks


BINPRI = {
    "or": (1, 1), "and": (2, 2),
    "<": (3, 3), ">": (3, 3), "<=": (3, 3), ">=": (3, 3), "~=": (3, 3), "==": (3, 3),
    "..": (5, 4),
    "+": (6, 6), "-": (6, 6),
    "*": (7, 7), "/": (7, 7), "%": (7, 7), "//": (7, 7),
    "<<": (4, 4), ">>": (4, 4), "&": (3, 3), "|": (3, 3), "~": (3, 3),
    "^": (10, 9),
}
UNARY_PRI = 8


class Parser:
    def __init__(self, src):
        self.t = tokenize(src)
        self.i = 0

    def peek(self, k=0):
        return self.t[min(self.i + k, len(self.t) - 1)]

    def nxt(self):
        tok = self.t[self.i]
        self.i += 1
        return tok

    def check(self, text):
        tok = self.peek()
        return tok[1] == text and tok[0] in ("kw", "op")

    def accept(self, text):
        if self.check(text):
            self.i += 1
            return True
        return False

    def expect(self, text):
        if not self.accept(text):
            tok = self.peek()
            raise LuaSyntaxError("line %d: expected %r near %r" % (tok[2], text, tok[1]))

    def name(self):
        tok = self.nxt()
        if tok[0] != "name":
            raise LuaSyntaxError("line %d: expected a name near %r" % (tok[2], tok[1]))
        return tok[1]

    # ---- blocks / statements
    def chunk(self):
        b = self.block()
        if self.peek()[0] != "eof":
            tok = self.peek()
            raise LuaSyntaxError("line %d: unexpected %r" % (tok[2], tok[1]))
        return b

    def block_end(self):
        tok = self.peek()
        return tok[0] == "eof" or (tok[0] == "kw" and tok[1] in ("end", "else", "elseif", "until"))

    def block(self):
        stmts = []
        while not self.block_end():
            if self.check("return"):
                line = self.nxt()[2]
                es = []
                if not self.block_end() and not self.check(";"):
                    es = self.explist()
                self.accept(";")
                stmts.append(dict(k="Return", es=es, line=line))
                if not self.block_end():
                    tok = self.peek()
                    raise LuaSyntaxError("line %d: 'return' must be the last statement of a block (near %r)" % (tok[2], tok[1]))
                break
            if self.check("break"):
                line = self.nxt()[2]
                self.accept(";")
                stmts.append(dict(k="Break", line=line))
                if not self.block_end():
                    tok = self.peek()
                    raise LuaSyntaxError("line %d: 'break' must be the last statement of a block (Lua 5.1 / LuaJIT) near %r" % (tok[2], tok[1]))
                break
            s = self.statement()
            if s is not None:
                stmts.append(s)
            self.accept(";")
        return dict(k="Block", stmts=stmts)

    def statement(self):
        tok = self.peek()
        line = tok[2]
        if self.accept(";"):
            return None
        if self.accept("::"):
            n = self.name()
            self.expect("::")
            return dict(k="Label", name=n, line=line)
        if self.accept("goto"):
            return dict(k="Goto", name=self.name(), line=line)
        if self.accept("do"):
            b = self.block()
            self.expect("end")
            return dict(k="Do", body=b, line=line)
        if self.accept("while"):
            c = self.expr()
            self.expect("do")
            b = self.block()
            self.expect("end")
            return dict(k="While", cond=c, body=b, line=line)
        if self.accept("repeat"):
            b = self.block()
            self.expect("until")
            c = self.expr()
            return dict(k="Repeat", cond=c, body=b, line=line)
        if self.accept("if"):
            clauses = []
            c = self.expr()
            self.expect("then")
            clauses.append((c, self.block()))
            els = None
            while True:
                if self.accept("elseif"):
                    c = self.expr()
                    self.expect("then")
                    clauses.append((c, self.block()))
                elif self.accept("else"):
                    els = self.block()
                    self.expect("end")
                    break
                else:
                    self.expect("end")
                    break
            return dict(k="If", clauses=clauses, els=els, line=line)
        if self.accept("for"):
            n1 = self.name()
            if self.accept("="):
                a = self.expr()
                self.expect(",")
                b = self.expr()
                c = self.expr() if self.accept(",") else None
                self.expect("do")
                body = self.block()
                self.expect("end")
                return dict(k="ForNum", var=n1, start=a, stop=b, step=c, body=body, line=line)
            names = [n1]
            while self.accept(","):
                names.append(self.name())
            self.expect("in")
            es = self.explist()
            self.expect("do")
            body = self.block()
            self.expect("end")
            return dict(k="ForIn", names=names, es=es, body=body, line=line)
        if self.accept("function"):
            n = [self.name()]
            method = None
            while self.accept("."):
                n.append(self.name())
            if self.accept(":"):
                method = self.name()
            f = self.funcbody(line)
            if method:
                f["params"].insert(0, "self")
            target = dict(k="Name", name=n[0], line=line)
            for x in n[1:] + ([method] if method else []):
                target = dict(k="Index", obj=target, key=dict(k="String", v=x), dot=True, line=line)
            return dict(k="Assign", targets=[target], es=[f], line=line, funcstat=True)
        if self.accept("local"):
            if self.accept("function"):
                n = self.name()
                f = self.funcbody(line)
                return dict(k="LocalFunction", name=n, func=f, line=line)
            names = [self.name()]
            while self.accept(","):
                names.append(self.name())
            es = self.explist() if self.accept("=") else []
            return dict(k="Local", names=names, es=es, line=line)
        # exprstat: call or assignment
        e = self.suffixedexp()
        if self.check("=") or self.check(","):
            targets = [e]
            while self.accept(","):
                targets.append(self.suffixedexp())
            self.expect("=")
            es = self.explist()
            for t in targets:
                if t["k"] not in ("Name", "Index"):
                    raise LuaSyntaxError("line %d: cannot assign to this expression" % line)
            return dict(k="Assign", targets=targets, es=es, line=line)
        if e["k"] not in ("Call", "MethodCall"):
            raise LuaSyntaxError("line %d: syntax error: an expression is not a statement" % line)
        return dict(k="CallStat", call=e, line=line)

    def funcbody(self, line):
        self.expect("(")
        params = []
        vararg = False
        if not self.check(")"):
            while True:
                if self.accept("..."):
                    vararg = True
                    break
                params.append(self.name())
                if not self.accept(","):
                    break
        self.expect(")")
        b = self.block()
        self.expect("end")
        return dict(k="Function", params=params, vararg=vararg, body=b, line=line)

    # ---- expressions
    def explist(self):
        es = [self.expr()]
        while self.accept(","):
            es.append(self.expr())
        return es

    def primaryexp(self):
        tok = self.peek()
        if tok[0] == "name":
            self.i += 1
            return dict(k="Name", name=tok[1], line=tok[2])
        if self.accept("("):
            e = self.expr()
            self.expect(")")
            return dict(k="Paren", e=e, line=tok[2])
        raise LuaSyntaxError("line %d: unexpected symbol near %r" % (tok[2], tok[1]))

    def suffixedexp(self):
        e = self.primaryexp()
        while True:
            tok = self.peek()
            if self.accept("."):
                e = dict(k="Index", obj=e, key=dict(k="String", v=self.name()), dot=True, line=tok[2])
            elif self.accept("["):
                k = self.expr()
                self.expect("]")
                e = dict(k="Index", obj=e, key=k, dot=False, line=tok[2])
            elif self.accept(":"):
                n = self.name()
                e = dict(k="MethodCall", obj=e, name=n, args=self.callargs(), line=tok[2])
            elif self.check("(") or self.check("{") or tok[0] == "string":
                e = dict(k="Call", f=e, args=self.callargs(), line=tok[2])
            else:
                return e

    def callargs(self):
        tok = self.peek()
        if tok[0] == "string":
            self.i += 1
            return [dict(k="String", v=unquote(tok[1]), raw=tok[1])]
        if self.check("{"):
            return [self.table()]
        self.expect("(")
        args = []
        if not self.check(")"):
            args = self.explist()
        self.expect(")")
        return args

    def table(self):
        line = self.peek()[2]
        self.expect("{")
        items = []
        while not self.check("}"):
            if self.check("["):
                self.i += 1
                k = self.expr()
                self.expect("]")
                self.expect("=")
                items.append(("key", k, self.expr()))
            elif self.peek()[0] == "name" and self.peek(1)[1] == "=" and self.peek(1)[0] == "op":
                n = self.name()
                self.expect("=")
                items.append(("field", n, self.expr()))
            else:
                items.append(("pos", None, self.expr()))
            if not (self.accept(",") or self.accept(";")):
                break
        self.expect("}")
        return dict(k="Table", items=items, line=line)

    def simpleexp(self):
        tok = self.peek()
        if tok[0] == "number":
            self.i += 1
            return dict(k="Number", v=tok[1])
        if tok[0] == "string":
            self.i += 1
            return dict(k="String", v=unquote(tok[1]), raw=tok[1])
        if tok[0] == "kw" and tok[1] in ("nil", "true", "false"):
            self.i += 1
            return dict(k="Const", v=tok[1])
        if self.accept("..."):
            return dict(k="Vararg")
        if self.check("{"):
            return self.table()
        if self.accept("function"):
            return self.funcbody(tok[2])
        return self.suffixedexp()

    def expr(self, limit=0):
        tok = self.peek()
        if (tok[0] == "kw" and tok[1] == "not") or (tok[0] == "op" and tok[1] in ("-", "#")):
            self.i += 1
            e = dict(k="Unop", op=tok[1], e=self.expr(UNARY_PRI), line=tok[2])
        else:
            e = self.simpleexp()
        while True:
            tok = self.peek()
            op = tok[1] if tok[0] in ("op", "kw") else None
            if op not in BINPRI or BINPRI[op][0] <= limit:
                break
            self.i += 1
            r = self.expr(BINPRI[op][1])
            e = dict(k="Binop", op=op, l=e, r=r, line=tok[2])
        return e


def unquote(s):
    if s.startswith("["):
        m = re.match(r"\[(=*)\[(.*)\]\1\]$", s, re.S)
        body = m.group(2)
        return body[1:] if body.startswith("\n") else body
    body = s[1:-1]
    out = []
    i = 0
    while i < len(body):
        c = body[i]
        if c == "\\" and i + 1 < len(body):
            n = body[i + 1]
            out.append({"n": "\n", "t": "\t", "r": "\r", "\\": "\\", '"': '"', "'": "'", "\n": "\n", "a": "\a", "b": "\b",
                        "f": "\f", "v": "\v"}.get(n, n))
            i += 2
        else:
            out.append(c)
            i += 1
    return "".join(out)


def parse(src):
    return Parser(src).chunk()


def parse_expr(src):
    p = Parser(src)
    e = p.expr()
    if p.peek()[0] != "eof":
        tok = p.peek()
        raise LuaSyntaxError("line %d: trailing %r after expression" % (tok[2], tok[1]))
    return e


def walk(n):
    """pre-order over all dict nodes"""
    if isinstance(n, dict):
        yield n
        for v in n.values():
            yield from walk(v)
    elif isinstance(n, (list, tuple)):
        for x in n:
            yield from walk(x)


def show(e):
    """compact text of an expression (for reports)"""
    k = e.get("k")
    if k == "Name":
        return e["name"]
    if k == "Number":
        return e["v"]
    if k == "String":
        return repr(e["v"])
    if k == "Const":
        return e["v"]
    if k == "Paren":
        inner = show(e["e"])
        return inner if e["e"].get("k") == "Binop" else "(" + inner + ")"
    if k == "Index":
        if e.get("dot"):
            return show(e["obj"]) + "." + e["key"]["v"]
        return show(e["obj"]) + "[" + show(e["key"]) + "]"
    if k == "Call":
        return show(e["f"]) + "(" + ", ".join(show(a) for a in e["args"]) + ")"
    if k == "MethodCall":
        return show(e["obj"]) + ":" + e["name"] + "(" + ", ".join(show(a) for a in e["args"]) + ")"
    if k == "Binop":
        return "(" + show(e["l"]) + " " + e["op"] + " " + show(e["r"]) + ")"
    if k == "Unop":
        return e["op"] + (" " if e["op"] == "not" else "") + show(e["e"])
    if k == "Table":
        return "{" + ", ".join((str(i[1]) + "=" if i[0] == "field" else "[" + show(i[1]) + "]=" if i[0] == "key" else "") + show(i[2]) for i in e["items"]) + "}"
    if k == "Function":
        return "function(" + ", ".join(e["params"]) + ") .. end"
    if k == "Vararg":
        return "..."
    return "<" + str(k) + ">"


if __name__ == "__main__":
    import sys
    ast = parse(open(sys.argv[1]).read())
    print(len(ast["stmts"]), "top-level statements")
