"""PROGRESS — termination of the parser's token-driven loops, by abstract interpretation of sylt-parser over the HIR.

Every parsing function threads a `Context` value (a cursor into the token slice).  A loop that is driven by such a cursor
terminates if (a) on every path from the loop head back to the head the cursor has moved strictly forward - possibly
only after one or two further iterations, which is how the error-recovery loops work: `skip_until!(ctx, Newline)` leaves
the cursor *on* a newline or at the end, and the next iteration consumes the newline or leaves - and (b) the loop leaves
when the cursor is at the end of the input (Context::token() answers EOF for every position behind the last token, so a
loop that keeps "advancing" there never stops).

Abstract value of a Context expression: (root, delta, tok) - the position relative to a root (the function's parameter,
or the value a loop-carried variable had at the loop head): EQ (same position), GE (same or further), PLUS (strictly
further), TOP (unknown, possibly behind); tok = what is known about the token under the cursor (in / not in a set of
Token variants).  Values of tuples and Results carry the cursors inside them.  The interpretation is path-sensitive (a
set of states, deduplicated), inlines the methods of Context, and uses a summary (position of the returned cursor relative
to the argument, for Ok and for Err; whether Ok is possible when the argument is at EOF) for every other function that
takes and returns a Context.  Summaries are the greatest fixed point starting from "strictly further" - sound for what a
call returns *if* it returns (induction over the finite call tree of a terminating call).

Nothing here executes sylt code."""
import itertools

from hir import (nodes, walk, fn_body, callee, call_args, last, line_of, peel, pp, norm_path, pat_alternatives, pat_variant,
                 pat_bindings, pat_strip)

CTX_TY = "sylt_parser::Context<"
CTX_PATH = "sylt_parser::Context::"
ORDER = {"PLUS": 0, "EQ": 1, "GE": 2, "TOP": 3}
OPAQUE = ("o",)
MAX_STATES = 160


def is_ctx_ty(t):
    t = (t or "").strip()
    while t.startswith("&"):
        t = t[1:].replace("mut ", "", 1).strip()
        if t.startswith("'"):
            t = t.split(" ", 1)[1] if " " in t else t
    return t.startswith(CTX_TY)


def has_ctx_ty(t):
    return CTX_TY in (t or "")


# ------------------------------------------------------------------ values

def C(root, delta, tok=None):
    return ("c", root, delta, tok)


def TOPC(why):
    return ("c", "?" + why, "TOP", None)


MAXD = 3


def is_plus(d):
    return isinstance(d, int) and d >= 1


def compose(d1, d2):
    """deltas: "EQ" (same position), n = 0..3 (at least n tokens further), "TOP" (unknown, possibly behind)"""
    if "TOP" in (d1, d2):
        return "TOP"
    if d1 == "EQ":
        return d2
    if d2 == "EQ":
        return d1
    return min(MAXD, d1 + d2)


def join_delta(d1, d2):
    if d1 == d2:
        return d1
    if "TOP" in (d1, d2):
        return "TOP"
    n1 = 0 if d1 == "EQ" else d1
    n2 = 0 if d2 == "EQ" else d2
    return min(n1, n2)


def show_delta(d):
    return {0: "GE", 1: "PLUS"}.get(d, "PLUS%s" % d if isinstance(d, int) else d)


def tok_and(t, fact):
    """intersect token knowledge; returns (tok, feasible)"""
    if fact is None:
        return t, True
    if t is None:
        return fact, (fact[0] == "notin" or bool(fact[1]))
    k1, s1 = t
    k2, s2 = fact
    if k1 == "in" and k2 == "in":
        s = s1 & s2
        return ("in", s), bool(s)
    if k1 == "in" and k2 == "notin":
        s = s1 - s2
        return ("in", s), bool(s)
    if k1 == "notin" and k2 == "in":
        s = s2 - s1
        return ("in", s), bool(s)
    return ("notin", s1 | s2), True


def tok_join(a, b):
    if a is None or b is None:
        return None
    if a[0] == "in" and b[0] == "in":
        return ("in", a[1] | b[1])
    if a[0] == "notin" and b[0] == "notin":
        return ("notin", a[1] & b[1])
    if a[0] == "in":
        a, b = b, a
    return ("notin", a[1] - b[1])


class State:
    __slots__ = ("env", "trail", "parsed", "deep")

    def __init__(self, env, trail=(), parsed=(), deep=(False, False)):
        self.env = env
        self.trail = trail
        self.parsed = parsed      # ((hid, cursor value), callee): sub-parses already started from that very cursor on this path
        self.deep = deep          # (a sub-parse that can nest the enclosing construct has returned, the last callee's Err may come from below such a parse)

    def set(self, hid, v):
        e = dict(self.env)
        e[hid] = v
        return State(e, self.trail, self.parsed, self.deep)

    def note(self, s):
        t = self.trail + (s,)
        return State(self.env, t[-14:], self.parsed, self.deep)

    def did_parse(self, key, cal):
        return State(self.env, self.trail, (self.parsed + ((key, cal),))[-6:], self.deep)

    def with_deep(self, d):
        return State(self.env, self.trail, self.parsed, d)

    def key(self):
        return (tuple(sorted((k, v) for k, v in self.env.items() if v != OPAQUE)), self.deep)


def dedupe(outs):
    seen = {}
    for v, st in outs:
        k = (v, st.key())
        if k not in seen:
            seen[k] = (v, st)
    res = list(seen.values())
    if len(res) > MAX_STATES:
        raise TooManyStates(len(res))
    return res


_MEMO = {}


def _memo(f):
    def g(*ns):
        k = (f.__name__,) + tuple(id(n) for n in ns)
        if k not in _MEMO:
            _MEMO[k] = (ns, f(*ns))
        return _MEMO[k][1]
    return g


class TooManyStates(Exception):
    pass


# ------------------------------------------------------------------ interpreter

class Frame:
    def __init__(self, label):
        self.label = label
        self.breaks = []      # (value, state)
        self.continues = []   # state


class Interp:
    def __init__(self, A, fn, entry_tok=None, check_loops=False):
        self.A = A
        self.F = A.F
        self.fn = fn
        self.returns = []
        self.frames = []
        self.parent = {}      # root -> (parent root, delta)
        self.nroot = 0
        self.loop_results = []
        self.check_loops = check_loops
        self.calls = []       # (callee, delta of the ctx argument relative to P) for the recursion rule
        self.inline_depth = 0
        self.record_sites = check_loops
        self.entry_tok = entry_tok

    # ---- roots
    def lift(self, v, to_roots=None):
        """express a cursor value relative to the nearest ancestor root that is not a loop root of a finished loop"""
        return v

    def lift_out(self, v, dead):
        """rewrite roots in `dead` (loop roots of a loop that has been left) to their parents"""
        if v[0] == "c":
            _, r, d, t = v
            while r in dead:
                pr, pd = self.parent[r]
                r, d = pr, compose(pd, d)
            return ("c", r, d, t)
        if v[0] == "t":
            return ("t", tuple(self.lift_out(x, dead) for x in v[1]))
        if v[0] == "r":
            return ("r", self.lift_out(v[1], dead) if v[1] is not None else None, self.lift_out(v[2], dead) if v[2] is not None else None)
        return v

    def join(self, a, b):
        if a is None:
            return b
        if b is None:
            return a
        if a == b:
            return a
        if a[0] != b[0]:
            return self.top_like(a) if a[0] != "o" else self.top_like(b)
        if a[0] == "c":
            ra, rb = a[1], b[1]
            if ra == rb:
                return ("c", ra, join_delta(a[2], b[2]), tok_join(a[3], b[3]))
            # lift both to a common ancestor
            anc = {}
            r, d = ra, a[2]
            while True:
                anc[r] = d
                if r not in self.parent:
                    break
                pr, pd = self.parent[r]
                r, d = pr, compose(pd, d)
            r, d = rb, b[2]
            while True:
                if r in anc:
                    return ("c", r, join_delta(anc[r], d), tok_join(a[3], b[3]))
                if r not in self.parent:
                    break
                pr, pd = self.parent[r]
                r, d = pr, compose(pd, d)
            return TOPC("t1")
        if a[0] == "t":
            if len(a[1]) != len(b[1]):
                return OPAQUE
            return ("t", tuple(self.join(x, y) for x, y in zip(a[1], b[1])))
        if a[0] == "r":
            return ("r", self.join(a[1], b[1]), self.join(a[2], b[2]))
        return OPAQUE

    def top_like(self, v):
        if v[0] == "c":
            return TOPC("t2")
        if v[0] == "t":
            return ("t", tuple(self.top_like(x) for x in v[1]))
        if v[0] == "r":
            return ("r", self.top_like(v[1]) if v[1] else None, self.top_like(v[2]) if v[2] else None)
        return OPAQUE

    # ---- shapes from types (for calls the analysis has no summary for)
    def shape_of_type(self, ty, fill):
        ty = (ty or "").strip()
        if not has_ctx_ty(ty):
            return OPAQUE
        if is_ctx_ty(ty):
            return fill
        if ty.startswith("core::result::Result<"):
            inner = split_generics(ty[len("core::result::Result<"):-1])
            if len(inner) == 2:
                return ("r", self.shape_of_type(inner[0], fill), self.shape_of_type(inner[1], fill))
        if ty.startswith("(") and ty.endswith(")"):
            parts = split_generics(ty[1:-1])
            return ("t", tuple(self.shape_of_type(p, fill) for p in parts))
        return OPAQUE

    # ---- evaluation: returns a list of (value, state) for normal completion
    def ev(self, n, st):
        if n is None or not isinstance(n, dict):
            return [(OPAQUE, st)]
        k = n.get("k")
        m = getattr(self, "ev_" + str(k), None)
        if m is None:
            return self.ev_default(n, st)
        return dedupe(m(n, st))

    def ev_seq(self, items, st):
        """evaluate expressions left to right: list of ([values], state)"""
        outs = [([], st)]
        for it in items:
            nxt = []
            for vals, s in outs:
                for v, s2 in self.ev(it, s):
                    nxt.append((vals + [v], s2))
            outs = nxt
        return outs

    def ev_default(self, n, st):
        from hir import children
        subs = [c for c in children(n) if isinstance(c, dict) and (c.get("k") or "pat" not in c)]
        outs = self.ev_seq(subs, st)
        ty = n.get("ty")
        v = self.shape_of_type(ty, TOPC("t3")) if has_ctx_ty(ty) else OPAQUE
        return [(v, s) for _, s in outs]

    def ev_Lit(self, n, st):
        return [(OPAQUE, st)]

    def ev_Closure(self, n, st):
        self.A.closures[id(n)] = n
        return [(("f", id(n)), st)]

    def ev_Path(self, n, st):
        if n.get("res") == "Local":
            return [(st.env.get(n["hid"], OPAQUE), st)]
        return [(OPAQUE, st)]

    def ev_AddrOf(self, n, st):
        return self.ev(n["e"], st)

    def ev_Cast(self, n, st):
        return self.ev(n["e"], st)

    def ev_TypeAscr(self, n, st):
        return self.ev(n["e"], st)

    def ev_Unary(self, n, st):
        outs = self.ev(n["e"], st)
        if n.get("op") == "Deref":
            return outs
        if n.get("op") == "Not":
            return [((("b", not v[1]) if v[0] == "b" else OPAQUE), s) for v, s in outs]
        return [(OPAQUE, s) for _, s in outs]

    def ev_Tup(self, n, st):
        return [(("t", tuple(vals)), s) for vals, s in self.ev_seq(n["es"], st)]

    def ev_Field(self, n, st):
        out = []
        for v, s in self.ev(n["e"], st):
            if v[0] == "t" and n["name"].isdigit() and int(n["name"]) < len(v[1]):
                out.append((v[1][int(n["name"])], s))
            else:
                out.append((OPAQUE, s))
        return out

    def ev_Struct(self, n, st):
        fields = [fe["e"] for fe in n["fields"]]
        outs = self.ev_seq(fields + ([n["base"]] if n.get("base") else []), st)
        res = []
        for vals, s in outs:
            if is_ctx_ty(n.get("ty")) and n.get("base"):
                b = vals[-1]
                moved = any(fe["name"] == "curr" for fe in n["fields"])
                if b[0] == "c" and not moved:
                    res.append((b, s))
                else:
                    res.append((TOPC("t4"), s))
            elif is_ctx_ty(n.get("ty")):
                res.append((TOPC("t5"), s))
            else:
                res.append((OPAQUE, s))
        return res

    # ---- blocks and statements
    def ev_Block(self, n, st):
        states = [st]
        for stmt in n["stmts"]:
            nxt = []
            for s in states:
                nxt += self.stmt(stmt, s)
            states = [s for _, s in dedupe([(OPAQUE, s) for s in nxt])]
            if not states:
                return []
        if n.get("e") is None:
            return [(OPAQUE, s) for s in states]
        out = []
        for s in states:
            out += self.ev(n["e"], s)
        return out

    def stmt(self, stmt, st):
        k = stmt.get("k")
        if k == "Let":
            if stmt.get("init") is None:
                return [st]
            out = []
            for v, s in self.ev(stmt["init"], st):
                s2 = self.bind(stmt["pat"], v, s)
                if s2 is not None:
                    out.append(s2)
                # `let .. else { diverge }`: the else block leaves; nothing flows on
                if stmt.get("els"):
                    self.ev(stmt["els"], s)
            return out
        if k in ("Semi", "ExprStmt"):
            return [s for _, s in self.ev(stmt["e"], st)]
        if k == "Item":
            return [st]
        return [s for _, s in self.ev(stmt, st)]

    def bind(self, pat, v, st):
        """bind a pattern against a value; None when the pattern cannot match the value"""
        p = pat_strip(pat)
        k = p.get("k")
        if k == "Binding":
            st = st.set(p["hid"], v)
            if p.get("sub"):
                return self.bind(p["sub"], v, st)
            return st
        if k == "Wild":
            return st
        if k == "Tuple":
            if v[0] == "t" and len(v[1]) == len(p["pats"]) and p.get("dd") is None:
                for sp, sv in zip(p["pats"], v[1]):
                    st = self.bind(sp, sv, st)
                    if st is None:
                        return None
                return st
            for b in pat_bindings(p):
                st = st.set(b["hid"], self.unknown_for(b))
            return st
        if k == "TupleStruct":
            path = norm_path(p["path"]) or ""
            if v[0] == "r" and path.endswith(("Result::Ok", "Result::Err")):
                inner = v[1] if path.endswith("Ok") else v[2]
                if inner is None:
                    return None
                return self.bind(p["pats"][0], inner, st) if p["pats"] else st
            for b in pat_bindings(p):
                st = st.set(b["hid"], self.unknown_for(b))
            return st
        if k == "Or":
            # all alternatives bind the same names; take the first that matches
            for alt in p["pats"]:
                s2 = self.bind(alt, v, st)
                if s2 is not None:
                    return s2
            return None
        for b in pat_bindings(p):
            st = st.set(b["hid"], self.unknown_for(b))
        return st

    def unknown_for(self, b):
        return self.shape_of_type(b.get("ty"), TOPC("t6")) if has_ctx_ty(b.get("ty")) else OPAQUE

    # ---- assignments
    def ev_Assign(self, n, st):
        out = []
        l = peel(n["l"])
        for v, s in self.ev(n["r"], st):
            if l.get("k") == "Path" and l.get("res") == "Local":
                out.append((OPAQUE, s.set(l["hid"], v)))
            elif l.get("k") == "Field" and peel(l["e"]).get("k") == "Path" and peel(l["e"]).get("res") == "Local":
                base = peel(l["e"])
                cur = s.env.get(base["hid"], OPAQUE)
                if cur[0] == "c" and l["name"] == "curr":
                    out.append((OPAQUE, s.set(base["hid"], TOPC("t7"))))
                elif cur[0] == "c":
                    out.append((OPAQUE, s.set(base["hid"], ("c", cur[1], cur[2], cur[3]))))
                else:
                    out.append((OPAQUE, s))
            else:
                out.append((OPAQUE, s))
        return out

    def ev_AssignOp(self, n, st):
        out = []
        l = peel(n["l"])
        if l.get("k") == "Path" and l.get("res") == "Local" and n.get("op") in ("BitOr", "BitOrAssign", "BitAnd", "BitAndAssign"):
            for v, s in self.ev(n["r"], st):
                old = s.env.get(l["hid"]) or OPAQUE
                is_or = n["op"].startswith("BitOr")
                new = OPAQUE
                for x in (old, v):
                    if x[0] == "b" and x[1] == is_or:
                        new = ("b", is_or)           # true | _ = true, false & _ = false
                if new == OPAQUE and old[0] == "b" and v[0] == "b":
                    new = ("b", (old[1] or v[1]) if is_or else (old[1] and v[1]))
                out.append((OPAQUE, s.set(l["hid"], new)))
            return out
        for v, s in self.ev(n["r"], st):
            if l.get("k") == "Field" and l["name"] == "curr" and peel(l["e"]).get("k") == "Path":
                base = peel(l["e"])
                cur = s.env.get(base["hid"], OPAQUE)
                if cur[0] == "c":
                    r = peel(n["r"])
                    if n.get("op") in ("Add", "AddAssign") and r.get("k") == "Lit" and isinstance(r.get("v"), int) and r["v"] >= 1:
                        out.append((OPAQUE, s.set(base["hid"], ("c", cur[1], compose(cur[2], min(MAXD, r["v"])), None))))
                    else:
                        out.append((OPAQUE, s.set(base["hid"], TOPC("t8"))))
                    continue
            out.append((OPAQUE, s))
        return out

    # ---- control
    def ev_Ret(self, n, st):
        for v, s in self.ev(n.get("e"), st) if n.get("e") else [(OPAQUE, st)]:
            self.returns.append((v, s))
        return []

    def ev_Try(self, n, st):
        out = []
        for v, s in self.ev(n["e"], st):
            if v[0] == "r":
                if v[2] is not None:
                    self.returns.append((("r", None, v[2]), s.with_deep((s.deep[0] or s.deep[1], False))))
                if v[1] is not None:
                    out.append((v[1], s))
            else:
                out.append((self.shape_of_type(n.get("ty"), TOPC("t9")), s))
        return out

    def ev_Break(self, n, st):
        outs = self.ev(n["e"], st) if n.get("e") else [(OPAQUE, st)]
        fr = self.find_frame(n.get("label"))
        for v, s in outs:
            if fr is not None:
                fr.breaks.append((v, s))
        return []

    def ev_Continue(self, n, st):
        fr = self.find_frame(n.get("label"))
        if fr is not None:
            fr.continues.append(st)
        return []

    def find_frame(self, label):
        for fr in reversed(self.frames):
            if label is None or fr.label == label:
                return fr
        return None

    def ev_If(self, n, st):
        out = []
        for (ts, fs) in [self.branch(n["c"], st)]:
            for s in ts:
                out += self.ev(n["t"], s.note("if@%s" % short(n)))
            for s in fs:
                if n.get("e"):
                    out += self.ev(n["e"], s.note("else@%s" % short(n)))
                else:
                    out.append((OPAQUE, s))
        return out

    def branch(self, c, st):
        """(states in which c holds, states in which it does not)"""
        c0 = peel(c)
        if c0.get("k") == "Unary" and c0.get("op") == "Not":
            t, f = self.branch(c0["e"], st)
            return f, t
        if c0.get("k") == "Binary" and c0.get("op") == "And":
            t1, f1 = self.branch(c0["l"], st)
            ts, fs = [], list(f1)
            for s in t1:
                t2, f2 = self.branch(c0["r"], s)
                ts += t2
                fs += f2
            return ts, fs
        if c0.get("k") == "Binary" and c0.get("op") == "Or":
            t1, f1 = self.branch(c0["l"], st)
            ts, fs = list(t1), []
            for s in f1:
                t2, f2 = self.branch(c0["r"], s)
                ts += t2
                fs += f2
            return ts, fs
        if c0.get("k") == "Path" and c0.get("res") == "Local" and (st.env.get(c0["hid"]) or OPAQUE)[0] == "b":
            return ([st], []) if st.env[c0["hid"]][1] else ([], [st])
        test = self.token_test(c0, st)
        if test is not None:
            hid, names = test
            return self.refine(st, hid, ("in", names)), self.refine(st, hid, ("notin", names))
        if c0.get("k") == "LetCond":
            ts, fs = [], []
            scr = peel(c0["init"])
            th = self.token_scrut(scr)
            if th is not None:
                names = pattern_tokens(c0["pat"], th[1])
                if names is not None:
                    for s in self.refine(st, th[0], ("in", names)):
                        s2 = s
                        for b in pat_bindings(c0["pat"]):
                            s2 = s2.set(b["hid"], OPAQUE)
                        ts.append(s2)
                    return ts, self.refine(st, th[0], ("notin", names))
            for v, s in self.ev(c0["init"], st):
                s2 = self.bind(c0["pat"], v, s)
                if s2 is not None:
                    ts.append(s2)
                fs.append(s)
            return ts, fs
        outs = self.ev(c0, st)
        ss = [s for _, s in outs]
        return ss, ss

    def refine(self, st, hid, fact):
        v = st.env.get(hid)
        if v is None or v[0] != "c":
            return [st]
        t, ok = tok_and(v[3], fact)
        if not ok:
            return []
        return [st.set(hid, ("c", v[1], v[2], t))]

    def token_scrut(self, e):
        """`x.token()` / `x.tokens_lookahead::<N>()` / `x.peek().0` on a local cursor x: (hid of x, kind)"""
        from hir import peel_clone
        e = peel_clone(e)
        if isinstance(e, dict) and e.get("k") == "MethodCall" and e["m"] in ("token", "tokens_lookahead") and \
                (callee(e) or "").startswith(CTX_PATH):
            r = peel(e["recv"])
            if r.get("k") == "Path" and r.get("res") == "Local":
                return r["hid"], e["m"]
        return None

    def token_test(self, c, st, depth=0):
        """a boolean test of the token under a cursor: matches!(x.token(), A | B) (a match with literal true/false arms)
        or `x.token() == &T::A`, or a call of a predicate `fn p(ctx: Context) -> bool` whose body is such a test of its
        parameter: (hid, frozenset of variant names)"""
        if c.get("k") == "Call" and depth < 2 and c.get("ty") == "bool" and len(c["args"]) == 1:
            tgt = self.A.fns.get(callee(c) or "")
            a = peel(c["args"][0])
            if tgt and len(tgt["params"]) == 1 and is_ctx_ty(tgt["params"][0]["ty"]) and a.get("k") == "Path" and a.get("res") == "Local":
                body = peel(fn_body(tgt))
                bs = pat_bindings(tgt["params"][0]["pat"])
                if len(bs) == 1:
                    inner = self.token_test(body, State({bs[0]["hid"]: ("c", "P", "EQ", None)}), depth + 1)
                    if inner is not None and inner[0] == bs[0]["hid"]:
                        return a["hid"], inner[1]
            return None
        if c.get("k") == "Match":
            th = self.token_scrut(c["scrut"])
            if th is None:
                return None
            yes = set()
            for a in c["arms"]:
                b = peel(a["body"])
                if not (b.get("k") == "Lit" and isinstance(b.get("v"), bool)):
                    return None
                if b["v"]:
                    if a.get("guard") is not None:
                        return None
                    names = pattern_tokens(a["pat"], th[1])
                    if names is None:
                        return None
                    yes |= names
            return th[0], frozenset(yes)
        if c.get("k") == "Binary" and c.get("op") == "Eq":
            for x, y in ((c["l"], c["r"]), (c["r"], c["l"])):
                th = self.token_scrut(x)
                if th is not None and th[1] == "token":
                    name = self.token_const(y, st)
                    if name:
                        return th[0], frozenset([name])
        return None

    def token_const(self, e, st):
        e = peel(e)
        if e.get("k") == "Path" and e.get("res") == "Def" and "::Token::" in (norm_path(e.get("path")) or ""):
            return last(e["path"])
        if e.get("k") == "Path" and e.get("res") == "Local":
            v = st.env.get(e["hid"])
            if v and v[0] == "k":
                return v[1]
        return None

    def ev_Match(self, n, st):
        out = []
        tt = self.token_test(n, st)
        if tt is not None:
            # matches!(x.token(), ..) used as a value: one state per outcome, each knowing what the token is
            hid, names = tt
            return [(("b", True), s) for s in self.refine(st, hid, ("in", names))] + \
                   [(("b", False), s) for s in self.refine(st, hid, ("notin", names))]
        th = self.token_scrut(n["scrut"])
        sc0 = peel(n["scrut"])
        if th is None and sc0.get("k") == "Tup" and sc0["es"] and self.token_scrut(sc0["es"][0]) is not None and \
                all(not has_ctx_ty(x.get("ty")) for x in sc0["es"][1:]):
            # `match (x.token(), <something that is not a cursor>)`: the first component of every pattern tests the token
            th = (self.token_scrut(sc0["es"][0])[0], "tuple0")
        if th is not None:
            hid, kind = th
            excluded = frozenset()
            for a in n["arms"]:
                names = pattern_tokens(a["pat"], kind)
                if names is None:
                    cands = [st]                       # a pattern that says nothing about the first token
                elif names == "rest":
                    cands = self.refine(st, hid, ("notin", excluded)) if kind == "token" else [st]
                else:
                    cands = self.refine(st, hid, ("in", names))
                    if kind == "token":
                        cands = [s2 for s in cands for s2 in self.refine(s, hid, ("notin", excluded))]
                for s in cands:
                    for b in pat_bindings(a["pat"]):
                        s = s.set(b["hid"], OPAQUE)
                    s = s.note("arm %s@%s" % (arm_label(a), short(a)))
                    if a.get("guard") is not None:
                        ts, _ = self.branch(a["guard"], s)
                    else:
                        ts = [s]
                    for s2 in ts:
                        out += self.ev(a["body"], s2)
                if names not in (None, "rest") and a.get("guard") is None and kind == "token":
                    excluded = excluded | names
            return out
        for v, s in self.ev(n["scrut"], st):
            for a in n["arms"]:
                s2 = self.bind(a["pat"], v, s)
                if s2 is None:
                    continue
                s2 = s2.note("arm %s@%s" % (arm_label(a), short(a)))
                if a.get("guard") is not None:
                    ts, _ = self.branch(a["guard"], s2)
                else:
                    ts = [s2]
                for s3 in ts:
                    out += self.ev(a["body"], s3)
        return out

    # ---- loops
    def ev_While(self, n, st):
        return self.loop(n, st, n["cond"], n["body"], None)

    def ev_Loop(self, n, st):
        return self.loop(n, st, None, n["body"], n.get("label"))

    def ev_ForLoop(self, n, st):
        # bounded by its iterator: the body runs zero or more times
        outs = self.ev(n["iter"], st)
        res = []
        for _, s in outs:
            res.append((OPAQUE, s))
            carried = assigned_locals(n["body"])
            s_gen = s
            for hid in carried:
                v = s.env.get(hid)
                if v is not None and v[0] == "c":
                    s_gen = s_gen.set(hid, ("c", v[1], 0 if v[2] == "EQ" else v[2], None))
            s2 = s_gen
            for b in pat_bindings(n["pat"]):
                s2 = s2.set(b["hid"], OPAQUE)
            fr = Frame(None)
            self.frames.append(fr)
            body_outs = self.ev(n["body"], s2)
            self.frames.pop()
            for _, s3 in body_outs:
                res.append((OPAQUE, self.weaken(s3, carried, s_gen)))
            for s3 in fr.continues:
                res.append((OPAQUE, self.weaken(s3, carried, s_gen)))
            for v, s3 in fr.breaks:
                res.append((OPAQUE, self.weaken(s3, carried, s_gen)))
        return res

    def weaken(self, st, carried, base):
        for hid in carried:
            v = st.env.get(hid)
            b = base.env.get(hid)
            if v is not None and v[0] == "c" and b is not None and b[0] == "c":
                st = st.set(hid, self.join(("c", v[1], v[2], None), b))
        return st

    def loop(self, n, st, cond, body, label):
        carried_all = assigned_locals(body) | (assigned_locals(cond) if cond else set())
        carried = [h for h in sorted(carried_all) if (st.env.get(h) or OPAQUE)[0] == "c"]
        # booleans and vectors of the enclosing code that the loop changes
        aux = [h for h in sorted(carried_all | mutated_locals(body)) if (st.env.get(h) or OPAQUE)[0] in ("b", "v")]
        # cursors of the enclosing code whose token the loop looks at but which it never moves
        tested = sorted(h for h in token_reads(cond, body) if (st.env.get(h) or OPAQUE)[0] == "c" and h not in carried)
        # entry roots R (the value at loop entry) - used to peel the first iteration, which keeps what is known about the
        # token under the cursor at entry (`expect!(ctx, A | B)` in front of a `while let A = ctx.token()`)
        roots0 = {}
        entry = st
        for h in carried:
            v = st.env[h]
            self.nroot += 1
            r = "L%d:%s" % (self.nroot, h)
            roots0[h] = r
            self.parent[r] = (v[1], 0 if v[2] == "EQ" else v[2])
            entry = entry.set(h, ("c", r, "EQ", v[3]))
        exits = []          # (value, state)
        failures = []

        def one_iteration(h0, collect_exits=True):
            """cond + body once from h0: returns the states at the back edge"""
            if cond is not None:
                ts, fs = self.branch(cond, h0)
                if collect_exits:
                    exits.extend((OPAQUE, s) for s in fs)
            else:
                ts = [h0]
            backs = []
            for t in ts:
                fr = Frame(label)
                self.frames.append(fr)
                try:
                    outs = self.ev(body, t)
                finally:
                    self.frames.pop()
                if collect_exits:
                    exits.extend(fr.breaks)
                backs += [s for _, s in outs] + fr.continues
            return backs

        backs0 = one_iteration(entry)
        dead = set(roots0.values())
        if backs0 and not carried and tested:
            # the loop decides on the token under a cursor that it never moves: whatever makes it go round once makes it
            # go round for ever
            failures.append(("stuck", backs0[0]))
        if backs0 and not carried:
            # not driven by a cursor: nothing to prove here; one more generic pass for the values that leave the loop
            g = entry
            for h in aux:
                g = g.set(h, ("v", 0) if entry.env[h][0] == "v" else OPAQUE)
            one_iteration(g)
        if backs0 and carried:
            # the generic iteration: every carried cursor is at least where the first iteration left it
            roots = {}
            head = entry
            for h in carried:
                d1 = None
                for b_ in backs0:
                    v = b_.env.get(h) or OPAQUE
                    d = v[2] if v[0] == "c" and v[1] == roots0[h] else ("TOP" if v[0] != "c" or v[1] != roots0[h] else v[2])
                    d1 = d if d1 is None else join_delta(d1, d)
                self.nroot += 1
                r = "L%d:%s" % (self.nroot, h)
                roots[h] = r
                # the generic head stands for the head of *any* iteration, the first included
                self.parent[r] = (roots0[h], 0 if d1 in ("EQ", None) else (0 if d1 != "TOP" else "TOP"))
                head = head.set(h, ("c", r, "EQ", None))
            for h in aux:
                head = head.set(h, ("v", 0) if entry.env[h][0] == "v" else OPAQUE)
            dead |= set(roots.values())
            # exits of later iterations are at least d1 further than the entry: a second root whose parent carries d1
            later = {}
            head_later = entry
            for h in carried:
                d1 = None
                for b_ in backs0:
                    v = b_.env.get(h) or OPAQUE
                    d = v[2] if v[0] == "c" and v[1] == roots0[h] else "TOP"
                    d1 = d if d1 is None else join_delta(d1, d)
                self.nroot += 1
                r = "L%d:%s" % (self.nroot, h)
                later[h] = r
                self.parent[r] = (roots0[h], 0 if d1 == "EQ" else d1)
                head_later = head_later.set(h, ("c", r, "EQ", None))
            for h in aux:
                if entry.env[h][0] == "v":
                    head_later = head_later.set(h, ("v", min([(b_.env.get(h) or ("v", 0))[1] if (b_.env.get(h) or OPAQUE)[0] == "v" else 0 for b_ in backs0])))
                else:
                    head_later = head_later.set(h, OPAQUE)
            dead |= set(later.values())
            dp = (entry.deep[0] or any(b_.deep[0] for b_ in backs0), entry.deep[1] or any(b_.deep[1] for b_ in backs0))
            head_later = head_later.with_deep(dp)
            head = head.with_deep(dp)
            seen = set()
            on_stack = set()

            def iterate(h0, depth, eof, rts, collect):
                k = (h0.key(), eof)
                if k in on_stack and not eof:
                    failures.append(("stuck", h0))
                    return
                if k in seen:
                    return
                seen.add(k)
                on_stack.add(k)
                try:
                    for b in one_iteration(h0, collect_exits=collect and not eof):
                        if eof:
                            failures.append(("eof", b))
                            continue
                        if any((b.env.get(h) or OPAQUE)[0] == "c" and b.env[h][1] == rts[h] and is_plus(b.env[h][2]) for h in carried):
                            continue
                        if depth < 2:
                            iterate(b, depth + 1, False, rts, collect)
                        else:
                            failures.append(("stuck", b))
                finally:
                    on_stack.discard(k)

            # (a) progress, for the head of any iteration (exits of this run are not used: they are covered below)
            rec = self.record_sites
            self.record_sites = False
            iterate(head, 0, False, roots, False)
            # (b) at the end of the input the loop must be left
            if self.check_loops:
                h_eof = head
                for h in carried:
                    h_eof = h_eof.set(h, ("c", roots[h], "EQ", ("in", frozenset(["EOF"]))))
                iterate(h_eof, 0, True, roots, False)
            self.record_sites = rec
            # values that leave the loop after the first iteration (vectors only grow by what every iteration adds: if an
            # iteration can leave fewer elements than it found, start again from that)
            for _ in range(4):
                seen.clear()
                fl_before = len(failures)
                ex_before = len(exits)
                shrunk = False
                backs_seen = []
                orig_one = one_iteration

                iterate(head_later, 0, False, later, True)
                del failures[fl_before:]
                for h in aux:
                    if head_later.env[h][0] != "v":
                        continue
                    low = min([s_.env[h][1] for _, s_ in exits[ex_before:] if (s_.env.get(h) or OPAQUE)[0] == "v"] + [head_later.env[h][1]])
                    if low < head_later.env[h][1]:
                        head_later = head_later.set(h, ("v", low))
                        shrunk = True
                if not shrunk:
                    break
                del exits[ex_before:]
        self.loop_results.append(dict(node=n, carried=[st_name(self.fn, h) for h in carried + tested], failures=failures,
                                      token_driven=bool(carried) or bool(tested)))
        res = []
        for v, s in exits:
            e = {k: self.lift_out(x, dead) for k, x in s.env.items()}
            res.append((self.lift_out(v, dead) if v != OPAQUE else v, State(e, s.trail, s.parsed, s.deep)))
        return dedupe(res)

    # ---- calls
    def ev_Call(self, n, st):
        c = callee(n) or ""
        outs = self.ev_seq(n["args"], st)
        res = []
        f = peel(n.get("f") or {})
        if not c and f.get("k") == "Path" and f.get("res") == "Local":
            # a call of a local callable: a closure defined here is evaluated; a callable *parameter* is assumed not to
            # move the cursor backwards (every callable passed for it is checked against that: Analysis.callable_checks)
            for vals, s in outs:
                fv = s.env.get(f["hid"])
                if fv and fv[0] == "f" and fv[1] in self.A.closures and self.inline_depth < 4:
                    cl = self.A.closures[fv[1]]
                    fake = dict(params=[dict(pat=p_, ty=p_.get("ty", "")) for p_ in cl["params"]], body=cl["body"], _path="closure")
                    sub_outs = self.inline_call(n, fake, n["args"], vals, s, extra_env=s.env)
                    res += sub_outs
                    continue
                a = next((v for v in vals if v[0] == "c"), None)
                fill = ("c", a[1], compose(a[2], 0), None) if a is not None else TOPC("callable")
                self.A.assumed_callables.add(st_name(self.fn, f["hid"]))
                res.append((self.shape_of_type(n.get("ty"), fill), s))
            return res
        for vals, s in outs:
            if c.endswith("vec::Vec::new") or c.endswith("vec::Vec::<T>::new"):
                res.append((("v", 0), s))
            elif c.endswith("core::result::Result::Ok") and vals:
                res.append((("r", vals[0], None), s))
            elif c.endswith("core::result::Result::Err") and vals:
                res.append((("r", None, vals[0]), s))
            else:
                res += self.apply(n, c, n["args"], vals, s)
        return res

    VEC_KEEP = ("len", "is_empty", "iter", "last", "first", "get", "clone", "contains", "as_slice", "to_vec", "iter_mut", "last_mut", "first_mut")

    def ev_MethodCall(self, n, st):
        c = callee(n) or ""
        r0 = peel(n["recv"])
        if r0.get("k") == "Path" and r0.get("res") == "Local" and (st.env.get(r0["hid"]) or OPAQUE)[0] == "v":
            # a vector built here: how many elements it holds at least
            res = []
            for vals, s in self.ev_seq(n["args"], st):
                cur = s.env.get(r0["hid"]) or OPAQUE
                ln = cur[1] if cur[0] == "v" else 0
                m = n["m"]
                if m == "push":
                    s = s.set(r0["hid"], ("v", min(MAXD, ln + 1)))
                elif m == "insert":
                    s = s.set(r0["hid"], ("v", min(MAXD, ln + 1)))
                elif m in ("remove", "swap_remove"):
                    a = peel(n["args"][0]) if n["args"] else {}
                    idx = a.get("v") if a.get("k") == "Lit" and isinstance(a.get("v"), int) else None
                    if self.record_sites:
                        self.A.note_site(self.fn, n, "%s.%s(%s)" % (r0["name"], m, idx if idx is not None else ".."),
                                         idx is not None and ln > idx, s)
                    s = s.set(r0["hid"], ("v", max(0, ln - 1)))
                elif m == "pop":
                    s = s.set(r0["hid"], ("v", max(0, ln - 1)))
                elif m in self.VEC_KEEP:
                    pass
                else:
                    s = s.set(r0["hid"], ("v", 0))
                res.append((self.shape_of_type(n.get("ty"), TOPC("vecm")) if has_ctx_ty(n.get("ty")) else OPAQUE, s))
            return res
        args = [n["recv"]] + n["args"]
        outs = self.ev_seq(args, st)
        res = []
        for vals, s in outs:
            res += self.apply(n, c, args, vals, s)
        return res

    def apply(self, n, c, arg_nodes, vals, st):
        A = self.A
        ty = n.get("ty")
        if c == CTX_PATH + "skip" and vals and vals[0][0] == "c":
            a = peel(arg_nodes[1]) if len(arg_nodes) > 1 else {}
            lit = a.get("v") if a.get("k") == "Lit" and isinstance(a.get("v"), int) else None
            if lit is None and a.get("k") == "Path" and a.get("res") == "Local":
                kv = st.env.get(a["hid"])
                lit = kv[1] if kv and kv[0] == "n" else None
            d = min(MAXD, lit) if (lit is not None and lit >= 0 and A.skip_ok) else 0 if A.skip_ok else "TOP"
            v = vals[0]
            return [(("c", v[1], compose(v[2], d), None), st)]
        if c == CTX_PATH + "prev" and vals and vals[0][0] == "c":
            # one token back, then further back over comments.  Every cursor at rest is on a non-comment token (all
            # movement goes through skip(), whose last loop passes comments - C14's CURSOR obligations), so from a position
            # strictly behind a root the walk back stops at the root at the latest
            v = vals[0]
            if is_plus(v[2]) and A.prev_ok:
                return [(("c", v[1], v[2] - 1, None), st)]
            if self.check_loops:
                A.prev_unsafe.append((self.fn.get("_path", "?"), line_of(n)))
            return [(TOPC("prev"), st)]
        if c == CTX_PATH + "new":
            return [(("c", "NEW", "EQ", None), st)]
        if c in A.inline and self.inline_depth < 4 and vals and vals[0][0] == "c":
            return self.inline_call(n, A.inline[c], arg_nodes, vals, st)
        if c in A.summaries:
            sm = A.summaries[c]
            A.reading.add(("plain", c))
            idx = sm["ctx_index"]
            if idx is not None and idx < len(vals) and vals[idx][0] == "c":
                a = vals[idx]
                self.calls.append((c, a))
                an = peel(arg_nodes[idx])
                if an.get("k") == "Path" and an.get("res") == "Local" and self.inline_depth == 0:
                    key = (an["hid"], a)
                    if self.record_sites:
                        for k0, c0 in st.parsed:
                            if k0 == key:
                                A.reparse.setdefault((self.fn.get("_path", "?"), c0, c), (line_of(n), n))
                    st = st.did_parse(key, c)
                dp = A.deepness.get(c, (False, False))
                st = st.with_deep((st.deep[0] or dp[0] or c in A.recursive, dp[1] or c in A.recursive))
                ret = sm["ret"]
                if ret is None:
                    return [(OPAQUE, st)]
                if a[3] is not None:
                    # what is known about the token under the cursor selects the callee's paths: a summary per (callee, fact)
                    ret = A.specialised(c, a[3])
                    if ret == "none":
                        return []
                at_eof = a[3] is not None and a[3][0] == "in" and a[3][1] <= frozenset(["EOF"])
                v = self.instantiate(ret, a)
                if at_eof and not sm["eof_ok"] and v[0] == "r":
                    v = ("r", None, v[2])
                if v[0] == "r" and v[1] is None and v[2] is None:
                    return []
                return [(v, st)]
        if has_ctx_ty(ty):
            return [(self.shape_of_type(ty, TOPC("t10")), st)]
        return [(OPAQUE, st)]

    def instantiate(self, v, a):
        """a summary value (relative to the callee's parameter P) at a call whose argument is `a`"""
        if v is None:
            return None
        if v[0] == "c":
            if v[1] == "P":
                d = compose(a[2], v[2])
                return ("c", a[1], d, a[3] if v[2] == "EQ" else None)
            return TOPC("t11")
        if v[0] == "t":
            return ("t", tuple(self.instantiate(x, a) for x in v[1]))
        if v[0] == "r":
            return ("r", self.instantiate(v[1], a), self.instantiate(v[2], a))
        return v

    def inline_call(self, n, fn, arg_nodes, vals, st, extra_env=None):
        env = dict(extra_env or {})
        for prm, node, v in zip(fn["params"], arg_nodes, vals):
            bs = pat_bindings(prm["pat"])
            if len(bs) != 1:
                continue
            val = v
            if v == OPAQUE:
                name = self.token_const(node, st)
                if name:
                    val = ("k", name)
                else:
                    pn = peel(node)
                    if pn.get("k") == "Lit" and isinstance(pn.get("v"), int) and not isinstance(pn.get("v"), bool):
                        val = ("n", pn["v"])
            env[bs[0]["hid"]] = val
        sub = Interp(self.A, fn, check_loops=False)
        before = set(self.parent)
        sub.parent = self.parent
        sub.nroot = self.nroot + 1000 * (self.inline_depth + 1)
        sub.inline_depth = self.inline_depth + 1
        sub.record_sites = False
        outs = sub.ev(fn_body(fn), State(env, st.trail))
        allv = [v for v, _ in outs] + [v for v, _ in sub.returns]
        own = {r for r in sub.parent if r not in before}
        allv = [sub.lift_out(v, own) for v in allv]
        self.calls += sub.calls
        res = []
        seen = set()
        for v in allv:
            if v == OPAQUE and has_ctx_ty(n.get("ty")):
                v = self.shape_of_type(n.get("ty"), TOPC("t12"))
            if v not in seen:
                seen.add(v)
                res.append((v, st))
        return res or [(OPAQUE, st)]


def split_generics(s):
    parts, depth, cur = [], 0, ""
    for ch in s:
        if ch in "<([":
            depth += 1
        elif ch in ">)]":
            depth -= 1
        if ch == "," and depth == 0:
            parts.append(cur.strip())
            cur = ""
        else:
            cur += ch
    if cur.strip():
        parts.append(cur.strip())
    return parts


def pattern_tokens(pat, kind):
    """the Token variants a pattern over `x.token()` (kind token) or over the lookahead array (first element) admits:
    frozenset of names, "rest" for a catch-all, None when nothing can be said"""
    alts = pat_alternatives(pat)
    names = set()
    for alt in alts:
        p = pat_strip(alt)
        if p.get("k") == "Binding" and p.get("sub"):
            p = pat_strip(p["sub"])
        if kind == "tuple0":
            if p.get("k") == "Tuple" and p["pats"] and p.get("dd") is None:
                p = pat_strip(p["pats"][0])
                if p.get("k") == "Binding" and p.get("sub"):
                    p = pat_strip(p["sub"])
                if p.get("k") == "Or":
                    for q in pat_alternatives(p):
                        v = pat_variant(q)
                        if not v or "::Token::" not in v:
                            return None
                        names.add(last(v))
                    continue
                if p.get("k") in ("Wild", "Binding"):
                    return None
            elif p.get("k") in ("Wild", "Binding"):
                return "rest" if len(alts) == 1 else None
            else:
                return None
        if kind == "tokens_lookahead":
            if p.get("k") == "Slice":
                first = (p.get("before") or []) + ([p["mid"]] if p.get("mid") else []) + (p.get("after") or [])
                if not first:
                    return None
                p = pat_strip(first[0])
                if p.get("k") == "Binding" and p.get("sub"):
                    p = pat_strip(p["sub"])
                if p.get("k") == "Or":
                    for q in pat_alternatives(p):
                        v = pat_variant(q)
                        if not v or "::Token::" not in v:
                            return None
                        names.add(last(v))
                    continue
            elif p.get("k") in ("Wild", "Binding"):
                return "rest" if len(alts) == 1 else None
            else:
                return None
        if p.get("k") in ("Wild",) or (p.get("k") == "Binding" and not p.get("sub")):
            return "rest" if len(alts) == 1 else None
        v = pat_variant(p)
        if not v or "::Token::" not in v:
            return None
        names.add(last(v))
    return frozenset(names)


@_memo
def token_reads(*ns):
    """hids of local cursors whose token()/tokens_lookahead() is read under the given nodes"""
    out = set()
    for n in ns:
        if n is None:
            continue
        for x in nodes(n, "MethodCall"):
            if x["m"] in ("token", "tokens_lookahead", "peek") and (callee(x) or "").startswith(CTX_PATH):
                r = peel(x["recv"])
                if r.get("k") == "Path" and r.get("res") == "Local":
                    out.add(r["hid"])
    return out


@_memo
def mutated_locals(n):
    """locals that are the receiver of a method call which may change them (vectors: push / pop / ..)"""
    out = set()
    for x in nodes(n, "MethodCall"):
        r = peel(x["recv"])
        if r.get("k") == "Path" and r.get("res") == "Local" and x["m"] not in Interp.VEC_KEEP:
            out.add(r["hid"])
    return out


@_memo
def assigned_locals(n):
    out = set()
    for x in nodes(n):
        if x.get("k") in ("Assign", "AssignOp"):
            l = peel(x["l"])
            while l.get("k") == "Field":
                l = peel(l["e"])
            if l.get("k") == "Path" and l.get("res") == "Local":
                out.add(l["hid"])
    return out


def short(n):
    sp = n.get("sp") or ""
    parts = sp.split(":")
    return parts[1] if len(parts) > 1 else "?"


def arm_label(a):
    from hir import ppat
    return ppat(a["pat"])[:28]


_LB = {}


def st_name(fn, hid):
    from hir import local_bindings
    k = id(fn)
    if k not in _LB:
        _LB[k] = (fn, local_bindings(fn))
    b = _LB[k][1].get(hid)
    return b["name"] if b else hid


# ------------------------------------------------------------------ whole-crate analysis

class Analysis:
    def __init__(self, F, crate="sylt_parser"):
        self.F = F
        self.fns = {}
        for fn in F.own_fns([crate]):
            p = fn["_path"]
            if "::test" in p or fn.get("body") is None:
                continue
            self.fns[p] = fn
        # methods of Context are inlined; every other function with a Context parameter gets a summary
        self.inline = {}
        self.cands = {}
        for p, fn in self.fns.items():
            idx = None
            for i, prm in enumerate(fn["params"]):
                if is_ctx_ty(prm["ty"]):
                    idx = i if idx is None else idx
            if idx is None:
                continue
            if p.startswith(CTX_PATH):
                self.inline[p] = fn
            else:
                self.cands[p] = (fn, idx)
        self.skip_ok, self.skip_text = check_skip(F)
        self.inline.pop(CTX_PATH + "skip", None)
        self.prev_ok, self.prev_text = check_prev(F)
        self.inline.pop(CTX_PATH + "prev", None)
        self.summaries = {}
        self.closures = {}
        self.spec = {}
        self.spec_new = False
        self.in_fixpoint = False
        self.sites = {}
        self.reparse = {}
        self.deepness = {}
        self.recursive = set()
        self.reading = set()
        self.prev_unsafe = []
        self.assumed_callables = set()
        for p, (fn, idx) in self.cands.items():
            shape = Interp(self, fn).shape_of_type(fn.get("ret") or "", ("c", "P", MAXD, None))
            self.summaries[p] = dict(ctx_index=idx, ret=shape if shape != OPAQUE else None, eof_ok=False)
        self.problems = []
        self.fixpoint()

    def note_site(self, fn, node, what, ok, st):
        k = (fn.get("_path", "?"), what)
        e = self.sites.setdefault(k, dict(ok=True, where=line_of(node), trails=[]))
        if not ok:
            e["ok"] = False
            if len(e["trails"]) < 3:
                e["trails"].append(" -> ".join(st.trail[-8:]))

    def specialised(self, p, tok):
        """what `p` returns when the token under its cursor satisfies `tok`: a summary per (callee, fact), part of the
        same greatest fixed point as the plain summaries ("none" = no return at all, the optimistic start)"""
        k = (p, tok)
        self.reading.add(("spec", p, tok))
        self.reading.add(("plain", p))
        if k not in self.spec:
            if not self.in_fixpoint:
                return self.summaries[p]["ret"]      # a fact first met after the fixed point: the plain summary is sound
            self.spec[k] = "none"
            self.spec_new = True
        return self.spec[k]

    def run_fn(self, p, entry_tok=None, check_loops=False):
        fn, idx = self.cands[p]
        it = Interp(self, fn, check_loops=check_loops)
        env = {}
        for i, prm in enumerate(fn["params"]):
            for b in pat_bindings(prm["pat"]):
                env[b["hid"]] = ("c", "P", "EQ", entry_tok) if i == idx else (self_unknown(it, b))
        outs = it.ev(fn_body(fn), State(env))
        rets = [it.lift_out(v, set(it.parent)) for v in [v for v, _ in outs] + [v for v, _ in it.returns]]
        return it, rets

    def _joined(self, it, rets):
        joined = None
        for v in rets:
            if v == OPAQUE:
                continue
            joined = it.join(joined, v) if joined is not None else v
        return joined

    def fixpoint(self):
        self.rounds = 0
        self.in_fixpoint = True
        try:
            self.fixpoint_()
        finally:
            self.in_fixpoint = False
        self.compute_deepness()

    def compute_deepness(self):
        """which parsing functions can return (Ok / Err) from below a sub-parse that may nest the same construct again:
        the functions on a cycle of the call graph, and - least fixed point - whatever returns after having called one"""
        graph = {}
        for p in self.cands:
            try:
                it, _ = self.run_fn(p)
            except TooManyStates:
                continue
            graph[p] = {c for c, _ in it.calls}
        rec = set()
        for p in graph:
            seen, todo = set(), list(graph[p])
            while todo:
                q = todo.pop()
                if q == p:
                    rec.add(p)
                    break
                if q not in seen:
                    seen.add(q)
                    todo += list(graph.get(q, ()))
        self.recursive = rec
        self.deepness = {p: (False, False) for p in self.cands}
        for _ in range(10):
            changed = False
            for p in sorted(self.cands):
                fn, idx = self.cands[p]
                it = Interp(self, fn)
                env = {}
                for i, prm in enumerate(fn["params"]):
                    for b in pat_bindings(prm["pat"]):
                        env[b["hid"]] = ("c", "P", "EQ", None) if i == idx else self_unknown(it, b)
                try:
                    outs = it.ev(fn_body(fn), State(env))
                except TooManyStates:
                    continue
                ok = err = False
                for v, s_ in list(outs) + it.returns:
                    if v[0] == "r":
                        if v[1] is not None and s_.deep[0]:
                            ok = True
                        if v[2] is not None and (s_.deep[0] or s_.deep[1]):
                            err = True
                    elif s_.deep[0]:
                        ok = True
                new = (self.deepness[p][0] or ok, self.deepness[p][1] or err)
                if new != self.deepness[p]:
                    self.deepness[p] = new
                    changed = True
            if not changed:
                break

    def fixpoint_(self):
        """chaotic iteration: an entry (function, or function + token fact) is recomputed when an entry it read changed"""
        self.deps = {}         # entry -> set of entries read when it was last computed
        dirty = set(("plain", p) for p in self.cands)
        for rnd in range(60):
            self.spec_new = False
            changed = set()
            for key in sorted(dirty, key=str):
                self.reading = set()
                if key[0] == "plain":
                    p = key[1]
                    try:
                        it, rets = self.run_fn(p)
                        it2, rets_eof = self.run_fn(p, entry_tok=("in", frozenset(["EOF"])))
                    except TooManyStates as ex:
                        self.problems.append("%s: too many abstract states (%s)" % (p, ex))
                        cur = self.summaries[p]
                        new = dict(cur, ret=Interp(self, self.cands[p][0]).top_like(cur["ret"]) if cur["ret"] else None, eof_ok=True)
                        if new != cur:
                            self.summaries[p] = new
                            changed.add(key)
                        continue
                    joined = self._joined(it, rets)
                    eof_ok = any(v[0] == "r" and v[1] is not None for v in rets_eof) or any(v[0] in ("c", "t") for v in rets_eof)
                    cur = self.summaries[p]
                    new_ret = joined if cur["ret"] is not None else None
                    if joined is None and cur["ret"] is not None:
                        new_ret = cur["ret"]
                    if new_ret is not None and cur["ret"] is not None and new_ret[0] != cur["ret"][0]:
                        new_ret = it.top_like(cur["ret"])
                    new = dict(ctx_index=cur["ctx_index"], ret=new_ret, eof_ok=eof_ok)
                    if new != cur:
                        self.summaries[p] = new
                        changed.add(key)
                else:
                    _, p, tok = key
                    plain = self.summaries[p]["ret"]
                    try:
                        it, rets = self.run_fn(p, entry_tok=tok)
                        joined = self._joined(it, rets)
                    except TooManyStates:
                        joined = plain
                    if joined is None:
                        new = "none"
                    elif plain is not None and joined[0] != plain[0]:
                        new = plain
                    else:
                        new = joined
                    if new != self.spec[(p, tok)]:
                        self.spec[(p, tok)] = new
                        changed.add(key)
                self.deps[key] = self.reading
            self.reading = set()
            dirty = set(k for k, ds in self.deps.items() if ds & changed)
            dirty |= set(("spec", p, tok) for (p, tok) in self.spec if ("spec", p, tok) not in self.deps)
            if not dirty:
                # the loop checks and callback checks meet further (callee, fact) pairs: they belong to the same fixed point
                self.loops()
                self.callable_checks()
                self.prev_unsafe = []
                self.sites = {}
                self.reparse = {}
                dirty = set(("spec", p, tok) for (p, tok) in self.spec if ("spec", p, tok) not in self.deps)
                if not dirty:
                    self.rounds = rnd + 1
                    return
        self.rounds = 60
        self.problems.append("summaries did not stabilise in 60 rounds")

    def zero_progress_cycles(self):
        """cycles of parsing calls that hand on the very cursor they were entered with (per token fact known at the call):
        recursion that can go round without consuming input never ends.  Nodes are (function, token fact); an edge is a call
        whose cursor argument is not strictly behind the caller's own parameter."""
        graph = {}
        todo = [(p, None) for p in sorted(self.cands)]
        while todo:
            n = todo.pop()
            if n in graph:
                continue
            try:
                it, _ = self.run_fn(n[0], entry_tok=n[1])
            except TooManyStates:
                graph[n] = set()
                continue
            es = set()
            for c, a in it.calls:
                a2 = it.lift_out(a, set(it.parent))
                if a2[1] == "P" and a2[2] != "TOP" and not is_plus(a2[2]) and c in self.cands:
                    es.add((c, a2[3]))
            graph[n] = es
            todo += [m for m in es if m not in graph]
        color, cycles = {}, []

        def dfs(n, stack):
            color[n] = 1
            for m in sorted(graph.get(n, ()), key=str):
                if color.get(m) == 1:
                    cycles.append(stack[stack.index(m):] + [m])
                elif color.get(m) is None:
                    dfs(m, stack + [m])
            color[n] = 2
        for n in sorted(graph, key=str):
            if color.get(n) is None:
                dfs(n, [n])
        return len(graph), cycles

    def item_callbacks_advance(self):
        """True when, at every call of parse_sep_end_by from outside itself, the `item` callback (last parameter) always
        returns a cursor strictly behind its argument on Ok; otherwise a description of the offender"""
        tgt = self.fns.get("sylt_parser::parse_sep_end_by")
        if not tgt:
            return "parse_sep_end_by not found"
        idx = len(tgt["params"]) - 1
        n = 0
        for p in sorted(self.fns):
            if p == "sylt_parser::parse_sep_end_by":
                continue
            fn = self.fns[p]
            for c in nodes(fn_body(fn), "Call"):
                if callee(c) != "sylt_parser::parse_sep_end_by" or len(c["args"]) <= idx:
                    continue
                n += 1
                a0 = peel(c["args"][idx])
                q = norm_path(a0.get("path")) if a0.get("k") == "Path" and a0.get("res") == "Def" else None
                sm = self.summaries.get(q)
                okv = sm["ret"][1] if sm and sm["ret"] and sm["ret"][0] == "r" else None
                ctxv = okv[1][0] if okv and okv[0] == "t" else okv
                if not (ctxv and ctxv[0] == "c" and is_plus(ctxv[2])):
                    return "%s passes %s" % (last(p), pp(a0)[:40])
        return True if n else "no call of parse_sep_end_by"

    def call_graph(self):
        g = {}
        for p in self.cands:
            try:
                it, _ = self.run_fn(p)
            except TooManyStates:
                continue
            g[p] = {c for c, _ in it.calls}
        return g

    def retry_outcome(self, fn, c0, second_call):
        """is the second sub-parse only started after the first one failed ("err"), only after it succeeded ("ok"), or
        either way ("any")?  Decided from where the second call stands: inside an arm / branch on the first call's result"""
        for m, parents in walk(fn_body(fn)):
            if m.get("k") == "Match" and any(callee(x) == c0 for x in nodes(m["scrut"]) if x.get("k") == "Call"):
                for a in m["arms"]:
                    if any(x is second_call for x in nodes(a["body"])):
                        vs = {pat_variant(alt) or "" for alt in pat_alternatives(a["pat"])}
                        if all(v.endswith("Result::Err") for v in vs):
                            return "err"
                        if all(v.endswith("Result::Ok") for v in vs):
                            return "ok"
            if m.get("k") == "If" and peel(m["c"]).get("k") == "LetCond" and \
                    any(callee(x) == c0 for x in nodes(peel(m["c"])["init"]) if x.get("k") == "Call"):
                v = pat_variant(peel(m["c"])["pat"]) or ""
                in_then = any(x is second_call for x in nodes(m["t"]))
                in_else = m.get("e") is not None and any(x is second_call for x in nodes(m["e"]))
                if v.endswith("Result::Ok"):
                    return "ok" if in_then else "err" if in_else else "any"
                if v.endswith("Result::Err"):
                    return "err" if in_then else "ok" if in_else else "any"
        return "any"

    def callable_checks(self):
        """every callable handed to a parameter of type `impl Fn(Context) -> ..`: (caller, what, ok, detail)"""
        out = []
        for p in sorted(self.fns):
            fn = self.fns[p]
            body = fn_body(fn)
            lets = {}
            for x in nodes(body, "Block"):
                for stt in x["stmts"]:
                    if stt.get("k") == "Let" and stt.get("init") is not None and stt["pat"].get("k") == "Binding":
                        lets[stt["pat"]["hid"]] = stt["init"]
            for c in nodes(body, "Call"):
                cal = callee(c)
                tgt = self.fns.get(cal or "")
                if not tgt:
                    continue
                for prm, a in zip(tgt["params"], c["args"]):
                    if "Fn(Context" not in prm["ty"] and "Fn(sylt_parser::Context" not in prm["ty"]:
                        continue
                    a0 = peel(a)
                    what, ok, detail = pp(a0)[:60], False, "cannot resolve the callable"
                    if a0.get("k") == "Path" and a0.get("res") == "Def" and norm_path(a0.get("path")) in self.summaries:
                        sm = self.summaries[norm_path(a0["path"])]
                        bad = _tops(sm["ret"])
                        ok, detail = not bad, "summary %s" % show(sm["ret"])
                    elif a0.get("k") == "Path" and a0.get("res") == "Local" and peel(lets.get(a0["hid"]) or {}).get("k") == "Closure":
                        cl = peel(lets[a0["hid"]])
                        fake = dict(params=[dict(pat=p_, ty=p_.get("ty", "")) for p_ in cl["params"]], body=cl["body"], _path=p)
                        it = Interp(self, fake)
                        env = {}
                        for p_ in cl["params"]:
                            for b in pat_bindings(p_):
                                env[b["hid"]] = ("c", "P", "EQ", None) if is_ctx_ty(b.get("ty")) else OPAQUE
                        try:
                            outs = it.ev(cl["body"], State(env))
                            vals = [it.lift_out(v, set(it.parent)) for v in [v for v, _ in outs] + [v for v, _ in it.returns]]
                            bad = [v for v in vals if _tops(v)]
                            ok, detail = not bad, "closure yields %s" % sorted({show(v) for v in vals})
                        except TooManyStates:
                            ok, detail = False, "too many abstract states"
                    elif a0.get("k") == "Path" and a0.get("res") == "Local" and "Fn(" in (a0.get("ty") or ""):
                        ok, detail = True, "forwarded callable parameter"
                    out.append((p, last(cal, 1), what, ok, detail, line_of(c)))
        return out

    def loops(self):
        """[(fn path, ordinal, loop node, result dict)] for every loop of the crate (non-test code)"""
        out = []
        for p in sorted(self.fns):
            fn = self.fns[p]
            loop_nodes = [x for x in nodes(fn_body(fn)) if x.get("k") in ("Loop", "While")]
            # (functions without loops are interpreted as well: vector bounds, repeated sub-parses, prev() callers)
            if not loop_nodes and p not in self.cands:
                continue
            results = {}
            if p in self.cands:
                try:
                    it, _ = self.run_fn(p, check_loops=True)
                    for r in it.loop_results:
                        results.setdefault(id(r["node"]), []).append(r)
                except TooManyStates as ex:
                    self.problems.append("%s: too many abstract states (%s)" % (p, ex))
            elif not any(is_ctx_ty(prm["ty"]) for prm in fn["params"]):
                it = Interp(self, fn, check_loops=True)
                try:
                    it.ev(fn_body(fn), State({}))
                    for r in it.loop_results:
                        results.setdefault(id(r["node"]), []).append(r)
                except TooManyStates as ex:
                    self.problems.append("%s: too many abstract states (%s)" % (p, ex))
            elif p in self.inline or p in (CTX_PATH + "skip", CTX_PATH + "prev"):
                fn_ = fn
                it = Interp(self, fn_, check_loops=True)
                env = {}
                for prm in fn_["params"]:
                    for b in pat_bindings(prm["pat"]):
                        env[b["hid"]] = ("c", "P", "EQ", None) if is_ctx_ty(prm["ty"]) else OPAQUE
                try:
                    it.ev(fn_body(fn_), State(env))
                    for r in it.loop_results:
                        results.setdefault(id(r["node"]), []).append(r)
                except TooManyStates as ex:
                    self.problems.append("%s: too many abstract states (%s)" % (p, ex))
            for i, ln in enumerate(loop_nodes):
                out.append((p, i + 1, ln, results.get(id(ln))))
        return out


def self_unknown(it, b):
    return it.shape_of_type(b.get("ty"), TOPC("t13")) if has_ctx_ty(b.get("ty")) else OPAQUE


def check_skip(F):
    """Context::skip(n) moves the cursor at least n tokens: `while skipped < n { if .. { skipped += 1 } new.curr += 1 }` -
    the counter grows by at most one per iteration and the cursor by exactly one, unconditionally"""
    fn = F.fns.get(CTX_PATH + "skip")
    if not fn or not fn.get("body"):
        return False, "Context::skip not found"
    body = fn_body(fn)
    nparam = None
    for prm in fn["params"]:
        if prm["ty"].strip() == "usize":
            bs = pat_bindings(prm["pat"])
            nparam = bs[0]["hid"] if bs else None
    for w in nodes(body, "While"):
        c = peel(w["cond"])
        if c.get("k") == "Binary" and c.get("op") == "Lt" and peel(c["r"]).get("hid") == nparam and peel(c["l"]).get("k") == "Path":
            counter = peel(c["l"])["hid"]
            b = peel(w["body"])
            uncond_adv = False
            counter_steps_ok = True
            if b.get("k") == "Block":
                for s in b["stmts"]:
                    e = peel(s.get("e") or {})
                    if e.get("k") == "AssignOp" and e.get("op") in ("Add", "AddAssign") and peel(e["l"]).get("k") == "Field" and peel(e["l"])["name"] == "curr" \
                            and peel(e["r"]).get("v") == 1:
                        uncond_adv = True
            for a in nodes(w["body"]):
                if a.get("k") in ("AssignOp", "Assign") and peel(a["l"]).get("hid") == counter:
                    if not (a["k"] == "AssignOp" and a.get("op") in ("Add", "AddAssign") and peel(a["r"]).get("v") == 1):
                        counter_steps_ok = False
            backwards = any(a.get("k") in ("Assign",) and peel(a["l"]).get("k") == "Field" and peel(a["l"])["name"] == "curr" for a in nodes(body)) or \
                any(a.get("k") == "AssignOp" and a.get("op") not in ("Add", "AddAssign") and peel(a["l"]).get("k") == "Field" and peel(a["l"])["name"] == "curr" for a in nodes(body))
            if uncond_adv and counter_steps_ok and not backwards:
                return True, "`while skipped < n` advances the cursor by one in every iteration and the counter by at most one"
            return False, "the counting loop of Context::skip does not advance the cursor unconditionally (advance=%s, counter=%s, backwards=%s)" % (
                uncond_adv, counter_steps_ok, backwards)
    return False, "no `while <counter> < n` loop in Context::skip"


def check_prev(F):
    """Context::prev goes back one token and then only further back over Comment tokens"""
    fn = F.fns.get(CTX_PATH + "prev")
    if not fn or not fn.get("body"):
        return False, "Context::prev not found"
    body = fn_body(fn)
    writes = [a for a in nodes(body) if a.get("k") in ("Assign", "AssignOp") and peel(a["l"]).get("k") == "Field" and peel(a["l"])["name"] == "curr"]
    ok_writes = all(a["k"] == "Assign" and peel(a["r"]).get("k") == "MethodCall" and peel(a["r"])["m"] == "saturating_sub"
                    and peel(peel(a["r"])["args"][0]).get("v") == 1 for a in writes)
    loops = [w for w in nodes(body) if w.get("k") in ("While", "Loop")]
    only_comments = True
    for w in loops:
        c = peel(w.get("cond") or {})
        names = None
        if c.get("k") == "Match":
            names = set()
            for a in c["arms"]:
                if peel(a["body"]).get("v") is True:
                    pt = pattern_tokens(a["pat"], "token")
                    names |= set(pt) if isinstance(pt, frozenset) else {"?"}
        if names != {"Comment"}:
            only_comments = False
    uncond = [a for a in writes if not any(a is x for w in loops for x in nodes(w))]
    # the step comes first and the loop over comments is the last thing that moves the cursor: the context handed back rests
    # on a token that is not a comment (stepping back *after* the loop can land on one)
    order = [id(x) for x in nodes(body)]
    step_first = len(uncond) == 1 and all(order.index(id(uncond[0])) < order.index(id(w)) for w in loops)
    if ok_writes and only_comments and len(uncond) == 1 and len(loops) <= 1 and not step_first:
        return False, "Context::prev steps back after its loop over comments: the token it lands on can be a comment (a comment line after a `loop` statement)"
    if ok_writes and only_comments and len(uncond) == 1 and len(loops) <= 1:
        return True, "prev() steps back one token and then only over comments"
    return False, "Context::prev has another shape (writes ok=%s, loops over comments only=%s)" % (ok_writes, only_comments)


def _tops(v):
    if v is None:
        return False
    if v[0] == "c":
        return v[2] == "TOP"
    if v[0] == "t":
        return any(_tops(x) for x in v[1])
    if v[0] == "r":
        return _tops(v[1]) or _tops(v[2])
    return False


def show(v):
    if v is None:
        return "-"
    if v[0] == "c":
        return "%s%s" % (show_delta(v[2]), "" if v[1] == "P" else "@%s" % v[1])
    if v[0] == "t":
        return "(" + ",".join(show(x) for x in v[1]) + ")"
    if v[0] == "r":
        return "Ok%s/Err%s" % (show(v[1]), show(v[2]))
    return "_"
