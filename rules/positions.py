"""Rules on sylt_tokenizer::string_to_tokens shared by C15 and C17: line bookkeeping and unit consistency."""
from hir import (nodes, walk, fn_body, callee, last, line_of, peel, peel_clone, pp, norm_path, pat_bindings)
from flow import Flow
import toks

FN = "sylt_tokenizer::string_to_tokens"


def _closure(body):
    for c in nodes(body, "MethodCall"):
        if c["m"] == "map":
            for a in c["args"]:
                if a.get("k") == "Closure":
                    return c, a
    return None, None


_CANON = {}


def canonical(fn):
    """a copy of string_to_tokens' body in which the three bookkeeping locals carry canonical names, whatever they are
    called in the source: `char_at_byte` (the Vec<Option<usize>> table), `line` (the integer local that is incremented)
    and `last_newline` (the integer local that is assigned).  The rules below talk about roles, not about spellings."""
    import copy
    key = id(fn)
    if key in _CANON:
        return _CANON[key]
    body = copy.deepcopy(fn_body(fn))
    lets = {}
    for blk in nodes(body, "Block"):
        for st in blk["stmts"]:
            if st.get("k") == "Let" and st.get("init") is not None:
                for b in pat_bindings(st["pat"]):
                    lets[b["hid"]] = (b, peel(st["init"]))
    incremented = {peel(a["l"]).get("hid") for a in nodes(body, "AssignOp") if a.get("op") in ("Add", "AddAssign")}
    assigned = {peel(a["l"]).get("hid") for a in nodes(body, "Assign")}
    roles = {}
    for hid, (b, init) in lets.items():
        ty = (b.get("ty") or "")
        if "Vec<core::option::Option<usize>>" in ty.replace("alloc::vec::", ""):
            roles.setdefault("char_at_byte", hid)
        elif init.get("k") == "Lit" and isinstance(init.get("v"), int) and not isinstance(init.get("v"), bool):
            if hid in incremented and hid not in assigned:
                roles.setdefault("line", hid)
            elif hid in assigned and hid not in incremented:
                roles.setdefault("last_newline", hid)
    by_hid = {h: r for r, h in roles.items()}
    for x in nodes(body):
        if x.get("k") == "Path" and x.get("res") == "Local" and x.get("hid") in by_hid:
            x["name"] = by_hid[x["hid"]]
    for hid, (b, _i) in lets.items():
        if hid in by_hid:
            b["name"] = by_hid[hid]
    _CANON[key] = (body, roles)
    return _CANON[key]


def line_rules(F, rep, rule="LINE"):
    """every token whose pattern can contain a newline advances `line` (and `last_newline`) once per newline"""
    tk = toks.TokenSpec(F)
    fn = F.fn(FN)
    rep.analysed(fn)
    body, roles = canonical(fn)
    if set(roles) != {"char_at_byte", "line", "last_newline"}:
        rep.anchor_missing("the bookkeeping locals of string_to_tokens (found roles: %s)" % sorted(roles))
    fl = Flow(fn, body)
    capable = [n for n in tk.order if tk.can_contain(n, "\n")]
    rep.ob(rule, "newline-capable-census", "Newline" in capable,
           "token patterns that can contain a newline: %s (of %d patterns)" % (capable, len([n for n in tk.order if tk.rules[n]['kind'] in ('token', 'regex')])),
           sites=len(tk.order))
    mapc, clo = _closure(body)
    if clo is None:
        rep.anchor_missing("the per-token closure of string_to_tokens")
        return tk
    # locate `line += 1` sites and the condition they are under
    explicit = set()      # token variants named by the guarding condition
    per_newline = {"then": False, "else": False, "always": False}
    counted_only_for = set()
    restricted = [False]
    guard_if = None
    n_adv = 0
    for n, parents in walk(clo["body"]):
        if n.get("k") == "AssignOp" and n.get("op") in ("Add", "AddAssign") and peel(n["l"]).get("name") == "line":
            n_adv += 1
            inc = peel(n["r"])
            one = inc.get("k") == "Lit" and inc.get("v") == 1
            loop = None
            branch = "always"
            for p in parents:
                if p.get("k") == "ForLoop":
                    loop = p
            ifs = [p for p in parents if p.get("k") == "If"]
            if ifs:
                guard_if = ifs[0]
                branch = "then" if any(x is n for x in nodes(guard_if["t"])) else "else"
            counts = inc.get("k") == "MethodCall" and inc["m"] == "count" and _counts_newlines(inc["recv"]) and \
                not any(c["m"] in ("lines", "split") for c in nodes(inc, "MethodCall"))
            if (loop is not None and one and _counts_newlines(loop["iter"])) or (loop is None and counts):
                per_newline[branch] = True
                # a further token-kind test around the counting (`if matches!(token, Token::String(_))`) restricts it
                for inner in ifs[1:]:
                    kinds = _token_kinds_tested(fl, inner["c"])
                    if kinds is not None and any(x is n for x in nodes(inner["t"])):
                        counted_only_for.update(kinds)
                        restricted[0] = True
            elif loop is None and one:
                # guarded by a token test
                cond = fl.trace(guard_if["c"]) if guard_if is not None else None
                if cond is not None and cond.get("k") == "Binary" and cond.get("op") == "Eq":
                    for side in (cond["l"], cond["r"]):
                        s = peel(side)
                        if s.get("k") == "Path" and s.get("res") == "Def" and "::Token::" in norm_path(s["path"]):
                            if branch == "then":
                                explicit.add(last(norm_path(s["path"])))
                elif cond is not None and any(m == "matches" for x in nodes(cond) for m in x.get("mac", [])):
                    for x in nodes(cond, "Match"):
                        for arm in x["arms"]:
                            from hir import pat_alternatives, pat_variant
                            if peel(arm["body"]).get("v") is True:
                                for alt in pat_alternatives(arm["pat"]):
                                    if pat_variant(alt):
                                        explicit.add(last(pat_variant(alt)))
            # lockstep: the same block also sets last_newline
            blk = [p for p in parents if p.get("k") == "Block"][-1]
            sets_ln = any(x.get("k") == "Assign" and peel(x["l"]).get("name") == "last_newline" for x in nodes(blk))
            rep.ob(rule, "lockstep|%s#%d" % (branch, n_adv), sets_ln,
                   "where `line` advances, `last_newline` is updated in the same block (column origin moves with the line)", line_of(n))
    rep.floor(rule, "line-advance sites", n_adv, 1)
    # unmatched input becomes an Error token; when some pattern can run over a newline before it fails to complete (an
    # unterminated string), that Error token contains newlines too
    if any(tk.rules[v]["kind"] == "regex" for v in capable) and any(tk.rules[n_]["kind"] == "error" for n_ in tk.order):
        capable = capable + [n_ for n_ in tk.order if tk.rules[n_]["kind"] == "error"]
    for v in capable:
        single = tk.rules[v]["kind"] == "token" and tk.rules[v]["pattern"] == "\n"
        if v in explicit:
            ok = single or per_newline["then"]
            how = "explicitly (one newline per token)" if single else "explicitly"
        else:
            ok = (per_newline["else"] or per_newline["always"]) and (not restricted[0] or v in counted_only_for)
            how = "by counting the newlines inside the token" if ok else None
        rep.ob(rule, "advance|%s" % v, ok,
               ("Token::%s advances the line counter %s" % (v, how)) if ok else
               ("Token::%s (pattern %r) can contain newlines but the line counter only advances for %s: every token after a "
                "multi-line %s is reported on a too small line" % (v, tk.rules[v]["pattern"], sorted(explicit) or "nothing", v)),
               fn["sp"])
    return tk


def _token_kinds_tested(fl, cond):
    """token variants named by a condition such as `matches!(token, Token::String(_))` / `token == Token::X`; None if the
    condition is not a test of the token kind"""
    from hir import pat_alternatives, pat_variant
    c = peel(cond)
    if c.get("k") == "Path" and c.get("res") == "Local":
        c = peel(fl.trace(c))
    kinds = set()
    if c.get("k") == "Match":
        for arm in c["arms"]:
            if peel(arm["body"]).get("v") is True:
                for alt in pat_alternatives(arm["pat"]):
                    v = pat_variant(alt)
                    if v and "::Token::" in v:
                        kinds.add(last(v))
        return kinds or None
    if c.get("k") == "Binary" and c.get("op") == "Eq":
        for side in (c["l"], c["r"]):
            s_ = peel(side)
            if s_.get("k") == "Path" and s_.get("res") == "Def" and "::Token::" in norm_path(s_["path"]):
                kinds.add(last(norm_path(s_["path"])))
        return kinds or None
    return None


def _counts_newlines(it):
    """iterator expression that yields one item per '\\n' of a slice: match_indices('\\n'), matches('\\n'), ..."""
    for c in nodes(it, "MethodCall"):
        if c["m"] in ("match_indices", "matches", "rmatch_indices", "split", "lines"):
            a = [peel(x) for x in c["args"]]
            if a and a[0].get("k") == "Lit" and a[0].get("v") in ("\n",):
                return True
        if c["m"] == "filter":
            if "'\\n'" in pp(c) or "\\n" in pp(c) or "10" in pp(c):
                return True
    return False


def _posn(n):
    sp = n.get("sp") if isinstance(n, dict) else None
    try:
        _f, l, c = sp.rsplit(":", 2)
        return (int(l), int(c))
    except (AttributeError, ValueError):
        return (0, 0)


def _tup_tails(e, depth=0):
    """tuple-valued tails of an if / block / match expression"""
    e = peel(e)
    if not isinstance(e, dict) or depth > 6:
        return []
    k = e.get("k")
    if k == "Tup":
        return [e]
    if k == "Block":
        return _tup_tails(e["e"], depth + 1) if e.get("e") is not None else []
    if k == "If":
        return _tup_tails(e["t"], depth + 1) + (_tup_tails(e["e"], depth + 1) if e.get("e") else [])
    if k == "Match":
        return [t for a in e["arms"] for t in _tup_tails(a["body"], depth + 1)]
    return []


def _relative_base(fl, e):
    """for an offset bound by `for (offset, _) in S.match_indices(..)` (or find / char_indices): the hid of the range R when S
    is `content[R]`, "other" when S is anything else (the token's text, a trimmed copy ..), None when `e` is no such offset"""
    e = peel_clone(e)
    if not (isinstance(e, dict) and e.get("k") == "Path" and e.get("res") == "Local"):
        return None
    o = fl.origin.get(e["hid"])
    if not o or o.get("src") is None or o["kind"] not in ("for", "closure", "let"):
        return None
    src = peel(o["src"])
    call = None
    for c in nodes(src, "MethodCall"):
        if c["m"] in ("match_indices", "rmatch_indices", "char_indices", "find", "rfind", "bytes", "split"):
            call = c
    if call is None or call["m"] in ("bytes", "split"):
        return None
    if call["m"] == "char_indices" and "enumerate" in pp(src) and o["path"] == (("tuple", 0),):
        return None      # the enumerate counter, not an offset
    s_ = peel_clone(call["recv"])
    if s_.get("k") == "Index":
        r = peel_clone(s_["i"])
        base = peel_clone(s_["e"])
        if r.get("k") == "Path" and r.get("res") == "Local" and "Range<usize>" in (r.get("ty") or "") and base.get("name") == "content":
            return r["hid"]
        return "other"
    if s_.get("k") == "Path" and s_.get("name") == "content":
        return None      # offsets into the whole source are absolute
    return "other"


def unit_rules(F, rep, rule="UNIT"):
    """byte offsets index char_at_byte only; columns are char - char"""
    fn = F.fn(FN)
    body, _roles = canonical(fn)
    fl = Flow(fn, body)

    def unit(e, depth=0):
        e = peel_clone(e)
        if depth > 12 or not isinstance(e, dict):
            return "?"
        k = e.get("k")
        if k == "Field" and e["name"] in ("start", "end") and "Range<usize>" in e.get("base_ty", ""):
            return "byte"
        if k == "MethodCall" and e["m"] == "unwrap":
            return unit(e["recv"], depth + 1)
        if k == "Index":
            base = peel(e["e"])
            if base.get("name") == "char_at_byte":
                iu = unit(e["i"], depth + 1)
                return "char" if iu == "byte" else "BAD(char_at_byte indexed by %s)" % iu
            return "?"
        if k == "Binary" and e.get("op") == "Add":
            # an offset found inside a slice is relative to where that slice starts: `content[R]` searched, `R.start` added
            for off, base in ((e["l"], e["r"]), (e["r"], e["l"])):
                rb = _relative_base(fl, off)
                if rb is not None:
                    b = peel_clone(base)
                    ok_base = b.get("k") == "Field" and b["name"] == "start" and peel_clone(b["e"]).get("hid") == rb and rb != "other"
                    if not ok_base:
                        return "BAD(an offset found in %s added to `%s`)" % (
                            "another string than the slice of the source that starts there" if rb == "other" else "a slice of the source", pp(base))
        if k == "Binary" and e.get("op") in ("Add", "Sub"):
            l, r = unit(e["l"], depth + 1), unit(e["r"], depth + 1)
            if e["op"] == "Sub" and l == r == "char":
                return "col"
            if l == r:
                return l
            if "lit" in (l, r):
                return l if r == "lit" else r
            return "BAD(%s %s %s)" % (l, e["op"], r)
        if k == "Lit":
            return "lit"
        if k == "Path" and e.get("res") == "Local":
            o = fl.origin.get(e["hid"])
            if o is None:
                return "?"
            if e["name"] == "last_newline":
                return "char"  # checked separately: every assignment to it is a char value
            if o["kind"] in ("for", "closure", "let") and o.get("src") is not None:
                src = peel(o["src"])
                # (offset, _) from match_indices -> byte; pos from char_indices -> byte; i from enumerate -> char index
                txt = pp(src)
                if o["kind"] == "for":
                    if "match_indices" in txt and o["path"] and o["path"][0] == ("tuple", 0):
                        return "byte"
                    if "char_indices().enumerate()" in txt:
                        return "charidx" if o["path"] == (("tuple", 0),) else "byte" if o["path"] == (("tuple", 1), ("tuple", 0)) else "?"
                if o["kind"] == "let" and o["path"] == ():
                    return unit(o["src"], depth + 1)
                if o["kind"] == "let" and o["path"] and o["path"][0][0] == "tuple":
                    # let (a, b) = if .. { (x, y) } else { (u, v) }: every branch must give the same unit
                    us = {unit(t["es"][o["path"][0][1]], depth + 1) for t in _tup_tails(o["src"]) if o["path"][0][1] < len(t["es"])}
                    return us.pop() if len(us) == 1 else "BAD(branches disagree: %s)" % sorted(us)
            return "?"
        return "?"

    n = 0
    # all indexings of char_at_byte
    for x in nodes(body, "Index"):
        if peel(x["e"]).get("name") == "char_at_byte":
            n += 1
            u = unit(x["i"])
            rep.ob(rule, "char_at_byte[%s]" % pp(x["i"]), u == "byte",
                   "char_at_byte is indexed by a %s value `%s` (must be a byte offset from the lexer)" % (u, pp(x["i"])), line_of(x))
    rep.floor(rule, "indexings of char_at_byte", n, 4)
    # assignments to last_newline
    for x in nodes(body, "Assign"):
        if peel(x["l"]).get("name") == "last_newline":
            u = unit(x["r"])
            rep.ob(rule, "last_newline=%s" % pp(x["r"])[:40], u == "char", "last_newline is assigned a %s value" % u, line_of(x))
    # columns
    for s in nodes(body, "Struct"):
        if s["path"].endswith("Span"):
            for f in s["fields"]:
                if f["name"] in ("col_start", "col_end"):
                    u = unit(f["e"])
                    rep.ob(rule, "Span.%s" % f["name"], u == "col",
                           "%s is computed as %s (must be char index - char index of the last newline)" % (f["name"], u), line_of(s))
                if f["name"] == "line_start":
                    v = peel(f["e"])
                    o1 = fl.origin.get(v.get("hid")) if v.get("k") == "Path" else None
                    src = v if v.get("name") == "line" else \
                        peel(o1["src"]) if o1 and o1["kind"] == "let" and o1["path"] == () and o1.get("src") is not None else v
                    first_bump = min([_posn(a) for a in nodes(body) if a.get("k") in ("Assign", "AssignOp") and peel(a["l"]).get("name") == "line"] or [(10**9, 0)])
                    ok = src.get("k") == "Path" and src.get("name") == "line" and _posn(src) < first_bump
                    rep.ob(rule, "Span.line_start", ok, "line_start is the line counter as it stands before the token's own newlines are counted", line_of(s))
                if f["name"] == "line_end":
                    # the line counter after the token's own newlines were counted (a Newline token ends on its own line)
                    v = peel(f["e"])
                    o = fl.origin.get(v.get("hid")) if v.get("k") == "Path" else None
                    loops = [_posn(lp) for lp in nodes(body, "ForLoop") if "match_indices" in pp(lp["iter"])]
                    ok = False
                    if o and o["path"] and o["path"][0][0] == "tuple":
                        ends = [peel(t["es"][o["path"][0][1]]) for t in _tup_tails(o["src"])]
                        after = [e for e in ends if e.get("name") == "line" and loops and _posn(e) > max(loops)]
                        start = [e for e in ends if e.get("name") == "line_start"]
                        ok = len(after) >= 1 and len(after) + len(start) == len(ends)
                    rep.ob(rule, "Span.line_end", ok,
                           "line_end is the line counter after the newlines inside the token were counted (a token that spans lines "
                           "ends on its last line)", line_of(s))
    # construction of char_at_byte: entry at byte `pos` is the 1-based char index; a final entry for the exclusive end
    built = pushed = False
    for x in nodes(body, "Assign"):
        l = peel(x["l"])
        if l.get("k") == "Index" and peel(l["e"]).get("name") == "char_at_byte":
            r = peel(x["r"])
            built = unit(l["i"]) == "byte" and "i Add 1" in pp(r)
    for c in nodes(body, "MethodCall"):
        if c["m"] == "push" and peel(c["recv"]).get("name") == "char_at_byte":
            pushed = "chars().count() Add 1" in pp(c["args"][0])
    rep.ob(rule, "char_at_byte|construction", built and pushed,
           "char_at_byte[byte offset of a char] = its 1-based char index, plus one entry for the exclusive end offset", fn["sp"])
    # initial values
    inits = {fl.names[h]: peel(o["src"]).get("v") for h, o in fl.origin.items() if o["kind"] == "let" and fl.names.get(h) in ("line", "last_newline") and o["src"] is not None}
    rep.ob(rule, "initial-values", inits == {"line": 1, "last_newline": 0}, "lines start at 1, the column origin at char index 0 (%s)" % inits, fn["sp"])
