"""C04 — constants are immutable and pure functions stay pure (DESIGN §4 C04)."""
from hir import (nodes, walk, fn_body, callee, call_args, last, line_of, peel, pp, norm_path, pat_alternatives, pat_variant,
                 pat_bindings, pat_is_catchall, diverges)
from engines import matches_on, arm_alternatives, ty_is
from flow import Flow, uncond_nodes
import tc
from tc import TC, TCM, NR, TY, Ctx

EXPLANATION = (
    "Decides: (ASSIGNABILITY) the Assignment arm of the statement checker calls can_assign(target)? before anything else and "
    "can_assign accepts only a Read of a variable whose kind is not immutable or a BlobAccess (an Index only if some indexable type is writable at run time) - every other "
    "expression kind and every Const variable is Err(Assignability); (BINDER-KIND) function parameters and case bindings are "
    "created with VarKind::Const, `self` with Mutable, the parser maps `::`/`: T :` to Const and `:=`/`: T =` to Mutable and "
    "globals keep the declared kind; (CTX) by abstract interpretation of every TypeCtx argument passed between the checker's "
    "functions, `inside_pure` is only ever inherited or set to true (never reset), so by induction it survives any nesting "
    "inside a `pu` function; TypeCtx::new() occurs only in solve(); (GUARD) the four purity guards (mutable definition, "
    "assignment, read of a non-Const variable, call of a callee whose purity is not Pure) test ctx.inside_pure un-negated, "
    "unconditionally in their arm, and return Err; (PURITY-UNIFY) sub_unify rejects exactly (Pure,Impure) and (Impure,Pure); "
    "function literals record Pure/Impure from `pu`/`fn`, annotations Pure/Undefined; copying a function type keeps its purity."
    ' (PURITY-UNIFY merge/external) the purity a wildcard meets is written to both unified nodes, and an external declared `fn` is impure.'
    " (PURITY-UNIFY external) the conversion of an external's `fn` to impure depends on the declared type only; (PURITY-DECL callbacks) a `pu` external takes `pu` callbacks."
    ' (PURITY-COPY) a function read out of a blob field is copied only once its purity is settled; (FIELD-SETS, shared) functions inside enum payloads and blob fields meet the declared purity because members are compared; (UNIFY-CORE) no handler removes a recorded constraint.'
    " (PURITY-UNIFY purity-is-never-rewritten) a function type rebuilt from another's parts keeps its purity or settles an open one; functions an external hands out are impure as well."
)
UNDECIDED = "purity through `external` declarations (trusted annotations) and completeness for callees of Undefined purity."

MANIFEST = dict(
    text=EXPLANATION + " Not decided: " + UNDECIDED,
    technique="abstract interpretation of the checker's context record (flag propagation) + guard/accept-set extraction over resolved HIR",
)

E, S = NR + "Expression", NR + "Statement"


def run(F, rep, tier):
    rep.explanation = EXPLANATION
    rep.undecided = UNDECIDED
    assignability(F, rep)
    binder_kinds(F, rep)
    ctx_propagation(F, rep, "inside_pure")
    enter_pure_site(F, rep)
    purity_guards(F, rep)
    purity_unify(F, rep)
    # purity is a property of one function type: a fresh copy of a parameter's type would take the `pu` of a declaration
    # while the parameter itself still unifies with an impure argument
    import c02
    c02.copy_discipline(F, rep, only_generalised=True)
    # of the one copy that is not of a generalised constant - a function read out of a blob field - what matters for purity is
    # narrower than what matters for types (C02/C03/C05 keep the general obligation as a known finding): the purity of a function
    # type travels with every copy, so only a copy made while the purity is still *open* can be pinned to `pu` behind the field's back
    mine = [o for o in rep.obs if o["rule"] == "COPY" and o["key"].startswith("expression|BlobAccess|")]
    if mine:
        rep.obs[:] = [o for o in rep.obs if o not in mine]
        open_purity_is_not_copied(F, rep, mine[0].get("where"))
    # `known to be pure` includes the library: an external declared `pu` does not change what it is given
    import c18
    c18.purity_decl(F, rep)
    # a function inside an enum payload or a blob field meets the declared `pu` only if unifying two enums / blobs compares their
    # members (shared with C02/C03)
    import core
    import c03
    core.borrow(rep, c03.pairing, lambda o: o["rule"] == "FIELD-SETS", F)
    # "a pure function reads no mutable variable" and "a constant is not assigned" are decided for the declaration a name resolves to:
    # a declaration that outlives its block makes the later uses of the name resolve to the wrong one (shared with C03)
    import c09
    core.borrow(rep, lambda F_, r_: c09.scope_rules(F_, r_, "SCOPE"), lambda o: o["rule"] == "SCOPE", F)
    # .. and a requirement recorded on a node stays until the node is merged: a handler that removes the constraint it has just
    # checked forgets it for the next type the node meets
    constraints_are_kept(F, rep)
    purity_is_not_rewritten(F, rep)
    purity_walks_reach_every_component(F, rep)


def open_purity_is_not_copied(F, rep, where):
    fexpr = F.fn(TC + "expression")
    ok = False
    shallow = False
    n = 0
    for arm, alt in tc.arm_of(F, fexpr, E, "BlobAccess"):
        for m in nodes(arm["body"], "Match"):
            if not ty_is((m.get("scrut_ty") or ""), TY):
                continue
            copies = [a for a in m["arms"] if any(callee(c) == TC + "copy" for c in nodes(a["body"], "MethodCall"))]
            if not copies:
                continue
            n += 1
            # an arm *in front of* the copying one takes function types whose purity is Undefined and answers the node itself
            idx = m["arms"].index(copies[0])
            for a in m["arms"][:idx]:
                txt = pp_pat(a["pat"])
                b = peel(a["body"])
                if not ("Type::Function" in txt and b.get("k") == "Path" and b.get("res") == "Local"):
                    continue
                # the test has to see an open purity *anywhere* in the function type (its parameters and result too - `get: pu ->
                # fn int -> int`): a guard that calls a function of the checker which walks the type (a loop) looking for
                # Purity::Undefined.  A pattern on the field's own purity alone leaves the nested ones to the copy.
                g = a.get("guard")
                if g is not None:
                    for c in nodes(g, "MethodCall"):
                        hf = F.fns.get(callee(c) or "")
                        if hf is not None and "Purity::Undefined" in pp(fn_body(hf)) and \
                                any(x.get("k") in ("While", "Loop", "ForLoop") for x in nodes(fn_body(hf))):
                            ok = True
                elif "Purity::Undefined" in txt:
                    shallow = True
    rep.ob("PURITY-COPY", "expression|BlobAccess|open-purity-is-not-copied", ok and n > 0,
           "a function read out of a blob field is instantiated afresh only once every purity in its type is settled" if ok else
           "reading a function-typed field leaves it uncopied only while the field's *own* purity is open: a purity that is open further "
           "in (`get: pu -> fn int -> int`, `run: pu (fn int -> int), int -> int`) is settled on the copy, and `h : pu int -> int : b.get()` "
           "inside a pure function accepts an impure function" if shallow else
           "reading a function-typed field copies its type also while the purity is still open (`f: fn int -> int`): the copy is "
           "pinned to `pu` by a declaration (`h : pu int -> int : b.f`) while the field itself later accepts an impure function - a "
           "pure function calls an impure one through the field", where)


def pp_pat(p):
    from hir import ppat
    return ppat(p)


def purity_is_not_rewritten(F, rep, rule="PURITY-UNIFY"):
    """The purity of a function type is settled once - by the literal, the annotation or the declaration - and after that only
    unification combines it.  A function type rebuilt from the parameters and result of an existing one keeps that one's purity;
    the only rewrite is the settling of an *open* purity (the pattern names Purity::Undefined)."""
    n = 0
    bad = []
    for fn in F.fns_in(TCM):
        for m in nodes(fn_body(fn), "Match"):
            for arm in m["arms"]:
                for alt in pat_alternatives(arm["pat"]):
                    for q in _subpatterns(alt):
                        if not (q.get("k") == "TupleStruct" and (q.get("path") or "").endswith("Type::Function") and len(q.get("pats") or []) == 3):
                            continue
                        b_args = [b["hid"] for b in pat_bindings(q["pats"][0])]
                        b_res = [b["hid"] for b in pat_bindings(q["pats"][1])]
                        b_pur = [b["hid"] for b in pat_bindings(q["pats"][2])]
                        open_only = "Purity::Undefined" in pp_pat(q["pats"][2])
                        if not b_args or not b_res:
                            continue
                        for c, parents in walk(arm["body"]):
                            if c.get("k") != "Call" or not ((callee(c) or "").endswith("Type::Function") and len(c["args"]) == 3):
                                continue
                            a0, a1, a2 = [peel(x) for x in c["args"]]
                            if a0.get("hid") in b_args and a1.get("hid") in b_res:
                                n += 1
                                keeps = a2.get("hid") in b_pur
                                # .. or the rewrite stands under `if matches!(<that purity>, Purity::Undefined)`
                                under_open = any(p_.get("k") == "If" and "Purity::Undefined" in pp(p_["c"]) and
                                                 any(x.get("hid") in b_pur for x in nodes(p_["c"], "Path")) and
                                                 any(x is c for x in nodes(p_["t"])) for p_ in parents)
                                if not keeps and not open_only and not under_open:
                                    bad.append((fn, c, pp(a2)))
    rep.ob(rule, "purity-is-never-rewritten", not bad,
           "every function type rebuilt from the parts of another keeps its purity, or settles an open one (%d sites)" % n if not bad else
           "%s rebuilds a function type from the parameters and result of an existing one with the purity `%s`, whatever the "
           "original's was: an impure function loses its purity on the way (`step : pu int -> int : if up do tick else tock end` "
           "accepts two impure functions)" % (last(bad[0][0]["_path"], 2), bad[0][2]), line_of(bad[0][1]) if bad else None)
    rep.floor(rule, "function types rebuilt from another's parts", n, 1)


def _subpatterns(p):
    out, todo = [], [p]
    while todo:
        q = todo.pop()
        if not isinstance(q, dict):
            continue
        out.append(q)
        for y in q.get("pats") or []:
            todo.append(y)
        for y in q.get("fields") or []:
            todo.append(y.get("pat") if isinstance(y, dict) and "pat" in y and "k" not in y else y)
        for k_ in ("pat", "sub"):
            if isinstance(q.get(k_), dict):
                todo.append(q[k_])
    return out


def constraints_are_kept(F, rep, rule="UNIFY-CORE"):
    bad = []
    for fn in F.fns_in(TCM):
        for c in nodes(fn_body(fn), "MethodCall"):
            if c["m"] in ("remove", "clear", "retain", "pop_first", "pop_last") and "constraints" in pp(c["recv"]):
                bad.append((fn, c))
    rep.ob(rule, "constraints-are-never-removed", not bad,
           "no function of the checker takes a recorded constraint off a node" if not bad else
           "%s removes entries from a node's constraints (`%s`): a requirement that was satisfied by one unification is not "
           "looked at again when the node meets the next type - a `Step.Apply <impure fn>` passes where the payload is declared `pu`"
           % (last(bad[0][0]["_path"], 2), pp(bad[0][1])[:70]), line_of(bad[0][1]) if bad else None)


def assignability(F, rep):
    fstmt = F.fn(TC + "statement")
    rep.analysed(fstmt)
    arms = tc.arm_of(F, fstmt, S, "Assignment")
    if not arms:
        rep.anchor_missing("Assignment arm of TypeChecker::statement")
        return
    arm = arms[0][0]
    body = peel(arm["body"])
    first = None
    if body.get("k") == "Block" and body["stmts"]:
        s0 = body["stmts"][0]
        first = peel(s0.get("e") or s0.get("init"))
    ok = False
    if first is not None and first.get("k") == "Try":
        c = peel(first["e"])
        fl = Flow(fstmt, fn_body(fstmt))
        if callee(c) == TC + "can_assign" and tc.root_field(fl, c["args"][1]) == "target":
            ok = True
    rep.ob("ASSIGNABILITY", "statement|Assignment|can_assign-first", ok,
           "`self.can_assign(span, target)?` is the first thing the Assignment arm does", line_of(arm))
    fca = F.fn(TC + "can_assign")
    rep.analysed(fca)
    accepted, rejected, cond = set(), set(), {}
    for m in matches_on(fn_body(fca), E):
        for a, alt, vp in arm_alternatives(m):
            name = last(vp) if vp else "_"
            b = peel(a["body"])
            if tc.is_err_value(b) and tc.err_kind(b) == "Assignability":
                rejected.add(name)
            elif name == "Read":
                # if self.variables[*var].kind.immutable() { return Err(Assignability) }
                ifs = [i for i in nodes(b, "If")]
                good = False
                for i in ifs:
                    c = peel(i["c"])
                    if c.get("k") == "MethodCall" and callee(c) == "sylt_parser::VarKind::immutable" and \
                            tc.is_err_value(i["t"]) and tc.err_kind(i["t"]) == "Assignability":
                        good = True
                cond[name] = good
                accepted.add(name)
            else:
                accepted.add(name)
        break
    allv = set(F.variants(E))
    # (whether an Index target can be written at run time at all is C02's ASSIGNABILITY obligation)
    rep.ob("ASSIGNABILITY", "can_assign|accept-set", {"Read", "BlobAccess"} <= accepted <= {"Read", "BlobAccess", "Index"},
           "can_assign lets through exactly %s (variables and fields, possibly indexes - nothing else)" % sorted(accepted), fca["sp"])
    rep.ob("ASSIGNABILITY", "can_assign|reject-set", rejected == allv - accepted and "_" not in accepted,
           "every other expression kind is Err(Assignability) (%d kinds, no wildcard)" % len(rejected), fca["sp"])
    rep.ob("ASSIGNABILITY", "can_assign|Read-const", cond.get("Read", False),
           "a Read target whose variable kind is immutable() is Err(Assignability)", fca["sp"])
    imm = F.fn("sylt_parser::VarKind::immutable")
    ok = False
    for m in nodes(fn_body(imm), "Match"):
        vs = {last(pat_variant(alt)): peel(a["body"]).get("v") for a in m["arms"] for alt in pat_alternatives(a["pat"]) if pat_variant(alt)}
        ok = vs.get("Const") is True and all(v is not True for k, v in vs.items() if k != "Const")
        rest = [peel(a["body"]).get("v") for a in m["arms"] for alt in pat_alternatives(a["pat"]) if pat_variant(alt) is None]
        ok = ok and all(v is False for v in rest)
    rep.ob("ASSIGNABILITY", "VarKind::immutable", ok, "VarKind::immutable() is true exactly for Const", imm["sp"])


LUA_TYPE_OF = {"Tuple": "tuple", "List": "list", "Blob": "blob", "Set": "set", "Dict": "dict"}


def index_targets_writable(F, rep, index_accepted, rule="ASSIGNABILITY"):
    """An assignment `v[i] = x` is lowered to __ASSIGN_INDEX(v, i, x).  The types the checker lets `v[i]` have are the rows
    of constant_index that are not errors; the types the runtime refuses to write are the `if m._type == "T" then
    assert(nil, ..)` branches of __ASSIGN_INDEX.  If every type the checker admits is refused by the runtime, an accepted
    index assignment always stops the program - can_assign must then not accept Index targets.  Returns whether some
    admitted type is writable."""
    import luaparse
    fci = F.fn(TC + "constant_index")
    admitted = set()
    for m in nodes(fn_body(fci), "Match"):
        if ty_is(m.get("scrut_ty", ""), TY):
            for a in m["arms"]:
                for alt in pat_alternatives(a["pat"]):
                    v = pat_variant(alt)
                    if v and not tc.is_err_value(a["body"]) and last(v) != "Unknown":
                        admitted.add(last(v))
            break
    ast = luaparse.parse(F.read("sylt-compiler/src/preamble.lua"))
    fn = None
    for st in ast["stmts"]:
        if st["k"] == "Assign" and st["targets"][0].get("name") == "__ASSIGN_INDEX" and st["es"][0]["k"] == "Function":
            fn = st["es"][0]
    if fn is None:
        rep.anchor_missing("__ASSIGN_INDEX in preamble.lua")
        return True
    refused = set()
    for st in fn["body"]["stmts"]:
        if st["k"] != "If":
            continue
        for cond, body in st["clauses"]:
            if cond["k"] == "Binop" and cond["op"] == "==" and cond["r"]["k"] == "String" and luaparse.show(cond["l"]).endswith("._type"):
                for b in body["stmts"]:
                    if b["k"] == "CallStat" and luaparse.show(b["call"]["f"]) == "assert" and b["call"]["args"] and \
                            b["call"]["args"][0]["k"] == "Const" and b["call"]["args"][0]["v"] in ("nil", "false"):
                        refused.add(cond["r"]["v"])
                    if b["k"] == "CallStat" and luaparse.show(b["call"]["f"]) in ("error", "__CRASH"):
                        refused.add(cond["r"]["v"])
    admitted_lua = {LUA_TYPE_OF.get(t, t.lower()) for t in admitted}
    writable = bool(admitted_lua - refused)
    rep.ob(rule, "can_assign|Index|writable-at-run-time", writable or not index_accepted,
           ("index targets are %s; the checker lets an indexed value be %s, __ASSIGN_INDEX refuses %s" % (
               "accepted" if index_accepted else "rejected", sorted(admitted), sorted(refused)))
           if (writable or not index_accepted) else
           "can_assign accepts `v[i] = x`, constant_index only admits %s for v and __ASSIGN_INDEX stops the program for %s: every "
           "accepted index assignment (`t := (1, 2)  t[0] = 5`) fails at run time" % (sorted(admitted), sorted(refused)),
           fci["sp"])
    return writable


def _varkind_arg(call, idx):
    a = peel(call_args(call)[idx])
    if a.get("k") == "Path" and a.get("res") == "Def":
        return last(norm_path(a["path"]))
    return None


def binder_kinds(F, rep):
    R = NR + "Resolver::"
    fexp = F.fn(R + "expression")
    rep.analysed(fexp)
    # parameters: push_var(n, VarKind::Const) in the Function arm
    for arm, alt in tc.arm_of(F, fexp, "sylt_parser::expression::ExpressionKind", "Function"):
        kinds = [_varkind_arg(c, 2) for c in nodes(arm["body"], "MethodCall") if callee(c) == R + "push_var"]
        rep.ob("BINDER-KIND", "Resolver::expression|Function|params", kinds == ["Const"],
               "function parameters are declared with VarKind::%s (must be Const)" % kinds, line_of(arm))
    for arm, alt in tc.arm_of(F, fexp, "sylt_parser::expression::ExpressionKind", "Blob"):
        kinds = [_varkind_arg(c, 2) for c in nodes(arm["body"], "MethodCall") if callee(c) == R + "new_var"]
        rep.ob("BINDER-KIND", "Resolver::expression|Blob|self", kinds == ["Mutable"],
               "`self` is declared with VarKind::%s (Mutable)" % kinds, line_of(arm))
    n = 0
    for name in ("case_branch", "case_branch_inner"):
        fn = F.fn_opt(R + name)
        if not fn:
            continue
        rep.analysed(fn)
        for c in nodes(fn_body(fn), "MethodCall"):
            if callee(c) == R + "push_var":
                n += 1
                k = _varkind_arg(c, 2)
                rep.ob("BINDER-KIND", "Resolver::%s|binding" % name, k == "Const",
                       "case bindings are declared with VarKind::%s (must be Const)" % k, line_of(c))
    rep.floor("BINDER-KIND", "case binding push_var sites", n, 1)
    # globals: new_global(ident, *kind) for definitions, Const for blob/enum
    fins = F.fn(R + "insert_namespace_and_add_definitions")
    rep.analysed(fins)
    for m in matches_on(fn_body(fins), "sylt_parser::statement::StatementKind"):
        for arm in m["arms"]:
            names = {last(pat_variant(a)) for a in pat_alternatives(arm["pat"]) if pat_variant(a)}
            calls = [c for c in nodes(arm["body"], "MethodCall") if callee(c) == R + "new_global"]
            if names & {"Definition", "ExternalDefinition"} and calls:
                a = peel(call_args(calls[0])[2])
                fl = Flow(fins, fn_body(fins))
                rep.ob("BINDER-KIND", "insert_namespace|Definition", tc.root_field(fl, a) == "kind",
                       "globals keep the kind written in their declaration (%s)" % pp(a), line_of(arm))
            if names & {"Blob", "Enum"} and calls:
                rep.ob("BINDER-KIND", "insert_namespace|Blob,Enum", _varkind_arg(calls[0], 2) == "Const",
                       "type declarations are Const", line_of(arm))
    # parser: token -> kind
    fst = F.fn("sylt_parser::statement::statement")
    rep.analysed(fst)
    maps = {}
    for m in nodes(fn_body(fst), "Match"):
        if not ty_is(m.get("scrut_ty", ""), "sylt_tokenizer::token::Token"):
            continue
        for arm in m["arms"]:
            b = peel(arm["body"])
            if b.get("k") == "Path" and b.get("res") == "Def" and "VarKind::" in norm_path(b["path"]):
                for alt in pat_alternatives(arm["pat"]):
                    v = pat_variant(alt)
                    if v:
                        maps.setdefault(last(v), set()).add(last(norm_path(b["path"])))
    want = {"ColonColon": {"Const"}, "ColonEqual": {"Mutable"}, "Colon": {"Const"}, "Equal": {"Mutable"}}
    rep.ob("BINDER-KIND", "parser::statement|token->kind", maps == want,
           "definition operators map to kinds %s (expected `::`/`: T :` -> Const, `:=`/`: T =` -> Mutable)" % {k: sorted(v) for k, v in maps.items()},
           fst["sp"])
    # the resolver copies the parsed kind into Statement::Definition and TypeChecker::new copies var.kind
    ftn = F.fn(TC + "new")
    ok = any(f["name"] == "kind" and "kind" in pp(f["e"]) for s in nodes(fn_body(ftn), "Struct") for f in s["fields"])
    rep.ob("BINDER-KIND", "TypeChecker::new|kind-copied", ok, "the checker's variable table copies each variable's kind", ftn["sp"])


def ctx_propagation(F, rep, field, expect_special=None, rule="CTX", monotone=True):
    """every TypeCtx argument passed between the checker's functions: `field` is inherited (or set to true
    where the table says so), never reset or unknown"""
    cx = Ctx(F)
    expect_special = expect_special or {}
    n = 0
    seen_special = set()
    # which callees can (transitively) read the flag?  Only the context handed to those matters.
    readers = set()
    calls_with_ctx = {}
    for fn in F.fns_in(TCM):
        if fn["_path"].startswith(TCM + "TypeCtx::"):
            continue
        for x in nodes(fn_body(fn), "Field"):
            if x["name"] == field and ty_is(x.get("base_ty", ""), TCM + "TypeCtx"):
                readers.add(fn["_path"])
        for c in nodes(fn_body(fn)):
            if c.get("k") in ("Call", "MethodCall"):
                cal = callee(c)
                if cal and cal.startswith(TCM) and tc.ctx_arg_index(F, cal) is not None:
                    calls_with_ctx.setdefault(fn["_path"], set()).add(cal)
    relevant = set(readers)
    changed = True
    while changed:
        changed = False
        for f, cs in calls_with_ctx.items():
            if f not in relevant and cs & relevant:
                relevant.add(f)
                changed = True
    rep.ob(rule, "%s|readers" % field, bool(readers),
           "functions reading ctx.%s: %s; functions through which it must be propagated: %s" % (
               field, sorted(last(r) for r in readers), sorted(last(r) for r in relevant)), sites=len(relevant))
    for fn in F.fns_in(TCM):
        body = fn_body(fn)
        fl = None
        fname = last(fn["_path"])
        for c, parents in walk(body):
            if c.get("k") not in ("Call", "MethodCall"):
                continue
            cal = callee(c)
            idx = tc.ctx_arg_index(F, cal) if cal and cal.startswith(TCM) else None
            if idx is None or cal not in relevant:
                continue
            if fl is None:
                fl = Flow(fn, body)
                rep.analysed(fn)
            arg = call_args(c)[idx]
            val = cx.eval(arg, fl)
            n += 1
            ctxname = tc._arm_context(parents)
            where = "%s|%s->%s" % (fname, ctxname or "-", last(cal))
            want = expect_special.get((fname, ctxname.split("/")[0] if ctxname else "", last(cal)))
            if fname == "solve" and last(fn["_path"], 2) == "TypeChecker::solve":
                # the root of the fold: everything starts from TypeCtx::new()
                ok = val[field] == tc.F_
                rep.ob(rule, "%s|%s|root" % (field, where), ok,
                       "solve() starts the fold with %s = %s (TypeCtx::new())" % (field, val[field]), line_of(c), sites=1)
                continue
            if want is not None:
                seen_special.add((fname, ctxname.split("/")[0] if ctxname else "", last(cal)))
                # a table entry is one required value or (acceptable values, reason)
                why = ""
                if isinstance(want, tuple):
                    want, why = want
                    ok = val[field] in want
                    want = " or ".join(sorted(want))
                else:
                    ok = val[field] == want
                rep.ob(rule, "%s|%s" % (field, where), ok,
                       "%s passed with %s = %s (required: %s)%s" % (pp(arg), field, val[field], want, why), line_of(c))
            else:
                # monotone flags: inheriting or setting to true can only reject more; resetting or an
                # unknown value loses the flag
                ok = set(val[field].split("|")) <= ({tc.I, tc.T_} if monotone else {tc.I})
                if not ok:
                    rep.ob(rule, "%s|%s" % (field, where), False,
                           "recursive call passes a context with %s = %s (must be inherited unchanged): the flag is lost or "
                           "forged at this nesting level" % (field, val[field]), line_of(c))
    rep.ob(rule, "%s|inherit-census" % field, True, "%d TypeCtx arguments evaluated; all not listed separately inherit `%s`" % (n, field), sites=n)
    rep.floor(rule, "TypeCtx arguments (%s)" % field, n, 30)
    for k in expect_special:
        if k not in seen_special:
            rep.ob(rule, "%s|%s|%s->%s|present" % ((field,) + k), False, "expected call site not found", None)
    # TypeCtx::new() only in solve
    news = []
    for fn in F.fns_in("sylt_compiler::"):
        for c in nodes(fn_body(fn), "Call"):
            if callee(c) == TCM + "TypeCtx::new":
                news.append(last(fn["_path"], 2))
    rep.ob(rule, "TypeCtx::new|only-in-solve", news == ["TypeChecker::solve"],
           "TypeCtx::new() (all flags false) is called only from %s" % news, None)
    # struct literals of TypeCtx outside its own impl
    lits = []
    for fn in F.fns_in(TCM):
        if fn["_path"].startswith(TCM + "TypeCtx::"):
            continue
        # (a TypeCtx method the fact loader inlined as a new helper is still one of TypeCtx's own methods)
        own = [id(s) for b in nodes(fn_body(fn), "Block") if (b.get("inlined") or "").startswith(TCM + "TypeCtx::")
               for s in nodes(b, "Struct")]
        for s in nodes(fn_body(fn), "Struct"):
            if ty_is(s.get("ty", ""), TCM + "TypeCtx") and id(s) not in own:
                lits.append(last(fn["_path"], 2))
    rep.ob(rule, "TypeCtx|no-adhoc-literals", not lits, "no TypeCtx literal outside TypeCtx's own methods (%s)" % lits, None)
    # method summaries
    dummy_fn = dict(params=[], body=None, _path="")
    for mname, want in (("enter_loop", {"inside_loop": tc.T_, "inside_pure": tc.I}),
                        ("enter_pure", {"inside_loop": tc.I, "inside_pure": tc.T_}),
                        ("new", {"inside_loop": tc.F_, "inside_pure": tc.F_})):
        fn = F.fn(TCM + "TypeCtx::" + mname)
        fl2 = Flow(fn, fn_body(fn))
        val = cx.eval(tc.n_tail(fn_body(fn)), fl2)
        rep.ob(rule, "TypeCtx::%s|summary" % mname, val == want,
               "TypeCtx::%s yields %s (expected %s)" % (mname, val, want), fn["sp"])


def enter_pure_site(F, rep):
    """the body of a function literal is checked under `if *pure { ctx.enter_pure() } else { ctx }`"""
    fexpr = F.fn(TC + "expression")
    fl = Flow(fexpr, fn_body(fexpr))
    cx = Ctx(F)
    arms = tc.arm_of(F, fexpr, E, "Function")
    ok = False
    where = None
    for arm, alt in arms:
        for c in nodes(arm["body"], "MethodCall"):
            if callee(c) == TC + "expression_block":
                where = line_of(c)
                arg = c["args"][2]
                val = cx.eval(arg, fl)
                src = fl.trace(arg)
                cond_ok = False
                if src.get("k") == "If":
                    cond_ok = tc.root_field(fl, src["c"]) == "pure" and \
                        cx.eval(tc.n_tail(src["t"]), fl)["inside_pure"] == tc.T_
                ok = val["inside_pure"] == "inherit|true" and cond_ok
    rep.ob("CTX", "inside_pure|expression|Function|enter_pure", ok,
           "the body of a `pu` literal is checked with inside_pure = true (selected by the literal's `pure` field)", where)


def _mentions_flag(e, flag):
    for n in nodes(e, "Field"):
        if n["name"] == flag and ty_is(n.get("base_ty", ""), TCM + "TypeCtx"):
            return True
    return False


def _cond_shape(c, flag):
    """('plain',) for `ctx.flag`, ('and', other) for `ctx.flag && other`, ('not',) for `!ctx.flag`, None otherwise"""
    c = peel(c)
    if c.get("k") == "Field" and c["name"] == flag:
        return ("plain",)
    if c.get("k") == "Unary" and c.get("op") == "Not" and peel(c["e"]).get("k") == "Field" and peel(c["e"])["name"] == flag:
        return ("not",)
    if c.get("k") == "Binary" and c.get("op") == "And":
        l = _cond_shape(c["l"], flag)
        if l == ("plain",):
            return ("and", c["r"])
    return None


def _else_if(n):
    e = n.get("e")
    hops = 0
    while isinstance(e, dict) and hops < 4:
        e = peel(e)
        if e.get("k") == "If":
            return e
        if e.get("k") == "Block" and not e.get("stmts") and e.get("e") is not None:
            e = e["e"]
            hops += 1
            continue
        return None
    return None


def guard_in(rep, rule, key, scope_node, flag, shape_want, other_pred, err_kinds, text, where, settles=None, after_settle=None):
    """an `if <flag-cond> { return Err }` unconditional within scope_node (`settles`: a branch in front of it, in the same
    if / else-if chain, that is accepted because it makes the guarded condition false instead of refusing)"""
    found = None
    cands = []
    behind_settle = set()
    for n in uncond_nodes(scope_node):
        if n.get("k") != "If":
            continue
        cands.append(n)
        cur = n
        while settles is not None and settles(cur) and _else_if(cur) is not None:
            cur = _else_if(cur)
            cands.append(cur)
            behind_settle.add(id(cur))
    for n in cands:
        sh = _cond_shape(n["c"], flag)
        if sh is None:
            continue
        if sh[0] != shape_want:
            found = found or ("shape", sh[0], n)
            continue
        if shape_want == "and" and other_pred is not None and not other_pred(sh[1]) and \
                not (id(n) in behind_settle and after_settle is not None and after_settle(sh[1])):
            found = ("other", pp(sh[1]), n)
            continue
        if not tc.is_err_value(n["t"]):
            found = ("noerr", "", n)
            continue
        found = ("ok", tc.err_kind(n["t"]), n)
        break
    if found and found[0] == "ok":
        rep.ob(rule, key, True, text + " — guard present (Err %s)" % found[1], line_of(found[2]))
        return found[2]
    detail = "no such guard on the arm's unconditional path" if not found else "guard malformed: %s %s" % (found[0], found[1])
    rep.ob(rule, key, False, text + " — " + detail, where)
    return None


def purity_guards(F, rep):
    fdef = F.fn(TC + "definition")
    rep.analysed(fdef)
    scope = fn_body(fdef)
    for i in nodes(scope, "If"):
        if peel(i["c"]).get("k") == "LetCond" and "Definition" in pp(i["c"]):
            scope = i["t"]
            break
    guard_in(rep, "GUARD", "definition|mutable-in-pure", scope, "inside_pure", "and",
             lambda o: "immutable" in pp(o) and peel(o).get("k") == "Unary" and peel(o).get("op") == "Not",
             None, "`:=` declarations inside a pure function are rejected", fdef["sp"])
    fstmt = F.fn(TC + "statement")
    arms = tc.arm_of(F, fstmt, S, "Assignment")
    if arms:
        guard_in(rep, "GUARD", "statement|Assignment|in-pure", arms[0][0]["body"], "inside_pure", "plain", None, None,
                 "assignments inside a pure function are rejected", line_of(arms[0][0]))
    fexpr = F.fn(TC + "expression")
    rep.analysed(fexpr)
    arms = tc.arm_of(F, fexpr, E, "Read")
    if arms:
        fl = Flow(fexpr, fn_body(fexpr))

        def not_immutable(o):
            o = peel(o)
            if not (o.get("k") == "Unary" and o.get("op") == "Not"):
                return False
            inner = fl.trace(o["e"])
            return inner.get("k") == "MethodCall" and callee(inner) == "sylt_parser::VarKind::immutable"
        guard_in(rep, "GUARD", "expression|Read|mutable-in-pure", arms[0][0]["body"], "inside_pure", "and", not_immutable, None,
                 "reads of non-Const variables inside a pure function are rejected", line_of(arms[0][0]))
    arms = tc.arm_of(F, fexpr, E, "Call")
    if arms:
        arm = arms[0][0]
        inner = [m for m in nodes(arm["body"], "Match") if ty_is(m.get("scrut_ty", ""), TY) and "matches" not in (m.get("mac") or [])]
        ok_struct = False
        if inner:
            fa = [a for a in inner[0]["arms"] if any((pat_variant(x) or "").endswith("Type::Function") for x in pat_alternatives(a["pat"]))]
            others_err = all(tc.is_err_value(a["body"]) for a in inner[0]["arms"] if a not in fa)
            if fa and others_err:
                ok_struct = True

                def not_pure(o):
                    o = peel(o)
                    if not (o.get("k") == "Unary" and o.get("op") == "Not"):
                        return False
                    t = pp(o["e"])
                    return "Purity::Pure" in t and "purity" in t

                fexpr_ = F.fn(TC + "expression")

                def settles_open(n_):
                    # `if ctx.inside_pure && matches!(purity, Purity::Undefined) { unify(callee, Function(.., Purity::Pure))? }`: the open
                    # purity is settled to Pure by the call (as for a callee that is not known yet) - afterwards the callee is Pure
                    sh_ = _cond_shape(n_["c"], "inside_pure")
                    if not (sh_ and sh_[0] == "and" and "Purity::Undefined" in tc.cond_text(fexpr_, sh_[1]) and "Purity::Pure" not in tc.cond_text(fexpr_, sh_[1])):
                        return False
                    made = [c_ for c_ in nodes(n_["t"], "Call") if (callee(c_) or "").endswith("Type::Function") and len(c_["args"]) == 3
                            and pp(peel(c_["args"][2])).endswith("Purity::Pure")]
                    unified = [u_ for u_ in nodes(n_["t"], "MethodCall") if callee(u_) == TC + "unify"]
                    return bool(made) and bool(unified) and all(p_.get("k") == "Try" or True for p_ in [n_])
                guard_in(rep, "GUARD", "expression|Call|impure-in-pure", fa[0]["body"], "inside_pure", "and", not_pure, None,
                         "calls of callees whose purity is not Pure inside a pure function are rejected", line_of(fa[0]), settles=settles_open,
                         # behind the settling branch the purity is Pure or Impure: naming Impure refuses the same callees
                         after_settle=lambda o_: "Purity::Impure" in pp(o_) and peel(o_).get("k") != "Unary")
        if not ok_struct:
            rep.ob("GUARD", "expression|Call|impure-in-pure", False, "cannot locate the Function arm of the callee-type match", line_of(arm))


def purity_unify(F, rep):
    fsu = F.fn(TC + "sub_unify")
    rep.analysed(fsu)
    rows = None
    for m in nodes(fn_body(fsu), "Match"):
        if m.get("scrut_ty", "").count("sylt_compiler::ty::Purity") == 2:
            rows = m
    if rows is None:
        rep.anchor_missing("match on (a_purity, b_purity) in sub_unify")
    else:
        P = ["Pure", "Impure", "Undefined"]
        verdict = {}
        for arm in rows["arms"]:
            v = "err" if tc.is_err_value(arm["body"]) else "ok"
            ek = tc.err_kind(arm["body"]) if v == "err" else None
            for alt in pat_alternatives(arm["pat"]):
                ps = tc._tuple_pats(alt, 2)
                for a in P:
                    for b in P:
                        if (a in ps[0] or "_" in ps[0]) and (b in ps[1] or "_" in ps[1]) and (a, b) not in verdict:
                            verdict[(a, b)] = (v, ek)
        rejected = {k for k, v in verdict.items() if v[0] == "err"}
        rep.ob("PURITY-UNIFY", "sub_unify|purity-pairs", rejected == {("Pure", "Impure"), ("Impure", "Pure")} and len(verdict) == 9,
               "function types with purities %s do not unify (expected exactly Pure/Impure both ways)" % sorted(rejected), line_of(rows))
        # the purity a wildcard (Undefined) meets must survive the merge on *both* nodes: union() keeps only the
        # representative's type, so otherwise Impure -> Undefined -> Pure passes whenever the Undefined node wins
        fl_su = Flow(fsu, fn_body(fsu))
        keeps = set()
        arm_of_rows = None
        for m2 in nodes(fn_body(fsu), "Match"):
            for a2 in m2["arms"]:
                if any(x is rows for x in nodes(a2["body"], "Match")):
                    arm_of_rows = a2
        if arm_of_rows is not None:
            for asg in nodes(arm_of_rows["body"], "Assign"):
                l = peel(asg["l"])
                r = peel(asg["r"])
                if l.get("k") == "Field" and l["name"] == "ty" and r.get("k") == "Call" and (callee(r) or "").endswith("Type::Function") and len(r["args"]) == 3:
                    src = peel(fl_su.trace(r["args"][2])) if peel(r["args"][2]).get("k") == "Path" else peel(r["args"][2])
                    if src.get("k") == "MethodCall" and src["m"] == "clone":
                        src = peel(fl_su.trace(src["recv"])) if peel(src["recv"]).get("k") == "Path" else peel(src["recv"])
                    if src is rows or any(x is rows for x in nodes(src)):
                        tgt = [x.get("name") for c in nodes(l["e"], "MethodCall") if c["m"] == "find_node_mut" for x in nodes(c["args"], "Path")]
                        keeps |= set(tgt)
        rep.ob("PURITY-UNIFY", "sub_unify|merge-keeps-purity", keeps >= {"a", "b"},
               "after two function types are unified both nodes carry the merged purity (Undefined takes on what it met): %s" % sorted(keeps)
               if keeps >= {"a", "b"} else
               "the purity an Undefined (`fn`-annotated) function type meets is not written back: union() keeps one node's type, so "
               "`alias : fn -> int : impure_fn` followed by `p : pu -> int : alias` is accepted when the annotation's node survives",
               line_of(rows))
    # externals: the declaration is the only source of purity, `fn` must mean Impure there
    fos = F.fn(TC + "outer_statement")
    forced = False
    depends_on = None
    for arm, alt in tc.arm_of(F, fos, NR + "Statement", "ExternalDefinition"):
        for asg in nodes(arm["body"], "Assign"):
            r = peel(asg["r"])
            if r.get("k") == "Call" and (callee(r) or "").endswith("Type::Function") and len(r["args"]) == 3:
                p3 = peel(r["args"][2])
                forced = p3.get("k") == "Path" and norm_path(p3.get("path") or "").endswith("Purity::Impure")
                # .. whatever else the declaration says (constant or not, its name): the only thing the conversion may depend
                # on is the declared type itself.  A mutable `hook : fn int -> int = external` left open is a fresh instance at
                # every read, so `p : pu int -> int : hook` is accepted.
                others = {b["hid"]: b["name"] for b in pat_bindings(alt) if b["name"] not in ("ty", "span")}
                for x, parents in walk(arm["body"]):
                    if x is asg:
                        for p_ in parents:
                            cond = p_.get("c") if p_.get("k") == "If" else (p_.get("scrut") if p_.get("k") == "Match" else None)
                            if cond is None:
                                continue
                            used = [others[y["hid"]] for y in nodes(cond, "Path") if y.get("hid") in others]
                            if used:
                                forced = False
                                depends_on = used[0]
    # .. and the same for the functions an external *hands out*: what it returns, what its tuple / list holds.  (What it takes is
    # the caller's business - a callback parameter may be of any purity.)
    nested = False
    for arm, alt in tc.arm_of(F, fos, NR + "Statement", "ExternalDefinition"):
        for lp in nodes(arm["body"]):
            if lp.get("k") in ("While", "Loop", "ForLoop"):
                for asg in nodes(lp, "Assign"):
                    r = peel(asg["r"])
                    if r.get("k") == "Call" and (callee(r) or "").endswith("Type::Function") and len(r["args"]) == 3 and \
                            norm_path(peel(r["args"][2]).get("path") or "").endswith("Purity::Impure"):
                        nested = True
    rep.ob("PURITY-UNIFY", "outer_statement|functions-an-external-hands-out-are-impure", nested,
           "the conversion walks the declared type: functions in result, tuple and list positions are impure as well" if nested else
           "only the outermost `fn` of an external's declared type becomes impure: a function it *returns* or holds "
           "(`get_cb : fn -> (fn int -> int) : external`, `cbs : (fn int -> int, int) : external`) keeps the wildcard purity, and "
           "`apply(get_cb(), 1)` with `apply :: pu g: pu int -> int ..` is accepted", fos["sp"])
    rep.ob("PURITY-UNIFY", "outer_statement|external-fn-is-impure", forced,
           "an external declared with `fn` gets Purity::Impure (its declaration is all that is known about it)" if forced else
           "an external declared `fn` becomes impure only depending on `%s` of the declaration: for the others the wildcard purity of "
           "an annotation stays, every read is a fresh instance of it, and `hook : fn int -> int = external` is accepted where a "
           "`pu int -> int` is declared (`p : pu int -> int : hook`), so pure functions can call it" % depends_on if depends_on else
           "an external declared `fn` keeps the wildcard purity of an annotation: `tick : fn -> int : external` is accepted where a "
           "`pu -> int` is declared (`h : pu -> int : tick`) and a pure function may then call it", fos["sp"])
    ftf = F.fn(TC + "type_from_function")
    rep.analysed(ftf)
    ok = False
    for i in nodes(fn_body(ftf), "If"):
        c = peel(i["c"])
        if c.get("k") == "Path" and c.get("name") == "pure":
            t, e = pp(tc.n_tail(i["t"])), pp(tc.n_tail(i["e"]))
            ok = t.endswith("Purity::Pure") and e.endswith("Purity::Impure")
    rep.ob("PURITY-UNIFY", "type_from_function|literal-purity", ok, "a `pu` literal is Pure, a `fn` literal Impure", ftf["sp"])
    annotation_purity(F, rep)
    fic = F.fn(TC + "inner_copy")
    ok = False
    for m in matches_on(fn_body(fic), TY):
        for arm, alt, vp in arm_alternatives(m):
            if vp and vp.endswith("Type::Function"):
                binds = pat_bindings(alt)
                b = peel(arm["body"])
                if b.get("k") == "Call" and (callee(b) or "").endswith("Type::Function") and len(binds) == 3:
                    a3 = peel(b["args"][2])
                    ok = a3.get("k") == "Path" and a3.get("hid") == binds[2]["hid"]
    rep.ob("PURITY-UNIFY", "inner_copy|purity-kept", ok, "instantiating (copying) a function type keeps its purity", fic["sp"])


def annotation_purity(F, rep, rule="PURITY-UNIFY"):
    """a written `fn ..` type resolves to the wildcard purity (Undefined, which sub_unify lets meet anything); only a
    written `pu ..` type demands purity.  Were `fn` annotations Impure, a correct annotation on a value holding a pure
    function would be rejected although the erased program is accepted (C08), and pure values could not flow into
    `fn`-typed parameters."""
    firt = F.fn(TC + "inner_resolve_type")
    rep.analysed(firt)
    fl = Flow(firt, fn_body(firt))
    found = None
    for arm, alt in tc.arm_of(F, firt, NR + "Type", "Fn"):
        for c in nodes(arm["body"], "Call"):
            if (callee(c) or "").endswith("ty::Type::Function") and len(c["args"]) == 3:
                src = fl.trace(c["args"][2])
                found = sorted({last(norm_path(x["path"])) for x in nodes(src, "Path")
                                if "::Purity::" in norm_path(x.get("path") or "")})
    ok = found == ["Pure", "Undefined"]
    rep.ob(rule, "inner_resolve_type|annotation-purity", ok,
           "the purity of a written function type is chosen among %s (expected: Pure for `pu`, Undefined for `fn`)" % found, firt["sp"])


def purity_walks_reach_every_component(F, rep, rule="PURITY-COPY"):
    """The checker has walks over a type that look for (or settle) the purity of the function types *in* it: the test that keeps a field
    with an open purity from being copied, the pass that makes what an external hands out impure.  A function type sits wherever a type
    has components; TypeChecker::parts lists them for every constructor (the copy follows exactly those).  A purity walk - a work-list
    loop in whose body Purity is named - that has no arm for a constructor with components stops in front of it: the function type
    behind it (`get: pu int -> Maybe(fn int -> int)`) keeps an open purity, each copy settles it for itself, and a pure function calls an
    impure one."""
    fparts = F.fn(TC + "parts")
    rep.analysed(fparts)
    with_parts = set()
    for m in matches_on(fn_body(fparts), TY):
        for arm, alt, vp in arm_alternatives(m):
            if not vp:
                continue
            b = peel(arm["body"])
            empty = b.get("k") == "Call" and (callee(b) or "").endswith("Vec::new") or pp(b).strip() in ("Vec::new()", "vec![]")
            if not empty:
                with_parts.add(last(vp))
        break
    if not with_parts:
        rep.anchor_missing("the constructors TypeChecker::parts gives components for")
        return

    def positions(alt, arm_body, used_in):
        """indices of the constructor's fields that the pattern binds and `used_in(arm_body)` mentions"""
        a = alt
        while a.get("k") in ("Ref", "Box", "Deref") and a.get("pat") is not None:
            a = a["pat"]
        out = set()
        if a.get("k") != "TupleStruct":
            return out
        names = {x.get("name") for u in used_in for x in nodes(u, "Path") if x.get("res") == "Local"}
        for i_, sp_ in enumerate(a["pats"]):
            if any(b["name"] in names for b in pat_bindings(sp_)):
                out.add(i_)
        return out
    ref_pos = {}
    for m in matches_on(fn_body(fparts), TY):
        for arm, alt, vp in arm_alternatives(m):
            if vp and last(vp) in with_parts:
                ref_pos[last(vp)] = positions(alt, arm["body"], [arm["body"]])
        break
    # reviewed: the pass over an external's declaration leaves the parameters of a function alone on purpose
    LEFT_OUT = {("outer_statement", "Function", 0): "what an external takes is up to the caller - a callback can be of any purity"}
    n = 0
    for fn in F.fns_in(TC):
        if fn["_path"] == TC + "parts":
            continue
        for lp in [x for x in nodes(fn_body(fn)) if x.get("k") in ("Loop", "While")]:
            pops = [c for c in nodes(lp, "MethodCall") if c["m"] == "pop" and "Vec<" in (peel(c["recv"]).get("ty") or "")]
            if not pops or "Purity::" not in pp(lp):
                continue
            wl = peel(pops[0]["recv"]).get("hid")
            ms = [m for m in matches_on(lp, TY)]
            if wl is None or not ms:
                continue
            n += 1
            m = ms[0]
            reached = set()
            generic = False
            for arm, alt, vp in arm_alternatives(m):
                # .. whenever the arm is taken: a component pushed only under a condition on the node itself (`if purity is open`) is
                # not reached behind a node that fails the condition (`make : pu int -> fn int -> int : external`)
                grows = [c for c in uncond_nodes(arm["body"]) if c.get("k") == "MethodCall" and c["m"] in ("push", "extend", "append")
                         and peel(c["recv"]).get("hid") == wl]
                stops = [r for r in nodes(arm["body"], "Ret")]
                if vp and (grows or stops):
                    reached.add(last(vp))
                if vp and grows and last(vp) in ref_pos:
                    got = positions(alt, arm["body"], grows)
                    lacking = sorted(i_ for i_ in ref_pos[last(vp)] - got if (last(fn["_path"]), last(vp), i_) not in LEFT_OUT)
                    rep.ob(rule, "%s|purity-walk|%s|all-components" % (last(fn["_path"]), last(vp)), not lacking,
                           "the arm for Type::%s pushes every component parts() lists%s" % (last(vp), " (but the reviewed ones)" if ref_pos[last(vp)] - got else "")
                           if not lacking else
                           "the arm for Type::%s in the purity walk of TypeChecker::%s leaves out field %s of the constructor, which parts() "
                           "lists as a component: a function type there (a callback parameter: `run: pu (fn int -> int) -> int`) keeps an "
                           "open purity that is not seen - the field is copied per read when its type is known (annotated) and shared when "
                           "it is not" % (last(vp), last(fn["_path"]), lacking), line_of(arm))
                if not vp and any(callee(c) == TC + "parts" for c in nodes(arm["body"], "MethodCall")) and grows:
                    generic = True
            missing = sorted(with_parts - reached) if not generic else []
            rep.ob(rule, "%s|purity-walk|reaches-every-component" % last(fn["_path"]), not missing,
                   "the purity walk in TypeChecker::%s goes on into the components of %s" % (last(fn["_path"]), "every type (parts())" if generic else sorted(reached))
                   if not missing else
                   "the purity walk in TypeChecker::%s has no arm for %s, which TypeChecker::parts gives components: a function type behind one "
                   "of these (`get: pu int -> Maybe(fn int -> int)`, `hook : fn -> Maybe(fn int -> int) : external`) keeps an open purity that "
                   "every copy settles for itself - a pure function calls an impure one through it" % (last(fn["_path"]), ", ".join("Type::" + x for x in missing)),
                   line_of(m))
    rep.floor(rule, "purity walks over a work list", n, 2)
