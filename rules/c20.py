"""C20 — driver contract: exit status, all-or-nothing output, flags (DESIGN §4 C20)."""
import re
from hir import (nodes, walk, fn_body, callee, call_args, last, line_of, peel, peel_clone, pp, norm_path, pat_alternatives,
                 pat_variant, pat_bindings, find_formats)
from engines import matches_on, arm_alternatives, ty_is
from flow import Flow, uncond_nodes
import luatpl

EXPLANATION = (
    "Decides: (EXIT) main returns Err (non-zero exit status) exactly when the error vector returned by run_file is "
    "non-empty and prints every element; a missing file argument is Err, --help is Ok; (ATOMIC) with -o FILE the program is "
    "compiled into a memory buffer, File::create is reached only after the compile call returned successfully (`?`), and "
    "the buffer is written with a call that cannot silently write a prefix; (WRITE-CHECKED) no resolved call of "
    "std::io::Write::write (which may write fewer bytes than given, and whose error is easy to drop) occurs on the output "
    "path of the compiler or the driver: write_all with a propagated error is required, and errors reach main; "
    "(SAME-COMPILE) `-o -` and `-o FILE` call the same compile_with_reader_to_writer(args, reader, W) and differ only in W; "
    "(REQUIRE) exactly one `require \"<M without .lua>\"` is written, only when --require is given, after the preamble and "
    "before the first instruction, and the option is passed unchanged from the command line to the emitter."
    ' (ATOMIC output-truncated) FILE is opened with truncation (File::create, or an OpenOptions chain with truncate(true)).'
    ' (EXIT io errors) no io::Result on the output path is unwrapped; (ATOMIC one-step write, NO-STD prelude / qualified lookup) three known findings.'
    ' (WRITE-CHECKED no-fsync) success depends only on create / write / flush, which every writable path supports.'
    ' (FILE-ID) no two files share an id, so equal positions in two files stay two errors; (ATOMIC emitter) lua::generate fails only when a write fails.'
)
UNDECIDED = "--no-std equivalence (variable numbering changes) and run mode (needs the lua interpreter)."

MANIFEST = dict(
    text=EXPLANATION + " Not decided: " + UNDECIDED,
    technique="ordering/dominance rule on the driver's HIR, resolved-call rule for partial writes, data-flow of the flag through the call chain",
)

LIB = "sylt::"


def run(F, rep, tier):
    rep.explanation = EXPLANATION
    rep.undecided = UNDECIDED
    exit_status(F, rep)
    atomic(F, rep)
    write_checked(F, rep)
    same_compile(F, rep)
    require_flag(F, rep)
    # `--no-std changes nothing for programs that do not use the standard library`: the prelude's imports must not capture
    # the program's own names
    import c09
    c09.qualified_lookup(F, rep)
    # "prints every error otherwise": the loader reads every file that is reachable, also through a file that did not parse
    import c12
    c12.visit_once(F, rep)
    # .. and no two files share an id, or errors at equal positions in two files are taken for one
    c12.file_ids_unique(F, rep)
    prelude_yields(F, rep)
    emitter_has_no_errors_of_its_own(F, rep)
    every_file_is_heard(F, rep)


def nonempty_errors(F, rep, rule="EXIT"):
    """main() fails iff the error list it got is not empty - `Err(vec![])` anywhere in the pipeline is therefore a silent
    success with nothing written.  Every `Err(<vector>)` built in the parser, the compiler and the driver is classified:
    a `vec![..]` literal with at least one element; a vector returned under a test that it is not empty; the cycle report
    (whose non-emptiness is the CYCLE obligations of C11, repeated here)."""
    import c11
    from hir import walk
    from irtpl import vec_macro_elems
    n = 0
    bad = []
    for fn in F.own_fns(["sylt", "sylt_compiler", "sylt_parser"]):
        if "::test" in fn["_path"]:
            continue
        for c, parents in walk(fn_body(fn)):
            if not (c.get("k") == "Call" and (callee(c) or "").endswith("Result::Err") and c["args"]):
                continue
            a = peel(c["args"][0])
            t = a.get("ty") or ""
            if not t.startswith("alloc::vec::Vec<"):
                continue
            n += 1
            els = vec_macro_elems(a)
            if els is not None:
                if len(els) >= 1:
                    continue
                bad.append((fn, c, "an empty vec![]"))
                continue
            if a.get("k") == "Path" and a.get("res") == "Local" and _bound_in_err_pattern(a["hid"], parents):
                continue      # the error of another call handed on: non-empty by induction over this census
            fname = last(fn["_path"], 2)
            if fname == "order::recurse" and callee(a) and callee(a).endswith("Vec::new"):
                continue      # the cycle report starts empty: CYCLE|order::recurse|cycle-list-non-empty
            # returned under a test that it is not empty
            txt = pp(a).replace(".clone()", "")
            guarded_ = False
            for i, p_ in enumerate(parents):
                if p_.get("k") != "If":
                    continue
                cnd = peel(p_["c"])
                neg = False
                if cnd.get("k") == "Unary" and cnd.get("op") == "Not":
                    neg, cnd = True, peel(cnd["e"])
                if cnd.get("k") == "MethodCall" and cnd["m"] == "is_empty" and pp(cnd["recv"]).replace(".clone()", "") == txt:
                    nxt = parents[i + 1] if i + 1 < len(parents) else c
                    in_then = any(x is nxt for x in nodes(p_["t"]))
                    if (neg and in_then) or (not neg and not in_then):
                        guarded_ = True
            if guarded_:
                continue
            # compile(): the errors recorded for the members of a dependency cycle
            arm_of_cycle = any(p_.get("k") == "Match" and callee(peel(p_["scrut"])) == "sylt_compiler::dependency::initialization_order"
                               for p_ in parents)
            if arm_of_cycle:
                continue      # CYCLE|Compiler::compile|one-error-per-cycle-member
            bad.append((fn, c, "`%s`" % pp(a)[:40]))
    for fn, c, what in bad:
        rep.ob(rule, "%s|Err(%s)|non-empty" % (last(fn["_path"], 2), re.sub(r"[^A-Za-z0-9_.!\[\]]", "", what)[:30]), False,
               "%s returns Err(%s) without anything that makes the vector non-empty: an error result that carries no error is "
               "treated as success by main() (exit status 0, nothing written)" % (last(fn["_path"], 2), what), line_of(c))
    rep.ob(rule, "Err-vectors|non-empty-census", not bad, "%d `Err(<vector>)` constructions: literal vec![..] with elements, "
           "vectors returned under a not-empty test, and the cycle report" % n, None, sites=n)
    rep.floor(rule, "Err(<vector>) constructions", n, 60)
    c11.cycle_nonempty(F, rep, rule)


def _bound_in_err_pattern(hid, parents):
    """`match call() { .. Err(e) => .. Err(e) }` / `if let Err(e) = call()`: e is the error vector of the callee"""
    from hir import pat_bindings, norm_path

    def err_binds(p):
        if not isinstance(p, dict):
            return False
        if p.get("k") == "TupleStruct" and (norm_path(p.get("path")) or "").endswith("Result::Err"):
            return any(b["hid"] == hid for b in pat_bindings(p))
        for key in ("pats",):
            if any(err_binds(q) for q in p.get(key) or []):
                return True
        return any(err_binds(p.get(k_)) for k_ in ("pat", "sub") if isinstance(p.get(k_), dict))
    for p_ in parents:
        if p_.get("k") == "Match" and any(err_binds(a_["pat"]) for a_ in p_["arms"]):
            return True
        if p_.get("k") == "If":
            c_ = peel(p_["c"])
            if c_.get("k") == "LetCond" and err_binds(c_["pat"]):
                return True
    return False


def exit_status(F, rep):
    fn = F.fn("sylt-bin::main")
    rep.analysed(fn)
    body = fn_body(fn)
    fl = Flow(fn, body)
    # let errs = sylt::run_file(&args).err().unwrap_or_else(Vec::new)
    errs_hid = None
    for hid, o in fl.origin.items():
        if o["kind"] == "let" and o["src"] is not None:
            calls = [callee(c) for c in nodes(o["src"]) if c.get("k") in ("Call", "MethodCall")]
            if LIB + "run_file" in calls and any((c or "").endswith("Result::err") for c in calls):
                errs_hid = hid
    rep.ob("EXIT", "main|errors-from-run_file", errs_hid is not None, "main takes the error list from run_file(&args).err()", fn["sp"])
    final = None
    for n in nodes(body, "If"):
        c = peel(n["c"])
        if c.get("k") == "MethodCall" and c["m"] == "is_empty" and peel(c["recv"]).get("hid") == errs_hid:
            final = n
    ok_then = ok_else = prints = False
    if final is not None:
        from tc import is_err_value, n_tail
        t = n_tail(final["t"])
        ok_then = t.get("k") == "Call" and (callee(t) or "").endswith("Result::Ok")
        e = final.get("e")
        if e:
            te = n_tail(e)
            ok_else = te.get("k") == "Call" and (callee(te) or "").endswith("Result::Err")
            for lp in nodes(e, "ForLoop"):
                if Flow.mentions(lp["iter"], {errs_hid}):
                    binds = {b["hid"] for b in pat_bindings(lp["pat"])}
                    for c in nodes(lp["body"], "Call"):
                        if (callee(c) or "").endswith("io::stdio::_print") or (callee(c) or "").endswith("_eprint"):
                            if any(isinstance(p, dict) and Flow.mentions(p["e"], binds) for _, parts in find_formats(c) for p in parts):
                                prints = True
        # the if must be the function's tail (its value is the exit status)
        tail = peel(body["e"]) if body.get("k") == "Block" and body.get("e") is not None else None
        is_tail = tail is final
        if not is_tail and e is None and body.get("k") == "Block":
            # the same decision with an early return: `if errs.is_empty() { return Ok(()); }` and the error path as the rest
            rt = [r for r in nodes(final["t"], "Ret")]
            ok_then = bool(rt) and all(peel(r.get("e") or {}).get("k") == "Call" and (callee(peel(r["e"])) or "").endswith("Result::Ok") for r in rt)
            idx = next((i_ for i_, st_ in enumerate(body["stmts"]) if any(x is final for x in nodes(st_))), None)
            if idx is not None and ok_then:
                rest = body["stmts"][idx + 1:]
                te = n_tail(body["e"]) if body.get("e") is not None else {}
                ok_else = te.get("k") == "Call" and (callee(te) or "").endswith("Result::Err")
                for st_ in rest:
                    for lp in nodes(st_, "ForLoop"):
                        if Flow.mentions(lp["iter"], {errs_hid}):
                            binds = {b["hid"] for b in pat_bindings(lp["pat"])}
                            for c in nodes(lp["body"], "Call"):
                                if (callee(c) or "").endswith("io::stdio::_print") or (callee(c) or "").endswith("_eprint"):
                                    if any(isinstance(p, dict) and Flow.mentions(p["e"], binds) for _, parts in find_formats(c) for p in parts):
                                        prints = True
                is_tail = True
    else:
        is_tail = False
    rep.ob("EXIT", "main|empty=>Ok", ok_then and is_tail, "no errors => main returns Ok(()) (exit status 0)", fn["sp"])
    nonempty_errors(F, rep)
    rep.ob("EXIT", "main|errors=>Err", ok_else and is_tail, "any error => main returns Err (non-zero exit status)", fn["sp"])
    rep.ob("EXIT", "main|prints-every-error", prints, "every error of the list is printed", fn["sp"])
    # usage
    usage = False
    for n in nodes(body, "If"):
        if "args.args.len()" in pp(n["c"]) and "Eq 0" in pp(n["c"]):
            from tc import is_err_value
            usage = any(is_err_value(r["e"]) for r in nodes(n["t"], "Ret"))
    rep.ob("EXIT", "main|no-file=>Err", usage, "running without a file argument is an error exit", fn["sp"])
    # no process::exit / early Ok after run_file
    exits = [c for c in nodes(body, "Call") if (callee(c) or "").startswith("std::process::exit")]
    rep.ob("EXIT", "main|no-process-exit", not exits, "main does not call process::exit", fn["sp"])
    # run_file forwards the result of run_file_with_reader
    rf = F.fn(LIB + "run_file")
    t = peel(fn_body(rf))
    while t.get("k") == "Block" and t.get("e") is not None and not t["stmts"]:
        t = peel(t["e"])
    rep.ob("EXIT", "run_file|forwards", callee(t) == LIB + "run_file_with_reader", "run_file returns run_file_with_reader's result unchanged", rf["sp"])


def _output_match(F):
    fn = F.fn(LIB + "run_file_with_reader")
    body = fn_body(fn)
    for m in nodes(body, "Match"):
        if "Option<std::path::PathBuf>" in m.get("scrut_ty", "").replace("core::option::", ""):
            return fn, m
    return fn, None


def _file_opens(root):
    """[(node, truncates, description)] for every place under root that opens a file for writing: File::create(p)
    (truncates) or an OpenOptions builder chain ending in .open(p) (truncates iff .truncate(true) and no .append(true))"""
    out = []
    for c in nodes(root):
        cal = callee(c) or ""
        if c.get("k") == "Call" and cal == "std::fs::File::create":
            out.append((c, True, "File::create"))
        elif c.get("k") == "MethodCall" and cal == "std::fs::OpenOptions::open":
            flags = {}
            r = peel(c["recv"])
            while isinstance(r, dict) and r.get("k") == "MethodCall":
                a = peel(r["args"][0]) if r.get("args") else {}
                if a.get("k") == "Lit" and a.get("lk") == "bool":
                    flags.setdefault(r["m"], a["v"])
                r = peel(r["recv"])
            trunc = flags.get("truncate") is True and not flags.get("append")
            out.append((c, trunc, "OpenOptions{%s}.open" % ", ".join("%s=%s" % kv for kv in sorted(flags.items()))))
    return out


def atomic(F, rep):
    fn, m = _output_match(F)
    rep.analysed(fn)
    if m is None:
        rep.anchor_missing("match on args.output in run_file_with_reader")
        return
    file_arm = None
    for arm in m["arms"]:
        if _file_opens(arm["body"]):
            file_arm = arm
    if file_arm is None:
        rep.anchor_missing("arm of run_file_with_reader that creates the output file")
        return
    opened = _file_opens(file_arm["body"])
    rep.ob("ATOMIC", "output-truncated", len(opened) == 1 and opened[0][1],
           "FILE is opened so that its previous contents are discarded (%s): a shorter program written over a longer one "
           "otherwise keeps the old tail" % "; ".join(o[2] for o in opened), line_of(opened[0][0]))
    blk = peel(file_arm["body"])
    stmts = [s.get("e") or s.get("init") for s in blk["stmts"]] + ([blk["e"]] if blk.get("e") is not None else [])
    i_compile = i_create = None
    compile_try = False
    for i, s in enumerate(stmts):
        if s is None:
            continue
        for n, parents in walk(s):
            if callee(n) == LIB + "compile_with_reader_to_writer" and i_compile is None:
                i_compile = i
                compile_try = any(p.get("k") == "Try" for p in parents) or peel(s).get("k") == "Try"
            if any(n is o[0] for o in opened) and i_create is None:
                i_create = i
    # .. and once the compile has succeeded the file *is* written: a write left out under some condition on what FILE holds already
    # (an "up to date" test, say) leaves an old program in place with status 0
    cond = None
    for n, parents in walk(file_arm["body"]):
        if n is opened[0][0]:
            cond = [p for p in parents if p.get("k") in ("If", "Match", "Closure", "Loop", "While")]
    rep.ob("ATOMIC", "output-always-written", cond == [],
           "after a successful compile FILE is created and written on every path (no condition around it)" if cond == [] else
           "FILE is created and written only under a condition (`%s`): on the other path a successful run leaves FILE as it was - "
           "an old program, or none - and still exits 0" % pp(cond[-1].get("cond") or cond[-1].get("scrut") or cond[-1])[:60],
           line_of(cond[-1]) if cond else line_of(opened[0][0]))
    # all-or-nothing also when the write itself fails: the bytes must go to a temporary file that replaces FILE in one step
    renames = [c for c in nodes(file_arm["body"], "Call") if callee(c) == "std::fs::rename"]
    rep.ob("ATOMIC", "write-replaces-in-one-step", bool(renames),
           "the buffer is written to a temporary file that is renamed over FILE" if renames else
           "FILE is truncated by File::create and then written in place: when write_all fails part-way (full disk, file size "
           "limit) an existing FILE has lost its old contents and holds a prefix of the new program - neither complete nor "
           "untouched", line_of(opened[0][0]))
    # a path that cannot be created is an error to report, not a panic
    panics = [c for c in nodes(file_arm["body"], "MethodCall") if c["m"] in ("expect", "unwrap")
              and (callee(c) or "").startswith("core::result::Result::")]
    rep.ob("EXIT", "output-file|io-errors-reported", not panics,
           "failing to create or write FILE is returned as Error::IOError (printed, status 1)" if not panics else
           "an io::Result on the `-o FILE` path is unwrapped with %s: `-o missing-dir/out.lua` panics (status 101, no error "
           "report) instead of printing an error" % sorted({c["m"] for c in panics}), line_of(panics[0]) if panics else line_of(file_arm))
    rep.ob("ATOMIC", "compile-before-create", i_compile is not None and i_create is not None and i_compile < i_create and compile_try,
           "with -o FILE the program is compiled first and `?` leaves on failure; File::create comes afterwards (statements %s < %s)" % (i_compile, i_create),
           line_of(file_arm))
    # the compile target is a memory buffer, and that buffer is what gets written
    fl = Flow(fn, fn_body(fn))
    buf_ok = data_ok = False
    for n in nodes(file_arm["body"], "Call"):
        if callee(n) == LIB + "compile_with_reader_to_writer":
            w = fl.trace(n["args"][2])
            base = peel_clone(w)
            while base.get("k") == "MethodCall" and base["m"] in ("by_ref",):
                base = peel_clone(base["recv"])
            buf_ok = base.get("k") == "Path" and "Vec<u8>" in base.get("ty", "")
            buf_hid = base.get("hid")
    for n in nodes(file_arm["body"], "MethodCall"):
        if n["m"] in ("write", "write_all") and (callee(n) or "").startswith("std::io::Write::"):
            data_ok = peel(n["args"][0]).get("hid") == buf_hid if buf_ok else False
    rep.ob("ATOMIC", "compile-into-buffer", buf_ok, "the compile call writes into a Vec<u8> buffer, not into the file", line_of(file_arm))
    rep.ob("ATOMIC", "buffer-written", data_ok, "the bytes written to FILE are that buffer", line_of(file_arm))
    # nothing else opens the output path for writing
    opens = []
    for f2 in F.own_fns(["sylt", "sylt_compiler", "sylt_parser", "sylt_common"]):
        if f2["_path"].startswith("sylt::formatter") or f2["_path"].startswith("sylt::test"):
            continue
        for c in nodes(fn_body(f2)):
            cal = callee(c) or ""
            if cal in ("std::fs::File::create", "std::fs::write", "std::fs::OpenOptions::open", "std::fs::File::options", "std::fs::File::create_new"):
                opens.append(last(f2["_path"], 2))
    rep.ob("ATOMIC", "single-writer", opens == ["sylt::run_file_with_reader"],
           "the only place that creates/opens a file for writing is run_file_with_reader (%s)" % opens, None)


def write_checked(F, rep):
    n_write = n_all = 0
    per_fn = {}
    for f2 in F.own_fns(["sylt", "sylt-bin", "sylt_compiler"]):
        if f2["_path"].startswith("sylt::formatter") or f2["_path"].startswith("sylt::test"):
            continue
        for c, parents in walk(fn_body(f2)):
            if c.get("k") != "MethodCall":
                continue
            cal = callee(c) or ""
            if cal == "std::io::Write::write":
                n_write += 1
                per_fn.setdefault(last(f2["_path"], 2), []).append(c)
            elif cal == "std::io::Write::write_all":
                n_all += 1
                # its Result must be propagated: inside `?`, or returned
                prop = any(p.get("k") == "Try" for p in parents[-4:]) or any(p.get("k") == "Ret" for p in parents[-3:])
                per_fn.setdefault(last(f2["_path"], 2) + "|write_all", []).append((c, prop))
    for fname, cs in sorted(per_fn.items()):
        if fname.endswith("|write_all"):
            bad = [c for c, prop in cs if not prop]
            rep.ob("WRITE-CHECKED", fname + "|propagated", not bad,
                   "%d write_all calls in %s; %d whose io::Result is not propagated with `?`" % (len(cs), fname.split("|")[0], len(bad)),
                   line_of(bad[0]) if bad else line_of(cs[0][0]), sites=len(cs))
        else:
            rep.ob("WRITE-CHECKED", fname + "|Write::write", False,
                   "%d calls of std::io::Write::write in %s: a short write or an error (closed pipe, full disk) is ignored and the "
                   "process still exits 0 with truncated output" % (len(cs), fname), line_of(cs[0]), sites=len(cs))
    rep.ob("WRITE-CHECKED", "census", True, "output path of crates sylt / sylt_compiler: %d Write::write, %d Write::write_all calls" % (n_write, n_all), sites=n_write + n_all)
    rep.floor("WRITE-CHECKED", "write calls on the output path", n_write + n_all, 40)
    # a writer that holds bytes back (BufWriter, LineWriter) delivers them when it is flushed - and reports a failure only
    # then; dropped without an explicit flush it swallows the error (`sylt -o - prog.sy > /dev/full` exits 0 with nothing written)
    nb = 0
    for f2 in F.own_fns(["sylt", "sylt-bin", "sylt_compiler"]):
        if f2["_path"].startswith("sylt::formatter") or f2["_path"].startswith("sylt::test"):
            continue
        body2 = fn_body(f2)
        for c, parents in walk(body2):
            cal = callee(c) or ""
            if c.get("k") == "Call" and re.search(r"(BufWriter|LineWriter)", cal) and cal.split("::")[-1] in ("new", "with_capacity"):
                nb += 1
                holder = None
                for p_ in reversed(parents):
                    if p_.get("k") == "Let":
                        bs = pat_bindings(p_["pat"])
                        holder = bs[0]["hid"] if bs else None
                        break
                flushed = False
                for m, mp in walk(body2):
                    if m.get("k") == "MethodCall" and m["m"] in ("flush", "into_inner") and holder is not None and \
                            any(x.get("hid") == holder for x in nodes(m["recv"], "Path")):
                        flushed = any(q.get("k") in ("Try", "Ret") for q in mp[-4:]) or m is peel(body2.get("e") or {})
                rep.ob("WRITE-CHECKED", "%s|buffered-writer-flushed" % last(f2["_path"], 2), flushed,
                       "the buffered writer is flushed and the result of the flush is propagated" if flushed else
                       "%s wraps the output in a buffering writer and never flushes it with a checked result: what is still in the "
                       "buffer is written when the value is dropped, where an error cannot be reported - the compiler exits 0 although "
                       "nothing reached a full or closed output" % last(f2["_path"], 2), line_of(c))
    rep.ob("WRITE-CHECKED", "buffering-writers", True, "%d buffering writers on the output path" % nb, sites=nb)
    # success is decided by the operations every writable path supports: create / write / flush.  `sync_all` / `sync_data` (fsync)
    # fail with EINVAL on pipes, FIFOs and character devices (`-o /dev/null`, `-o /dev/stdout | ..`) *after* the whole program has
    # been written - propagating that makes an accepted program exit 1
    syncs = []
    for f2 in list(F.own_fns(["sylt"])) + list(F.own_fns(["sylt_compiler"])):
        for c in nodes(fn_body(f2), "MethodCall"):
            if c["m"] in ("sync_all", "sync_data") and "fs::File" in (c.get("recv_ty") or ""):
                syncs.append((f2, c))
    rep.ob("WRITE-CHECKED", "no-fsync-on-the-output", not syncs,
           "the output is never fsync'ed: every failure that is reported is one of create / write / flush" if not syncs else
           "%s calls `%s()` on the output file: fsync fails with EINVAL on pipes, FIFOs and character devices, after the program has "
           "been written completely - `sylt -o /dev/null ok.sy` reports an IO error and exits 1" % (last(syncs[0][0]["_path"], 2), syncs[0][1]["m"]),
           line_of(syncs[0][1]) if syncs else None)
    # the emitter's result reaches the driver: lua::generate -> Compiler::compile -> compile()
    gen = F.fn("sylt_compiler::lua::generate")
    comp = F.fn("sylt_compiler::Compiler::compile")
    if n_write == 0:
        ret_ok = "Result" in gen.get("ret", "")
        used = False
        for c, parents in walk(fn_body(comp)):
            if callee(c) == "sylt_compiler::lua::generate":
                used = any(p.get("k") == "Try" for p in parents[-6:])
        rep.ob("WRITE-CHECKED", "generate-result-propagated", ret_ok and used,
               "lua::generate returns an io::Result that Compiler::compile propagates (`?`)", comp["sp"])


def same_compile(F, rep):
    fn, m = _output_match(F)
    if m is None:
        return
    fl = Flow(fn, fn_body(fn))
    # stdout is chosen by the output path being exactly `-`: any other path names a file
    for arm in m["arms"]:
        uses_stdout = any((callee(c) or "").endswith(("io::stdout", "stdio::stdout")) for c in nodes(arm["body"], "Call"))
        if not uses_stdout:
            continue
        g = arm.get("guard")
        exact = False
        if g is not None:
            for b in nodes(g, "Binary"):
                if b.get("op") == "Eq":
                    sides = [pp(peel_clone(b["l"])), pp(peel_clone(b["r"]))]
                    lits = [x.get("v") for side in (b["l"], b["r"]) for x in nodes(side, "Lit")]
                    exact = "-" in lits
        rep.ob("SAME-COMPILE", "stdout-only-for-dash", exact,
               "the stdout arm is taken when the output path equals `-`" if exact else
               "the stdout arm is guarded by `%s`, not by equality with `-`: some paths that name a file (`dir/-`) print to stdout, "
               "exit 0 and leave the file unwritten" % (pp(g)[:60] if g is not None else "nothing"), line_of(arm))
    sigs = []
    for arm in m["arms"]:
        pats = [pat_variant(a) for a in pat_alternatives(arm["pat"])]
        if not any((p or "").endswith("Option::Some") for p in pats):
            continue
        for c in nodes(arm["body"], "Call"):
            if callee(c) == LIB + "compile_with_reader_to_writer":
                a0, a1 = peel(c["args"][0]), peel(c["args"][1])
                sigs.append((a0.get("name"), a1.get("name"), pp(c["args"][2])[:40], any(True for _ in [1])))
    rep.ob("SAME-COMPILE", "stdout-and-file", len(sigs) == 2 and sigs[0][:2] == sigs[1][:2] == ("args", "reader"),
           "both `-o -` and `-o FILE` call compile_with_reader_to_writer(args, reader, W): %s" % [s[:3] for s in sigs], fn["sp"])
    cw = F.fn(LIB + "compile_with_reader_to_writer")
    calls = [c for c in nodes(fn_body(cw), "Call") if callee(c) == "sylt_compiler::compile"]
    ok = len(calls) == 1 and peel(calls[0]["args"][0]).get("name") == "write_file"
    rep.ob("SAME-COMPILE", "writer-passed-through", ok, "compile_with_reader_to_writer hands its writer to sylt_compiler::compile unchanged", cw["sp"])


def require_flag(F, rep):
    T = luatpl.LuaTemplates(F)
    pro = T.prologue
    kinds = [e[0] for e in pro]
    rep.ob("REQUIRE", "prologue-shape", kinds == ["write", "if-some"],
           "before the instruction loop the emitter writes the preamble and then, only if a module is given, the require line (%s)" % kinds)
    # .. whenever one is given: the test is on the option itself, not on the option filtered by something about the program
    if len(pro) == 2 and pro[1][0] == "if-some":
        scr = pro[1][1].replace("&", "").strip()
        plain = scr in ("require", "require.as_ref()", "require.as_deref()", "require.clone()")
        rep.ob("REQUIRE", "whenever-given", plain,
               "the require line depends on nothing but the option (`if let Some(..) = %s`)" % scr if plain else
               "the require line is written under `if let Some(..) = %s`: with --require M it can be missing - for a program "
               "without external definitions compiled with --no-std, say" % scr)
    txt = None
    if len(pro) == 2 and pro[1][0] == "if-some":
        ws = [e for e in pro[1][2] if e[0] == "write"]
        if len(ws) == 1:
            txt = luatpl.render(ws[0][1])
    rep.ob("REQUIRE", "text", txt == "require \"{raw-stripped:require:\".lua\"}\"",
           "the require line is `require \"<M with a trailing .lua removed>\"`: %s" % txt)
    if pro and pro[0][0] == "write":
        first = luatpl.render(pro[0][1])
        rep.ob("REQUIRE", "after-preamble", first.startswith("-- Begin Sylt preamble") and first.rstrip().endswith("-- End Sylt preamble"),
               "the first thing written is the runtime preamble (include_str!)")
    inside = [n for n, a in T.arms.items() if "require" in luatpl.summary(T, n)["text_many"]]
    def only_blank(evs):
        for e in evs:
            if e[0] == "write":
                if luatpl.render(e[1]).strip():
                    return False
            elif e[0] in ("repeat",):
                if not only_blank(e[1]):
                    return False
            elif e[0] == "alt":
                if not all(only_blank(a) for a in e[1]):
                    return False
            else:
                return False
        return True
    rep.ob("REQUIRE", "only-once", not inside and only_blank(T.loop_head) and not any("require" in str(e) for e in T.loop_tail),
           "inside the instruction loop nothing but indentation is written before an instruction's text and no arm writes a require line (%s)" % [e[0] for e in T.loop_head])
    # the option travels unchanged: Args.require -> compile(.., require) -> Compiler::compile -> lua::generate -> Generator::generate
    chain = [
        (LIB + "compile_with_reader_to_writer", "sylt_compiler::compile", 2, "args.require.as_ref()"),
        ("sylt_compiler::compile", "sylt_compiler::Compiler::compile", 2, "require"),
        ("sylt_compiler::Compiler::compile", "sylt_compiler::lua::generate", 3, "require"),
        ("sylt_compiler::lua::generate", "sylt_compiler::lua::Generator::generate", 1, "require"),
    ]
    for src, dst, idx, want in chain:
        fn = F.fn(src)
        ok = False
        got = None
        for c in nodes(fn_body(fn)):
            if c.get("k") in ("Call", "MethodCall") and callee(c) == dst:
                got = pp(c["args"][idx])
                ok = got == want
        rep.ob("REQUIRE", "passed|%s->%s" % (last(src, 2), last(dst, 2)), ok, "%s passes `%s` on to %s" % (last(src, 2), got, last(dst, 2)), fn["sp"])


def prelude_yields(F, rep, rule="NO-STD"):
    """without --no-std the statements of std/preamble.sy (`use list`, `from maybe use (..)`, ..) are appended to every
    module.  For a program that defines one of those names itself they must give way (or the two modes differ: the
    program is accepted with --no-std and a `Name collision` error - located in the prelude - without)."""
    fn = F.fn("sylt_compiler::name_resolution::Resolver::resolve_global_variables")
    rep.analysed(fn)
    aware = False
    for m in nodes(fn_body(fn), "Match"):
        for a in m["arms"]:
            if any((pat_variant(x) or "").endswith("Entry::Occupied") for x in pat_alternatives(a["pat"])):
                txt_nodes = list(nodes(a.get("guard") or {})) + list(nodes(a["body"]))
                if any((n.get("k") == "Path" and "FileOrLib::Lib" in norm_path(n.get("path") or "")) or
                       (n.get("k") in ("Struct", "TupleStruct", "PathPat") and "FileOrLib::Lib" in norm_path(n.get("path") or ""))
                       for n in txt_nodes):
                    aware = True
                for mm in nodes(a["body"], "Match"):
                    for aa in mm["arms"]:
                        if any("FileOrLib::Lib" in (pat_variant(x) or "") for x in pat_alternatives(aa["pat"])):
                            aware = True
    rep.ob(rule, "resolve_global_variables|prelude-imports-yield", aware,
           "an import that comes from the standard prelude gives way to a definition of the same name in the program" if aware else
           "resolve_global_variables treats the prelude's imports like the program's own: a program that defines `max`, `set`, "
           "`Maybe`, .. itself gets `Name collision` (reported inside `sylt standard library preamble`) unless --no-std is given", fn["sp"])


def emitter_has_no_errors_of_its_own(F, rep, rule="ATOMIC"):
    """`-o FILE` is written from a buffer after the emitter has finished; `-o -` streams.  The two agree - and a failed run leaves
    nothing behind - only if the emitter cannot *decide* to fail once it has started writing: every error exit of lua::generate is
    the propagation of a failed write (`?`), never an `Err` of its own making.  Whatever can be wrong with the program is found
    by the passes in front of it."""
    bad = []
    n = 0
    for fn in F.fns_in("sylt_compiler::lua::"):
        for r in nodes(fn_body(fn), "Ret"):
            n += 1
            v = peel(r.get("e") or {})
            if v.get("k") == "Call" and (callee(v) or "").endswith("Result::Err"):
                # the desugaring of `?` also returns Err(From::from(e)): that one comes out of a Match on a Try
                if v.get("from_try") or "from_residual" in pp(v) or "From::from" in pp(v):
                    continue
                bad.append((fn, r))
    rep.ob(rule, "emitter-fails-only-when-a-write-fails", not bad,
           "lua::generate has no error exit of its own making" if not bad else
           "%s returns an error of its own making (`%s`) after output has started: with `-o -` everything emitted so far has already "
           "reached stdout when the run fails, while `-o FILE` leaves FILE untouched - the two outputs differ and a failed run is not "
           "all-or-nothing" % (last(bad[0][0]["_path"], 2), pp(bad[0][1])[:70]), line_of(bad[0][1]) if bad else None)


def every_file_is_heard(F, rep, rule="EXIT"):
    """"prints every error": the loader visits the files of a program one after the other and collects what is wrong with each - a file
    that cannot be read, conflict markers, syntax errors - in one list that is returned when all files were visited.  No turn of that
    loop leaves the function: an early `return Err(..)` (or `?`) for one file silences the errors already collected from the files
    before it and the ones still waiting."""
    fn = F.fn("sylt_parser::tree")
    rep.analysed(fn)
    loops = [lp for lp in nodes(fn_body(fn)) if lp.get("k") in ("While", "Loop", "ForLoop")
             and any(callee(c) == "sylt_parser::module" for c in nodes(lp, "Call"))]
    if not loops:
        rep.anchor_missing("the loop of sylt_parser::tree that parses one module per turn")
        return
    lp = loops[0]
    exits = [x for x in nodes(lp) if x.get("k") in ("Ret", "Try") and not _inside_closure(lp, x)]
    collects = [c for c in nodes(lp, "MethodCall") if c["m"] in ("push", "append", "extend") and "errors" in pp(c["recv"])]
    rep.ob(rule, "tree|no-file-ends-the-visit", not exits and len(collects) >= 2,
           "every failure of one file is added to the list and the visit goes on (%d collecting calls, no exit in the loop)" % len(collects)
           if not exits and len(collects) >= 2 else
           "a turn of the file-visiting loop of sylt_parser::tree can leave the function (`%s`): the errors collected from the files "
           "visited before - and those of the files still waiting - are never printed; the user sees one missing module and fixes the "
           "syntax errors one compile later" % (pp(exits[0])[:50] if exits else "fewer collecting calls than failure kinds"),
           line_of(exits[0]) if exits else line_of(lp))


def _inside_closure(root, x):
    for n, parents in walk(root):
        if n is x:
            return any(p.get("k") == "Closure" for p in parents)
    return False
