"""C10 — function activations and closures do not interfere: every variable a lowering template writes is a
Lua local of its activation (DESIGN §4 C10, rule IRP-local)."""
from hir import nodes, fn_body, callee, last, line_of, peel, pp
import irp
import irtpl
import luatpl

EXPLANATION = (
    "Decides the clause `every variable the generated code writes is a Lua local of the activation (and loop iteration) "
    "that writes it`: Lua locals are per activation and per iteration and closures capture them by reference, so this "
    "implies both halves of the property for everything that is a local. (IRP-local) for every lowering template of "
    "intermediate.rs, each variable that is the target of IR::Assign or the result variable of an expression arm is, in that "
    "template, the destination of a defining op (`local V = ...`), declared by IR::Define before its first assignment, or a "
    "resolver variable whose binder's template declares it (Definition -> Define, parameters -> Function, `self` -> Define); "
    "(DECLARING-OPS) the emitter writes `local` for exactly the defining ops, Define, Copy, Call and Function; "
    "(SNAPSHOT) a variable read is materialised as a fresh local at the point of the read (IR::Copy is never inlined), so a "
    "later assignment by a callee or closure cannot change a value already read; (SHARED-CAPTURE) closures refer to captured "
    "variables by their own V<id> name (no copy at closure creation), so closures of one activation share them."
    ' (IRP-order guarded arms) a call is materialised by every emitter arm, guarded ones included.'
    ' (IRP-guarded) no guarded arm of the lowering gives a construct a second lowering (a self tail call turned into parameter assignments and a jump).'
    ' (IRP-list) a declaration stays in the function literal it was emitted in.'
)
UNDECIDED = "run-time behaviour of preamble.lua helpers beyond GLOBAL-LEAK (a global temporary of a higher-order helper must not be held across a callback)."

MANIFEST = dict(
    text=EXPLANATION + " Not decided: " + UNDECIDED,
    technique="symbolic template extraction of lowering/emission code + declare-before-assign dataflow over the templates",
)

BINDERS = {
    # resolver-variable fields that a template may assign, and the template that must declare them
    "var": "definition (Define($var)) / compile",
    "self_var": "expression|Blob (Define(V(self_var)))",
    "target.var": "an existing declaration: the resolver only resolves names that are in scope (C09)",
}


def run(F, rep, tier):
    rep.explanation = EXPLANATION
    rep.undecided = UNDECIDED
    T = irp.Tables(F)
    for u in T.unknown:
        rep.ob("TEMPLATES", "ir|unanalysable|%s" % u[1], False, "lowering code the template evaluator cannot follow: %s" % (u,), u[2])
    local_rule(F, rep, T)
    definition_template(F, rep, T)
    source_variables_have_slots(F, rep, T)
    declaring_ops(F, rep, T)
    snapshot(F, rep, T)
    import c01
    c01.irp_late_read(F, rep, T, rule="SNAPSHOT")
    # a value that reads mutable heap state (a field, an element, a comparison of lists/blobs) and is written at its use is
    # evaluated after the calls in between: a nested call alters an operand that was "already evaluated" (eight known findings)
    c01.irp_order(F, rep, T)
    c01.guarded_arms_lower_alike(F, rep, T)
    c01.instruction_lists_are_only_joined(F, rep)
    # the runtime's higher-order helpers (map, fold, for_each ..) re-enter user code: their own temporaries must not be
    # shared between activations while a callback runs
    import c18
    c18.global_leak(rep, c18.Lua(F.read("sylt-compiler/src/preamble.lua")))
    # closures share a captured *global* because it is one Lua local of the chunk: every function that mentions the global -
    # also one that only stores to it - has to be emitted after that `local`, i.e. every mention is a dependency edge
    import c11
    c11.dependency_visit(F, rep)


def defines_of(T, ops):
    """{value: [op names]} for values that the op sequence declares as Lua locals"""
    d = {}
    for o in ops:
        s = T.S.get(o[1])
        if s is None:
            continue
        if s["dest"] is not None and s["dest"] < len(o[2]):
            d.setdefault(o[2][s["dest"]], []).append(o[1])
        if o[1] in ("Define", "Copy", "Call", "Function") and o[2]:
            d.setdefault(o[2][0], []).append(o[1])
        if o[1] == "Function" and len(o[2]) > 1 and o[2][1][0] == "list":
            d.setdefault(o[2][1][1], []).append("Function-param")
    return d


def ordered_ops(items):
    """ops in emission order for one linearisation, repetitions flattened once"""
    out = []
    for it in items:
        if it[0] == "op":
            out.append(it)
        elif it[0] == "rep":
            for lin in irp.linearisations(it[2])[:1]:
                out += ordered_ops(lin)
        elif it[0] == "code":
            out.append(it)
    return out


def local_rule(F, rep, T):
    n_assign = 0
    reported = set()
    verdicts = {}       # key -> [ok, text, where]: a template is evaluated once per alternative of its code; one bad alternative decides
    real_rep = rep

    class _Merge:
        def ob(self, rule, key, ok, text, where=None, sites=1):
            v = verdicts.get(key)
            if v is None or (v[0] and not ok):
                verdicts[key] = [bool(ok), text, where]
    rep = _Merge()
    for label, items, result, arm in T.all_templates():
        where = line_of(arm) if arm else None
        lins = irp.linearisations(items)
        for lin in lins:
            seq = []
            # flatten repetitions (every alternative of the body) keeping order
            def flat(seq_items):
                out = []
                for it in seq_items:
                    if it[0] == "rep":
                        for l2 in irp.linearisations(it[2]):
                            out += flat(l2)
                    else:
                        out.append(it)
                return out
            seq = flat(lin)
            ops = [it for it in seq if it[0] == "op"]
            declared = {}
            for i, it in enumerate(seq):
                if it[0] == "op":
                    for v, how in defines_of(T, [it]).items():
                        declared.setdefault(v, i)
            for i, it in enumerate(seq):
                targets = []
                if it[0] == "op" and it[1] == "Assign":
                    targets.append((it[2][0], "assigned", it[3]))
                if it[0] == "code" and it[1] == "block" and it[3] is not None:
                    # expression_block(out, ..) assigns the block's value to `out`
                    targets.append((it[3], "assigned by the branch blocks", where))
                for tgt, how, at in targets:
                    n_assign += 1
                    key = "%s|%s" % (label, irtpl.show_val(tgt).split("#")[0])
                    if key in verdicts and not verdicts[key][0]:
                        continue
                    if tgt[0] == "fresh":
                        di = declared.get(tgt)
                        if di is not None and di <= i:
                            reported.add(key)
                            rep.ob("IRP-local", key, True, "temporary `%s` of template %s is declared (%s) before it is %s" % (
                                tgt[1], label, defines_of(T, [seq[di]]).get(tgt), how), at)
                        else:
                            # tolerated: a scratch temporary that is dead before any other code runs
                            nxt = seq[i + 1] if i + 1 < len(seq) else None
                            only_next = nxt is not None and nxt[0] == "op" and tgt in nxt[2] and \
                                sum(1 for x in seq if x[0] == "op" and tgt in x[2]) == 2
                            reported.add(key)
                            if only_next and how == "assigned":
                                rep.ob("IRP-local", key, True,
                                       "temporary `%s` of template %s is an undeclared (global) scratch variable, but it is read by "
                                       "the very next op and nowhere else: no call or closure can run in between" % (tgt[1], label), at)
                            else:
                                rep.ob("IRP-local", key, False,
                                       "temporary `%s` of template %s is %s but never declared: it is a Lua *global*, shared by all "
                                       "activations — a recursive or nested call evaluated while the value is live overwrites it "
                                       "(e.g. `(if a > 3 do 1 else 2 end) + f(a - 1)`)" % (tgt[1], label, how), at)
                    elif tgt[0] == "resvar":
                        fld = tgt[1]
                        di = declared.get(tgt)
                        reported.add(key)
                        if di is not None and di <= i:
                            rep.ob("IRP-local", key, True, "resolver variable %s is declared in template %s before it is %s" % (fld, label, how), at)
                        elif fld in BINDERS and not BINDERS[fld].startswith(label + " "):
                            rep.ob("IRP-local", key, True, "resolver variable %s: declared by %s" % (fld, BINDERS[fld]), at)
                        else:
                            rep.ob("IRP-local", key, False,
                                   "template %s assigns the resolver variable %s (a binder introduced by this construct) without "
                                   "declaring it: the binding is a Lua global shared by all activations and closures" % (label, fld), at)
                    elif tgt[0] == "param":
                        reported.add(key)
                        di = declared.get(tgt)
                        ok = (di is not None and di <= i) or label == "expression_block"
                        rep.ob("IRP-local", key, ok,
                               "parameter variable $%s of %s is %s" % (tgt[1], label, "declared before it is assigned" if di is not None
                                                                        else "supplied by the caller (checked at the call sites: If / Case results)"), at)
        # result variable of expression arms must be declared in the arm
        if result is not None and result[0] == "fresh":
            key = "%s|result" % label
            for lin in (lins or [[]]):
                ops = [it for it, _ in irp.flat_ops(lin)]
                d = defines_of(T, ops)
                if ("%s|%s" % (label, result[1])) not in verdicts:
                    rep.ob("IRP-local", key, result in d, "the result temporary `%s` of %s is %s" % (
                        result[1], label, "declared by %s" % d.get(result) if result in d else
                        "not declared on every alternative of the template (a Lua global there: shared by all activations)"), where)
    for key, (ok_, text_, where_) in sorted(verdicts.items()):
        real_rep.ob("IRP-local", key, ok_, text_, where_)
    real_rep.floor("IRP-local", "assignments in templates", n_assign, 8)


def declaring_ops(F, rep, T):
    want_local = {"Define": "local {expand:0} = nil", "Copy": "local {expand:0} = {expand:1}", "Call": None, "Function": None}
    for op, text in want_local.items():
        s = T.S.get(op)
        ok = bool(s) and s["text_many"].startswith("local ")
        rep.ob("DECLARING-OPS", op, ok, "IR::%s declares a Lua local: `%s`" % (op, s["text_many"] if s else None))
    for name, s in sorted(T.S.items()):
        if s["dest"] is not None:
            rep.ob("DECLARING-OPS", name, s["text_many"].startswith("local {name:%d} = " % s["dest"]),
                   "IR::%s declares its destination: `%s`" % (name, s["text_many"]))
    s = T.S.get("Assign")
    rep.ob("DECLARING-OPS", "Assign|no-local", bool(s) and not s["text_many"].startswith("local"),
           "IR::Assign writes an existing variable (no `local`): `%s` — it must therefore be declared elsewhere" % (s["text_many"] if s else None))
    s = T.S.get("External")
    rep.ob("DECLARING-OPS", "External|global", bool(s) and s["text_many"] == "{expand:0} = {raw:1}",
           "externals are program-wide globals by design (top level only)")
    ext_only_top = all(not any(o[1] == "External" for o, _ in irp.flat_ops(items)) for label, items, r, a in T.all_templates()
                       if not label.startswith("compile"))
    rep.ob("DECLARING-OPS", "External|top-level-only", ext_only_top, "IR::External is produced only by the top-level compile() template")


def snapshot(F, rep, T):
    read = [a for a in T.expr if a["label"] == "Read"]
    ok = False
    if read and read[0]["items"]:
        ops = [it for it in read[0]["items"] if it[0] == "op"]
        ok = len(ops) == 1 and ops[0][1] == "Copy" and ops[0][2][1][0] == "resvar" and ops[0][2][0] == read[0]["result"]
    rep.ob("SNAPSHOT", "expression|Read", ok, "a variable read lowers to Copy(fresh, V(var)) and yields the fresh temporary")
    s = T.S.get("Copy")
    rep.ob("SNAPSHOT", "Copy|never-inlined", bool(s) and not s["inlinable"] and s["text_many"] == "local {expand:0} = {expand:1}",
           "IR::Copy always materialises `local tmp = var` at the point of the read (it is never deferred to its use)")
    fn = [a for a in T.expr if a["label"] == "Function"]
    ok = False
    if fn and fn[0]["items"]:
        ops = [it for it in fn[0]["items"] if it[0] == "op"]
        ok = ops and ops[0][1] == "Function" and ops[-1][1] == "End" and not any(o[1] == "Copy" for o in ops)
    rep.ob("SHARED-CAPTURE", "expression|Function", ok,
           "a function literal lowers to Function .. End around its body without copying captured variables: the body refers to "
           "them by name, so closures of one activation share them and each activation/iteration has its own")


def definition_template(F, rep, T, rule="LOCAL"):
    """`x := v` / `x :: v` (v no function literal): the variable is one Lua local of the activation the definition runs in, declared
    there, and v is evaluated once - there - and stored in it.  Every closure of that activation captures that local, and a later run of
    the definition (another activation, another iteration) makes a new one.  A variable that is renamed into the instruction of its
    value, or defined on some paths only, is built again wherever the emitter inlines it."""
    d = T.definition
    alts = [it for it in (d or []) if it[0] == "alt"]
    ok = False
    got = "no alternatives found"
    if len(d or []) == 1 and alts and len(alts[0][1]) == 2 and all(isinstance(i, (list, tuple)) and len(i) >= 3 for a in alts[0][1] for i in a):
        shapes = []
        for a in alts[0][1]:
            shapes.append([(i[0], i[1], tuple(map(tuple, i[2])) if i[0] == "op" else i[2]) for i in a])
        fn_alt = [a for a in alts[0][1] if len(a) == 1 and a[0][0] == "code"]
        val_alt = [a for a in alts[0][1] if len(a) == 3]
        if fn_alt and val_alt:
            a = val_alt[0]
            ok = a[0][0] == "op" and a[0][1] == "Define" and list(map(tuple, a[0][2])) == [("param", "var")] and \
                a[1][0] == "code" and a[1][2] == "value" and \
                a[2][0] == "op" and a[2][1] in ("Assign", "Copy") and tuple(a[2][2][0]) == ("param", "var") and a[2][2][1][0] == "result" and a[2][2][1][1] == "value"
        got = "; ".join(" ".join("%s" % (i[1] if i[0] == "op" else "<code of %s>" % i[2]) for i in a) for a in alts[0][1])
    elif d is not None:
        got = "%d top-level items" % len(d)
    unk = [u for u in T.unknown if "definition" in str(u)]
    rep.ob(rule, "definition|declared-then-stored-once", ok and not unk,
           "a definition lowers to Define(x); <code of the value>; Assign(x, value) - a function literal to its own IR::Function" if ok and not unk else
           "IRCodeGen::definition does not lower a definition to `Define(x); <code of the value>; Assign(x, value)` on every path (%s%s): a "
           "variable that is not declared where its definition stands and filled once has no slot of its own - the value is built again "
           "where the emitter writes the variable's one use, once per run of *that* place, and closures of one activation no longer share it"
           % (got, "; unanalysable: %s" % (unk[0],) if unk else ""))


def source_variables_have_slots(F, rep, T, rule="LOCAL"):
    """A variable of the program - a definition, a parameter, the binding of a `case` branch - is a slot: a Lua local that is filled
    where the binding happens and read where it is mentioned.  It is never the destination of an instruction the emitter may *inline*
    (written through define(): pasted into its single use): the value would be computed where - and as often as - the one mention is
    evaluated, from whatever its operands are by then (`case m do Just x -> .. fn -> x ..` reads m's payload when the closure runs)."""
    n = 0
    bad = []

    def walk_items(items):
        for it in items:
            if not isinstance(it, (list, tuple)) or not it:
                continue
            if it[0] == "op":
                yield it
            elif it[0] == "alt":
                for a in it[1]:
                    yield from walk_items(a)
            elif it[0] == "rep":
                yield from walk_items(it[2])
    for label, items, result, arm in T.all_templates():
        for op in walk_items(items):
            s_ = T.S.get(op[1])
            if s_ is None or s_["dest"] is None or s_["dest"] >= len(op[2]):
                continue
            d = op[2][s_["dest"]]
            if not (isinstance(d, (list, tuple)) and d and d[0] in ("resvar", "param")):
                continue
            n += 1
            if s_["inlinable"]:
                bad.append((label, op))
    rep.ob(rule, "source-variables-are-never-inlined", not bad,
           "no instruction that defines a variable of the program is one the emitter inlines (%d defining instructions)" % n if not bad else
           "template %s defines the program variable `%s` with IR::%s, which the emitter inlines when the variable is mentioned once: the "
           "value is then computed where the mention is evaluated - a closure that is called later, a place behind a call that rebinds the "
           "operand - and not where the variable is bound" % (bad[0][0], bad[0][1][2][T.S[bad[0][1][1]]["dest"]][1], bad[0][1][1]),
           bad[0][1][3] if bad and len(bad[0][1]) > 3 else None)
