import re
"""C08 — type annotations are optional and never change the generated code (DESIGN §4 C08)."""
from hir import nodes, walk, fn_body, callee, last, line_of, peel, pp, norm_path, pat_bindings
from engines import ty_is, ty_mentions
from flow import Flow
import nonint
import irp

NR = "sylt_compiler::name_resolution::"
R = NR + "Resolver::"
TC = "sylt_compiler::typechecker::"

EXPLANATION = (
    "Decides the byte-identity clause (conditional on acceptance) by non-interference: (NO-TYPE-FLOW) the lowering and "
    "emission functions (all of intermediate.rs and lua.rs) never use a type-carrying field of the resolved AST "
    "(Definition.ty, ExternalDefinition.ty, Function.params[*] annotation, Function.ret, Blob.fields, Enum.variants), never "
    "read TypeChecker.types or a variable's inferred type/kind (they use the checker only for variables.len() and the "
    "name/is_global/id of `start`) and never call a TypeChecker method; (INERT-ORDER) the only place where annotations "
    "influence ordering (ty_dependency edges) can only move statements that produce no code: type declarations lower to "
    "nothing; (ANNOTATION-FRESH) an annotation naming a declared type denotes a fresh instance, never the declaration's own node; (NO-ALLOCATION) resolving a type allocates no variable (Resolver::ty / type_vec / ty_assignable / "
    "namespace_type_list take &self and call neither new_var nor push_var) and variable ids are the allocation index, so "
    "numbering is the same with and without annotations; (ANNOTATION-INERT) inside name resolution an annotation is only "
    "ever handed to the type-resolving functions, never inspected, so scoping and declaration order cannot depend on it; (SAME-NODE) the parser produces the same statement kind with and "
    "without an annotation (only the `ty` field differs) and the same binder kind for `::`/`: T :` and `:=`/`: T =`."
    ' (ANNOTATION-PERMISSIVE) a written `fn` type resolves to the wildcard purity, so a correct `fn` annotation on a pure function value is not rejected.'
    ' (INFERENCE) no arm of the checker answers a still-unknown type with an error; (SAME-NODE return-type probe) whether a return type follows `->` is decided independently of the newline mode (both known findings).'
    ' (DEFER-RECORDED replay) a check that is postponed because an operand is still unknown - which is what erasing an annotation causes - is replayed by check_constraints as the same checker with the operands in the same roles; (ORDER-PRESERVED) type variables and parameters keep their positions through name resolution.'
    ' (INFERENCE catch-all) a case split on the type of an expression whose `_` arm is an error has an arm for Unknown, or the unknown case is settled (unified with a type made on the spot) in front of it; (NO-LAYOUT-FLOW, shared with C14) nothing of a span reaches the emitted bytes - an annotation is text that moves lines and columns (the line in the `<!>` message: known finding).'
    ' (INFERENCE settled-shape) the function type made for an unknown callee passes the purity guard of the arm below it; (COPY parts, shared) instantiation treats settled and unknown nodes alike.'
    ' (ANNOTATION-PERMISSIVE names-decide-nothing) two blob types are unified structurally, like the Field constraint an unannotated use records; (no-error-of-its-own) type_from_function fails only when resolving or unifying an annotation fails.'
)
UNDECIDED = "completeness of inference in general (erasing a correct annotation keeps the program accepted): only the structural necessary conditions INFERENCE, ANNOTATION-INERT (checker) and the return-type probe are decided."

MANIFEST = dict(
    text=EXPLANATION + " Not decided: " + UNDECIDED,
    technique="non-interference by non-access: field-use census over the lowering/emission functions in resolved HIR",
)

TYPE_FIELDS = {("Definition", "ty"), ("ExternalDefinition", "ty"), ("Function", "ret"), ("Blob", "fields"), ("Enum", "variants")}


def run(F, rep, tier):
    rep.explanation = EXPLANATION
    rep.undecided = UNDECIDED
    no_type_flow(F, rep)
    inert_order(F, rep)
    no_allocation(F, rep)
    annotation_inert_in_resolver(F, rep)
    same_node(F, rep)
    import c04
    c04.annotation_purity(F, rep, "ANNOTATION-PERMISSIVE")
    # a function field is copied per read only where its type is known at the read - that is: where the receiver is annotated.  The
    # test that keeps a field with an open purity from being copied has to see every open purity, or the annotated program is
    # accepted (each copy settles the callback's purity for itself) and the erased one rejected (shared with C04)
    import core as _core0
    _core0.borrow(rep, c04.purity_walks_reach_every_component, lambda o: o["rule"] == "PURITY-COPY" and "|purity-walk|" in o["key"], F)
    unknown_is_deferred(F, rep)
    # .. and what is deferred is the check that would have run with the annotation present
    import c03
    c03.defer_recorded(F, rep)
    import core as _core
    _core.borrow(rep, lambda F_, r_: c03.accept(F_, r_, "ACCEPT"), lambda o: o["rule"] == "DEFER-RECORDED", F)
    # a definition is used at several types for what its value *is* (a function, or the name of one) - not for what its signature
    # happens to say: a function with every type written out is generalised like the one without (shared with C02/C03)
    import c02 as _c02
    _core.borrow(rep, lambda F_, r_: _c02.copy_discipline(F_, r_), lambda o: o["rule"] == "COPY" and o["key"] == "generalised|insertions", F)
    # .. and a function read out of a blob field is copied per read only where the field's type is known at the read - where the
    # receiver is annotated: `p.f("a"); p.f(1)` on a field `f: pu *T -> *T` checks with `p: B` and not without (the known finding C02,
    # C03 and C05 list from their side)
    _core.borrow(rep, lambda F_, r_: _c02.copy_discipline(F_, r_), lambda o: o["rule"] == "COPY" and o["key"] == "expression|BlobAccess|fresh:Unknown", F)
    # a type variable is bound by its position in the declaration's list
    import engines
    engines.order_preserved(F, rep, "ORDER-PRESERVED", ["sylt_compiler::name_resolution::"],
                            ["sylt_compiler::name_resolution::"], 20)
    # a correct annotation resolves: the names in it are looked up where types live, before the binders of the same
    # signature are in scope, and a path through namespaces is followed namespace by namespace
    import c09
    c09.annotation_before_binder(F, rep)
    import c12
    c12.chained_namespace(F, rep, "ANNOTATION-RESOLVES")
    c12.found_member_is_the_answer(F, rep, "ANNOTATION-RESOLVES")
    # parsing an annotation leaves the parser as it found it (newline mode restored): what follows parses the same with or without it
    import core
    import c14
    core.borrow(rep, c14.newline_flag, lambda o: o["rule"] == "NEWLINE-FLAG" and "parse_type" in o["key"], F)
    # an annotation is also text: one that spans lines moves everything below it by its line count, and one on the line of a
    # statement moves the columns to its right - nothing of a span may reach the emitted bytes (the line in the message of `<!>`
    # does: the known finding it shares with C14)
    core.borrow(rep, c14.no_layout_flow, lambda o: o["rule"] == "NO-LAYOUT-FLOW", F)
    # instantiation treats a type the same whether it is known already (annotated) or not yet: what is tied to the surroundings
    # by constraints stays shared for settled and for unknown nodes alike
    import c02
    core.borrow(rep, lambda F_, r_: c02.copy_discipline(F_, r_), lambda o: o["rule"] == "COPY" and o["key"].startswith("parts|"), F)
    blob_unification_is_structural(F, rep)
    signature_has_no_rules_of_its_own(F, rep)
    erased_return_type(F, rep)
    checker_annotation_blind(F, rep)
    annotation_is_a_fresh_instance(F, rep)


def annotation_is_a_fresh_instance(F, rep):
    """An annotation naming a blob or enum must denote a *fresh instance* of the declared type: whatever the annotated
    value then pins down (an open `*` field, the purity of an `fn` field) is a fact about that value.  If the annotation
    resolved to the declaration's own node, the first annotated use would refine the declaration for every later use - the
    annotated program is rejected where the erased one (which instantiates per literal) is accepted."""
    import tc
    from flow import Flow
    TC_ = "sylt_compiler::typechecker::TypeChecker::"
    firt = F.fn(TC_ + "inner_resolve_type")
    rep.analysed(firt)
    fl = Flow(firt, fn_body(firt))
    arms = tc.arm_of(F, firt, NR + "Type", "UserType")
    if not arms:
        rep.anchor_missing("inner_resolve_type UserType arm")
        return

    def fresh(e, depth=0):
        """is the TyID expression e the result of self.copy(..) on every path"""
        e = peel(e)
        if depth > 8 or not isinstance(e, dict):
            return False
        if e.get("k") == "MethodCall" and callee(e) == TC_ + "copy":
            return True
        if e.get("k") == "Path" and e.get("res") == "Local":
            o = fl.origin.get(e["hid"])
            return bool(o and o["kind"] == "let" and o["path"] == () and o["src"] is not None and fresh(o["src"], depth + 1))
        if e.get("k") == "Match":
            vals = [tc.n_tail(a["body"]) for a in e["arms"] if not tc.is_err_value(a["body"])]
            return bool(vals) and all(fresh(v, depth + 1) for v in vals)
        if e.get("k") == "If":
            return e.get("e") is not None and fresh(tc.n_tail(e["t"]), depth + 1) and fresh(tc.n_tail(e["e"]), depth + 1)
        if e.get("k") == "Block":
            return fresh(tc.n_tail(e), depth + 1)
        return False
    arm = arms[0][0]
    rets = []
    # the one exception: the arm for a declaration that is *still Unknown* - reached only from inside the declaration itself (a
    # type that mentions itself; every other mention is ordered behind the declaration).  There the mention is the declaration's
    # own node, and every use of the finished declaration copies the whole cycle.
    from hir import pat_alternatives as _pa, pat_variant as _pv
    unknown_arm_nodes = set()
    for m_ in nodes(arm["body"], "Match"):
        for a_ in m_["arms"]:
            if all((_pv(x) or "").endswith("ty::Type::Unknown") for x in _pa(a_["pat"])):
                unknown_arm_nodes |= {id(x) for x in nodes(a_["body"])}
    for r in nodes(arm["body"], "Ret"):
        if id(r) in unknown_arm_nodes:
            continue
        v = peel(r.get("e") or {})
        if v.get("k") == "Call" and (callee(v) or "").endswith("Result::Ok") and v["args"]:
            rets.append(v["args"][0])
    t = tc.n_tail(arm["body"])
    if isinstance(t, dict) and t.get("k") == "Call" and (callee(t) or "").endswith("Result::Ok") and t["args"]:
        rets.append(t["args"][0])
    ok = bool(rets) and all(fresh(r) for r in rets)
    rep.ob("ANNOTATION-FRESH", "inner_resolve_type|UserType|every-path-copies", ok,
           "an annotation naming a declared type resolves to a fresh copy of it on every path (%d result(s))" % len(rets) if ok else
           "an annotation naming a declared type can resolve to the declaration's own node (not a copy): what the annotated value "
           "pins down (a `*` field, the purity of an `fn` field) then sticks to the declaration, and a later differing use is "
           "rejected only in the annotated program", line_of(arm))


def no_type_flow(F, rep):
    n = 0
    # (1) type-carrying bindings: any binding whose type mentions name_resolution::Type
    def pred(path, ty, o):
        return ty_mentions(ty, ["name_resolution::Type"])
    for fn, b, o, used in nonint.used_bindings(F, pred):
        n += 1
        if used and nonint.is_tuple_vector(b["ty"]):
            # a vector of tuples that also holds non-type data: fine if it is only iterated / measured and the
            # tuple element holding the type is never bound to a used name (checked through the element bindings)
            uses = []
            for x, parents in walk(fn_body(fn)):
                if x.get("k") == "Path" and x.get("hid") == b["hid"]:
                    par = parents[-1] if parents else {}
                    while par.get("k") in ("AddrOf", "Unary") and len(parents) > 1:
                        parents = parents[:-1]
                        par = parents[-1]
                    uses.append(par.get("m") if par.get("k") == "MethodCall" else par.get("k"))
            only_iter = all(u in ("iter", "len", "is_empty") for u in uses)
            rep.ob("NO-TYPE-FLOW", "%s|binding %s" % (last(fn["_path"], 2), b["name"]), only_iter,
                   "`%s` (a vector of tuples containing an annotation) is only iterated/measured in %s (%s); its type element is "
                   "checked through the element patterns" % (b["name"], last(fn["_path"], 2), uses), fn["sp"])
            continue
        rep.ob("NO-TYPE-FLOW", "%s|binding %s" % (last(fn["_path"], 2), b["name"]), not used,
               "a binding of type `%s` (%s) in %s is %s" % (b["ty"][:50], b["name"], last(fn["_path"], 2),
                                                            "used: the annotation can reach the generated code" if used else "bound but unused"), fn["sp"])
    # the params tuple (name, var, span, type): element 3 must not be bound to a used name
    for fn in nonint.sink_fns(F):
        fl = Flow(fn, fn_body(fn))
        for hid, o in fl.origin.items():
            p = o["path"]
            if p and p[-1] == ("tuple", 3) and any(el[0] == "field" and el[2] == "params" for el in p):
                n += 1
                used = Flow.mentions(fn_body(fn), {hid})
                rep.ob("NO-TYPE-FLOW", "%s|params.3" % last(fn["_path"], 2), not used, "parameter annotation is %s in lowering" % ("used" if used else "unused"), fn["sp"])
    rep.analysed({"_path": "intermediate.rs + lua.rs"})
    # (2) projections on the type checker's state
    allowed_tc = {"variables"}
    # `definition` is the span where the variable is declared; it does not depend on types or annotations (the lowering
    # uses its file_id to pick the main file's `start`)
    allowed_tv = {"name", "is_global", "id", "definition"}
    cnt = 0
    for fn, node in nonint.field_projections(F, lambda t: "typechecker::TypeChecker" in t or "typechecker::TypeVariable" in t):
        cnt += 1
        is_tv = "TypeVariable" in node["base_ty"]
        ok = node["name"] in (allowed_tv if is_tv else allowed_tc)
        rep.ob("NO-TYPE-FLOW", "%s|.%s" % (last(fn["_path"], 2), node["name"]), ok,
               "%s reads %s.%s%s" % (last(fn["_path"], 2), "TypeVariable" if is_tv else "TypeChecker", node["name"],
                                     "" if ok else ": inferred types / kinds must not influence the output"), line_of(node))
    rep.floor("NO-TYPE-FLOW", "projections on the checker's state", cnt, 3)
    # `typechecker.variables` itself may only be measured or searched by name
    for fn in nonint.sink_fns(F):
        for c in nodes(fn_body(fn), "MethodCall"):
            r = peel(c["recv"])
            if r.get("k") == "Field" and r["name"] == "variables" and "TypeChecker" in r.get("base_ty", ""):
                rep.ob("NO-TYPE-FLOW", "%s|variables.%s" % (last(fn["_path"], 2), c["m"]), c["m"] in ("len", "iter"),
                       "typechecker.variables is only used through .%s()" % c["m"], line_of(c))
    # (3) no calls into the type checker
    calls = []
    for fn in nonint.sink_fns(F):
        for c in nodes(fn_body(fn)):
            if c.get("k") in ("Call", "MethodCall") and (callee(c) or "").startswith(TC):
                calls.append((last(fn["_path"], 2), callee(c)))
    rep.ob("NO-TYPE-FLOW", "no-checker-calls", not calls, "lowering/emission call no TypeChecker function (%s)" % calls)
    # (4) the lowering of literals / operators does not depend on anything typed: IR has no type payload
    ir = F.adt("sylt_compiler::intermediate::IR")
    typed = [(v["name"], f["ty"]) for v in ir["variants"] for f in v["fields"] if "TyID" in f["ty"] or "sylt_compiler::ty::Type" in f["ty"] or "name_resolution::Type" in f["ty"]]
    rep.ob("NO-TYPE-FLOW", "IR-carries-no-types", not typed, "no IR op has a type payload (%s)" % typed, ir["sp"])
    rep.floor("NO-TYPE-FLOW", "type-carrying bindings inspected", n, 1)


def inert_order(F, rep):
    T = irp.Tables(F)
    top = {a["label"]: a for a in T.top}
    emits = {lab: (a["items"] or []) for lab, a in top.items()}
    decl_labels = [lab for lab in emits if "Blob" in lab or "Enum" in lab]
    other = emits.get("_")
    ok = other == [] and not decl_labels
    rep.ob("INERT-ORDER", "type-declarations-emit-nothing", ok,
           "IRCodeGen::compile emits code only for %s; Blob/Enum fall into the empty default arm" % sorted(l for l in emits if l != "_"))
    # statement_dependencies(Blob|Enum|ExternalDefinition): declarations wait for nothing but other type declarations -
    # their arms may call ty_dependency (edges to the types their fields name) but never the value folds
    dep = F.fn("sylt_compiler::dependency::statement_dependencies")
    from engines import matches_on, arm_alternatives
    DEP = "sylt_compiler::dependency::"
    seen = {}
    for m in matches_on(fn_body(dep), NR + "Statement"):
        for arm, alt, vp in arm_alternatives(m):
            if vp and last(vp) in ("Blob", "Enum", "ExternalDefinition"):
                called = {last(callee(c)) for c in nodes(arm["body"]) if c.get("k") in ("Call", "MethodCall") and (callee(c) or "").startswith(DEP)}
                seen[last(vp)] = sorted(called)
    ok = set(seen) == {"Blob", "Enum", "ExternalDefinition"} and all(set(v) <= {"ty_dependency"} for v in seen.values())
    rep.ob("INERT-ORDER", "declarations-wait-for-types-only", ok,
           "type declarations and externals depend on nothing but the type declarations their annotations name (dependency "
           "folds called in their arms: %s)" % seen, dep["sp"])
    # ty_dependency only yields UserType references (variables of Blob/Enum declarations)
    td = F.fn("sylt_compiler::dependency::ty_dependency")
    ins_calls = [c for c in nodes(fn_body(td), "MethodCall") if c["m"] == "insert"]
    fl_td = Flow(td, fn_body(td))
    only_usertype_ref = len(ins_calls) == 1
    for c in ins_calls:
        a = peel(c["args"][0])
        while a.get("k") == "Unary":
            a = peel(a["e"])
        o = fl_td.origin.get(a.get("hid")) if a.get("k") == "Path" else None
        # the inserted value is the first field of a `Type::UserType(r, ..)` pattern
        only_usertype_ref = only_usertype_ref and bool(o) and o["kind"] == "arm" and any(
            el[0] == "field" and el[1].endswith("Type::UserType") and el[2] == "0" for el in o["path"])
    inserts = ["insert(%s)" % pp(c["args"][0]) for c in ins_calls]
    rep.ob("INERT-ORDER", "annotation-edges-name-types-only", only_usertype_ref,
           "the only variables an annotation adds as dependencies are the `r` of UserType(r, ..): type declarations (%s)" % inserts, td["sp"])


def no_allocation(F, rep):
    for m in ("ty", "type_vec", "ty_assignable", "namespace_type_list"):
        fn = F.fn(R + m)
        rep.analysed(fn)
        self_ty = fn["params"][0]["ty"]
        calls = [callee(c) for c in nodes(fn_body(fn)) if c.get("k") in ("Call", "MethodCall")]
        alloc = [c for c in calls if c in (R + "new_var", R + "push_var", R + "new_global")]
        rep.ob("NO-ALLOCATION", "Resolver::%s" % m, self_ty.startswith("&") and not self_ty.startswith("&mut") and not alloc,
               "Resolver::%s takes `%s` and allocates no variable" % (m, self_ty), fn["sp"])
    for m in ("new_var", "new_global"):
        fn = F.fn(R + m)
        txt = pp(fn_body(fn))
        rep.ob("NO-ALLOCATION", "Resolver::%s|id" % m, "let id = self.variables.len()" in txt,
               "variable ids are the allocation index (independent of annotations)", fn["sp"])
    # temporaries start after the resolver's variables
    fn = F.fn("sylt_compiler::intermediate::IRCodeGen::new")
    rep.ob("NO-ALLOCATION", "IRCodeGen::new|counter", "typechecker.variables.len() Add 1" in pp(fn_body(fn)),
           "temporaries are numbered from variables.len() + 1", fn["sp"])


def annotation_inert_in_resolver(F, rep):
    """name resolution decides scoping, declaration order and variable numbering: a parsed type annotation may only be
    handed to the type-resolving functions (ty / type_vec / ty_assignable), never inspected - otherwise adding or
    removing an annotation can change which ids variables get and therefore the emitted text"""
    type_fns = {R + m for m in ("ty", "type_vec", "ty_assignable", "namespace_type_list")}
    n = 0
    for fn in F.fns_in(R):
        if fn["_path"] in type_fns:
            continue
        body = fn_body(fn)
        fl = Flow(fn, body)
        for hid, o in fl.origin.items():
            b = o["binding"]
            t = b.get("ty", "").replace("&", "").strip()
            if not (t == "sylt_parser::Type" or t.endswith("<sylt_parser::Type>") or "sylt_parser::Type," in t or ", sylt_parser::Type)" in t):
                continue
            if "alloc::vec::Vec<(" in t or "HashMap" in t or "BTreeMap" in t:
                continue  # containers are destructured into element bindings, which are checked themselves
            n += 1
            uses = []
            for x, parents in walk(body):
                if x.get("k") == "Path" and x.get("hid") == hid:
                    ok = False
                    for p in reversed(parents):
                        if p.get("k") in ("MethodCall", "Call") and callee(p) in type_fns:
                            ok = True
                            break
                        if p.get("k") in ("If", "Match", "Block", "Closure", "Let"):
                            break
                    uses.append((ok, line_of(x)))
            bad = [u for u in uses if not u[0]]
            rep.ob("ANNOTATION-INERT", "%s|%s" % (last(fn["_path"], 2), b["name"]), not bad,
                   "the annotation `%s` in %s is %s" % (b["name"], last(fn["_path"], 2),
                                                       "only passed to the type-resolving functions (%d uses)" % len(uses) if not bad else
                                                       "inspected by name resolution itself at %s: scoping / declaration order / variable numbering "
                                                       "now depend on the annotation" % [u[1] for u in bad]), fn["sp"])
    rep.floor("ANNOTATION-INERT", "annotation bindings in the resolver", n, 4)


def same_node(F, rep):
    fn = F.fn("sylt_parser::statement::statement")
    rep.analysed(fn)
    defs = []
    for s in nodes(fn_body(fn), "Struct"):
        if s["path"].endswith("StatementKind::Definition"):
            f = {x["name"]: pp(peel(x["e"])) for x in s["fields"]}
            defs.append(f)
    implied = [d for d in defs if "TypeKind::Implied" in d.get("ty", "")]
    annotated = [d for d in defs if "TypeKind::Implied" not in d.get("ty", "")]
    rep.ob("SAME-NODE", "Definition|both-forms", len(implied) == 1 and len(annotated) == 1 and
           all(set(d) == {"ident", "kind", "ty", "value"} for d in defs),
           "`a := e` and `a : T = e` both build StatementKind::Definition {ident, kind, ty, value}; only `ty` differs (Implied vs T)", fn["sp"])
    # resolver copies ty into the resolved node but nothing else depends on it
    rs = F.fn(R + "statement")
    ok = False
    flr = Flow(rs, fn_body(rs))
    for s in nodes(fn_body(rs), "Struct"):
        if s["path"].endswith("Statement::Definition"):
            f = {x["name"]: x["e"] for x in s["fields"]}
            src = peel(f.get("ty"))
            if src.get("k") == "Path" and src.get("res") == "Local":
                src = peel(flr.trace(src))
            if src.get("k") == "Try":
                src = peel(src["e"])
            is_ty = src.get("k") == "MethodCall" and callee(src) == R + "ty"
            # no other field is computed from the resolved annotation
            ty_hids = {x["hid"] for x in nodes(f.get("ty"), "Path") if x.get("res") == "Local"}
            others = any(x.get("hid") in ty_hids for k, v in f.items() if k != "ty" for x in nodes(v, "Path") if x.get("res") == "Local")
            ok = is_ty and not others
    rep.ob("SAME-NODE", "Resolver|ty-only-in-ty", ok, "the resolver stores the resolved annotation only in the node's `ty` field", rs["sp"])
    fx = F.fn("sylt_parser::expression::function")
    t = pp(fn_body(fx))
    rep.ob("SAME-NODE", "function|unannotated-params", "TypeKind::Resolved(Type::Unknown)" in t,
           "a parameter without annotation gets the Unknown type (inferred)", fx["sp"])


def unknown_is_deferred(F, rep):
    """erasing a correct annotation leaves the checker with a type it does not know *yet*; the program stays accepted
    only if every use of a not-yet-known type is deferred (recorded as a constraint, or fixed by unification).  An arm
    that answers `Type::Unknown` with an error makes acceptance depend on the annotation."""
    import tc
    from hir import pat_alternatives, pat_variant, pat_strip
    n = 0
    for fn in F.fns_in("sylt_compiler::typechecker::"):
        k = 0
        for m in nodes(fn_body(fn), "Match"):
            for a in m["arms"]:
                for alt in pat_alternatives(a["pat"]):
                    p = pat_strip(alt)
                    subs = p["pats"] if p.get("k") == "Tuple" else [alt]
                    if any((pat_variant(x) or "").endswith("ty::Type::Unknown") for x in subs):
                        n += 1
                        if tc.is_err_value(a["body"]):
                            k += 1
                            rep.ob("INFERENCE", "%s|unknown=>error#%d" % (last(fn["_path"], 2), k), False,
                                   "%s turns a type that is still Unknown into the error `%s`; every other use of an unknown type "
                                   "(field access, index, case, operators) is deferred.  `call :: fn p: A -> int do p.f(1) end` is "
                                   "accepted and becomes `Unknown types cannot be called` when the correct annotation `: A` is removed"
                                   % (last(fn["_path"], 2), tc.err_kind(a["body"])), line_of(a))
    # .. also when it is the catch-all arm that answers it: a case split on the type of an *expression* (not of a declaration
    # named in the source) whose `_` arm is an error and which has no arm for Unknown rejects what is not known yet
    from hir import pat_is_catchall
    from engines import strip_ty
    from flow import Flow
    for fn in F.fns_in("sylt_compiler::typechecker::"):
        fl = None
        k = 0
        for m in nodes(fn_body(fn), "Match"):
            if not strip_ty(m.get("scrut_ty") or "").endswith("ty::Type"):
                continue
            has_unknown, wild_err = False, None
            for a in m["arms"]:
                for alt in pat_alternatives(a["pat"]):
                    if (pat_variant(alt) or "").endswith("Type::Unknown"):
                        has_unknown = True
                    if pat_is_catchall(alt) and tc.is_err_value(a["body"]):
                        wild_err = a
            if wild_err is None or has_unknown:
                continue
            fl = fl or Flow(fn, fn_body(fn))
            sc = peel(m["scrut"])
            arg = sc["args"][0] if sc.get("k") == "MethodCall" and sc.get("args") else sc
            d = tc.describe(fl, arg)
            n += 1
            k += 1
            declared = d.startswith("varty:") or "varty:" in d
            # .. or the unknown case has been settled just before: `if matches!(self.find_type(x), Type::Unknown) { .. unify(x, <a
            # type made here>) .. }` in front of the split gives x the shape the operation needs (a requirement on what it
            # turns out to be, like a recorded constraint)
            settled = False
            xh = peel(arg).get("hid") if isinstance(arg, dict) else None
            order = [id(y) for y in nodes(fn_body(fn))]
            for i_ in nodes(fn_body(fn), "If"):
                c_ = peel(i_["c"])
                if c_.get("k") == "Path" and c_.get("res") == "Local":
                    # `let callee_unknown = matches!(..); if callee_unknown { .. }`
                    o_ = fl.origin.get(c_["hid"])
                    if o_ and o_["kind"] == "let" and o_.get("path") == () and o_.get("src") is not None:
                        c_ = peel(o_["src"])
                if not (c_.get("k") == "Match" and "matches" in (c_.get("mac") or [])):
                    continue
                sc_ = peel(c_["scrut"])
                a_ = sc_["args"][0] if sc_.get("k") == "MethodCall" and sc_.get("args") else sc_
                if xh is None or peel(a_).get("hid") != xh:
                    continue
                only_unknown = all((pat_variant(alt) or "").endswith("Type::Unknown") or pat_is_catchall(alt)
                                   for a2 in c_["arms"] for alt in pat_alternatives(a2["pat"])) and \
                    any((pat_variant(alt) or "").endswith("Type::Unknown") for a2 in c_["arms"] for alt in pat_alternatives(a2["pat"]))
                unifies = any(callee(u) == "sylt_compiler::typechecker::TypeChecker::unify" and
                              any(peel(z).get("hid") == xh for z in u["args"]) for u in nodes(i_["t"], "MethodCall"))
                if only_unknown and unifies and order.index(id(i_)) < order.index(id(m)):
                    settled = True
                    # the shape it is given has to pass the guards of the arm that follows: where that arm rejects a callee that
                    # is not Pure under `inside_pure`, the function type made for the unknown callee is Pure under `inside_pure`
                    # (otherwise every not-yet-typed callee inside a `pu` function is rejected: `pu s -> int do s.area(2) end`
                    # fails where `s: Shape` is accepted)
                    guards_purity = any("inside_pure" in pp(g_["c"]) and "Purity::Pure" in pp(g_["c"]) and tc.is_err_value(g_["t"])
                                        for a2 in m["arms"] for g_ in nodes(a2["body"], "If"))
                    if guards_purity:
                        made = [c2 for c2 in nodes(i_["t"], "Call") if (callee(c2) or "").endswith("Type::Function") and len(c2["args"]) == 3]
                        ok_p = False
                        for c2 in made:
                            p3 = peel(c2["args"][2])
                            src3 = fl.trace(p3) if p3.get("k") == "Path" and p3.get("res") == "Local" else p3
                            for cnd in [x_ for x_ in nodes(src3) if x_.get("k") == "If"] + ([src3] if isinstance(src3, dict) and src3.get("k") == "If" else []):
                                if "inside_pure" in pp(cnd["c"]) and pp(tc.n_tail(cnd["t"])).endswith("Purity::Pure"):
                                    ok_p = True
                            for mt in [x_ for x_ in nodes(src3) if x_.get("k") == "Match"]:
                                if "inside_pure" not in pp(mt["scrut"]):
                                    continue
                                for a3 in mt["arms"]:
                                    pt = pat_strip(a3["pat"])
                                    if pt.get("k") == "LitPat" and pt["lit"].get("v") is True and pp(tc.n_tail(a3["body"])).endswith("Purity::Pure"):
                                        ok_p = True
                        rep.ob("INFERENCE", "%s|settled-shape-passes-the-purity-guard#%d" % (last(fn["_path"], 2), k), ok_p,
                               "the function type made for a callee that is not known yet is Pure inside a pure function" if ok_p else
                               "the function type %s makes for a callee that is not known yet does not become Pure under `inside_pure`, but the "
                               "arm below rejects every callee that is not Pure there: a call of a not-yet-typed callee inside a `pu` "
                               "function (`pu s -> int do s.area(2) end`) is rejected although `s: Shape` with a `pu` field is accepted"
                               % last(fn["_path"], 2), line_of(i_))
                        # .. and a callee whose purity is still *open* - what the annotation `fn int -> int` ("any purity") and a field
                        # declared `f: fn int -> int` give - is in the same position as the callee that is not known yet: the call settles
                        # it.  A guard that refuses everything that is not Pure refuses the open purity too, so the annotated program is
                        # rejected where the erased one (callee unknown -> made Pure -> unified with the field) is accepted.
                        refusing = [g_ for a2 in m["arms"] for g_ in nodes(a2["body"], "If")
                                    if "inside_pure" in pp(g_["c"]) and "Purity::Pure" in pp(g_["c"]) and tc.is_err_value(g_["t"])]
                        settling = [g_ for a2 in m["arms"] for g_ in nodes(a2["body"], "If")
                                    if "inside_pure" in pp(g_["c"]) and "Purity::Undefined" in tc.cond_text(fn, g_["c"]) and not tc.is_err_value(g_["t"])
                                    and any(callee(u_) == "sylt_compiler::typechecker::TypeChecker::unify" for u_ in nodes(g_["t"], "MethodCall"))]
                        behind = {id(x_) for g_ in settling for x_ in nodes(g_.get("e") or {})}
                        open_refused = [g_ for g_ in refusing if re.search(r"!\s*match\b[^{]*\{\s*Purity::Pure\s*=>\s*true", pp(g_["c"]))
                                        and "Purity::Undefined" not in pp(g_["c"]) and id(g_) not in behind]
                        rep.ob("ANNOTATION-PERMISSIVE", "%s|call|open-purity-is-settled-like-an-unknown-callee" % last(fn["_path"], 2), not open_refused,
                               "a callee whose purity is still open is not refused inside a pure function" if not open_refused else
                               "inside a pure function %s refuses every callee that is not Pure - one whose purity is still open (`p: Foo` with "
                               "`Foo :: blob { f: fn int -> int }`, `p.f(1)`) included - while a callee that is not known yet is made Pure and goes "
                               "through: `g :: pu p: Foo -> int do p.f(1) end` is rejected, `g :: pu p -> int do p.f(1) end` is accepted (with a "
                               "`pu` function in the field)" % last(fn["_path"], 2), line_of(open_refused[0]) if open_refused else line_of(i_))
            declared = declared or settled
            rep.ob("INFERENCE", "%s|catch-all=>error#%d" % (last(fn["_path"], 2), k), declared,
                   "a type that is still unknown is given the shape the operation needs before the split" if settled else
                   "the case split is on the type of a declaration the source names (%s)" % d if declared else
                   "%s splits on the type of an expression (%s) and answers everything it does not list - a type that is still Unknown "
                   "included - with the error `%s`: `bump :: fn c: Counter, by: int do c.n += by end` is accepted and is rejected once the "
                   "correct annotation `: Counter` is removed" % (last(fn["_path"], 2), d, tc.err_kind(wild_err["body"])), line_of(wild_err))
    rep.ob("INFERENCE", "census", True, "%d arms of the checker handle Type::Unknown" % n, sites=n)
    rep.floor("INFERENCE", "arms on Type::Unknown", n, 15)


def erased_return_type(F, rep):
    """`fn x: int -> T` and `fn x: int ->` + line break + body: whether a return type follows the arrow is decided by
    trying parse_type on the next token.  Inside brackets line breaks are skipped, so the next token is the first token of
    the body - a blob literal, `Color.Red`, `nil` - which parses as a type: the erased form only works outside brackets.
    The probe has to look at the raw token after the arrow (newline skipping off)."""
    fn = F.fn("sylt_parser::expression::function")
    rep.analysed(fn)
    probe = None
    for n, parents in walk(fn_body(fn)):
        if n.get("k") == "Call" and callee(n) == "sylt_parser::parse_type" and any(p.get("k") == "LetCond" for p in parents[-3:]):
            probe = (n, parents)
    if probe is None:
        rep.anchor_missing("speculative parse_type after `->` in expression::function")
        return
    n, parents = probe
    arg = peel(n["args"][0])
    raw = False
    fl = Flow(fn, fn_body(fn))
    src = fl.trace(arg) if arg.get("k") == "Path" else arg
    for c in nodes(src, "MethodCall"):
        if c["m"] == "push_skip_newlines" and peel(c["args"][0]).get("v") is False:
            raw = True
    rep.ob("SAME-NODE", "function|return-type-probe-ignores-layout-mode", raw,
           "the probe for a return type after `->` looks at the raw next token" if raw else
           "the probe for a return type after `->` runs in the surrounding newline mode: inside ( ), [ ], call arguments or a blob "
           "literal the first token of the body on the next line is taken for the return type, so erasing `-> A` from "
           "`(fn x: int -> A⏎ A { a: x }⏎end)` is a syntax error while the same lambda outside brackets is fine", line_of(n))


def checker_annotation_blind(F, rep):
    """the type checker may *resolve* an annotation (inner_resolve_type turns Implied into a fresh unknown, anything else
    into the type it denotes) but must not take different paths depending on whether an annotation is there: any other
    pattern match over a resolver Type makes annotated and erased programs check differently"""
    T = NR + "Type"
    allowed_methods = {"is_void": "a declared `-> void`/no return type is the same node with and without other annotations",
                       "span": "position for messages", "iter": "iteration over a list of types", "enumerate": "", "map": "", "collect": ""}
    n = 0
    bad = []
    for fn in F.fns_in("sylt_compiler::typechecker::"):
        if last(fn["_path"]) in ("inner_resolve_type",):
            continue
        for x in nodes(fn_body(fn)):
            if x.get("k") == "Match" and T in (x.get("scrut_ty") or ""):
                bad.append((last(fn["_path"], 2), "match", line_of(x)))
            elif x.get("k") == "LetCond" and T in (peel(x["init"]).get("ty") or ""):
                bad.append((last(fn["_path"], 2), "if let", line_of(x)))
            elif x.get("k") == "MethodCall" and T in (x.get("recv_ty") or ""):
                n += 1
                if x["m"] not in allowed_methods:
                    bad.append((last(fn["_path"], 2), "." + x["m"] + "()", line_of(x)))
    rep.ob("ANNOTATION-INERT", "typechecker|annotation-only-resolved", not bad,
           "outside inner_resolve_type the checker never branches on the form of an annotation (%d neutral uses: is_void / span / iteration)" % n
           if not bad else
           "the checker inspects an annotation outside inner_resolve_type (%s): what it does then depends on whether the annotation is "
           "written, e.g. a recursive `f: fn int -> int : pu n: int -> int do .. f(n - 1) end` is checked against the weaker "
           "annotation instead of the literal's own signature" % "; ".join("%s %s" % (a, b) for a, b, _ in bad),
           bad[0][2] if bad else None, sites=n)


def blob_unification_is_structural(F, rep, rule="ANNOTATION-PERMISSIVE"):
    """Without annotations a parameter that is only used as `m.v` accepts any blob with a field `v` (a Field constraint - the
    declaration's name never enters).  With the annotation `m: Meters` the argument is unified with the declared blob type,
    blob against blob.  The two agree only if that unification is structural as well: the row of sub_unify for two blobs decides
    by the field sets and field types, the declarations' names appear in its error messages only."""
    import tc
    from hir import pat_alternatives, pat_strip, pat_variant, pat_fields
    fsu = F.fn("sylt_compiler::typechecker::TypeChecker::sub_unify")
    rep.analysed(fsu)
    n = 0
    for m in nodes(fn_body(fsu), "Match"):
        if (m.get("scrut_ty") or "").count("sylt_compiler::ty::Type") != 2:
            continue
        for arm in m["arms"]:
            for alt in pat_alternatives(arm["pat"]):
                alt = pat_strip(alt)
                if alt.get("k") != "Tuple" or len(alt["pats"]) != 2:
                    continue
                if not all((pat_variant(p_) or "").endswith("Type::Blob") for p_ in alt["pats"]):
                    continue
                n += 1
                names = set()
                for p_ in alt["pats"]:
                    for b in pat_bindings(pat_fields(p_).get("0")):
                        names.add(b["hid"])
                deciding = []
                for x in nodes(arm["body"]):
                    cond = x.get("c") if x.get("k") == "If" else (x.get("scrut") if x.get("k") == "Match" else None)
                    if cond is not None and any(y.get("hid") in names for y in nodes(cond, "Path")):
                        deciding.append(x)
                if arm.get("guard") is not None and any(y.get("hid") in names for y in nodes(arm["guard"], "Path")):
                    deciding.append(arm["guard"])
                rep.ob(rule, "sub_unify|Blob|names-decide-nothing", not deciding,
                       "two blob types are unified by their fields; the declarations' names only appear in messages" if not deciding else
                       "the blob/blob row of sub_unify lets the declarations' *names* decide (`%s`): an unannotated `fn m do m.v end` "
                       "takes any blob with a field v, the same function with the correct annotation `m: Meters` rejects a `Feet { v: .. }` "
                       "- adding the annotation changes acceptance" % pp(deciding[0].get("c") or deciding[0].get("scrut") or deciding[0])[:60],
                       line_of(deciding[0]) if deciding else line_of(arm))
    rep.floor(rule, "blob/blob rows of sub_unify", n, 1)


def signature_has_no_rules_of_its_own(F, rep, rule="ANNOTATION-PERMISSIVE"):
    """Turning a written signature into a type only resolves the annotations and ties them to the parameters: every way it can
    fail is the failure of a resolution or a unification.  A rule of its own (`a generic in the return type must occur in a
    parameter`) rejects some subsets of correct annotations and accepts others."""
    import tc
    fn = F.fn("sylt_compiler::typechecker::TypeChecker::type_from_function")
    rep.analysed(fn)
    own = [x for x in nodes(fn_body(fn)) if x.get("k") == "Ret" and tc.is_err_value(x)]
    tail = tc.n_tail(fn_body(fn))
    if isinstance(tail, dict) and tc.is_err_value(tail):
        own.append(tail)
    # `?` desugars to a Ret as well: those carry the callee's error on (From::from / from_residual)
    own = [x for x in own if "from_residual" not in pp(x) and "From::from" not in pp(x)]
    rep.ob(rule, "type_from_function|no-error-of-its-own", not own,
           "type_from_function fails only when resolving or unifying an annotation fails" if not own else
           "type_from_function has an error exit of its own (`%s`): whether a function is accepted then depends on *which* of its "
           "correct annotations are written (`fn x -> *T` rejected, `fn x: *T -> *T` and `fn x` accepted)" % tc.err_kind(own[0]), line_of(own[0]) if own else fn["sp"])
