import re
"""C15 — diagnostics name the file and line of the offending construct (DESIGN §4 C15)."""
from hir import (nodes, walk, fn_body, callee, last, line_of, peel, peel_clone, pp, norm_path, pat_bindings)
from flow import Flow
import positions

EXPLANATION = (
    "Decides: (LINE) line bookkeeping of the tokenizer - every token that can contain a newline advances the line counter "
    "(shared with C17), so spans after multi-line literals carry the right line; (FILE-SPAN) at every construction of "
    "Error::{SyntaxError, CompileError, TypeError, GitConflictError} in the parser and compiler, the `file` field is "
    "computed from the same span (span_file(&span)) or the same parser context (ctx.file / ctx.span()) as the `span` field, "
    "so file and line always belong together, also in imported modules; (SPAN-SOURCE) no error location is fabricated: "
    "Span::zero is used only for the two `no start function` errors and module-level placeholders, never as the location "
    "of a syntax error; the parser's current-span accessor falls back to a real token's span at end of input; "
    "(CONFLICT) conflict markers are reported at enumerate-index + 1 with the file given; (RENDER) the rendered location "
    "line is the span's line_start of the error's own file; (NODE-SPAN) no syntax-tree node stores as its span the position "
    "of the parser context left behind by parsing its own children (that is the token after the node); (GUARD-LOCATION) a "
    "syntax error raised because of what a parsed construct is, is not located at the context its sub-parser left behind; "
    "(NAME-SPAN) a resolution error that quotes the name of an identifier node is located at that identifier's span."
    " (PARSE-ERROR-DROPPED) a speculative sub-parse whose errors are discarded and replaced by whatever fails next (two known findings); (NO-STD prelude) collisions with the prelude's imports are located in the prelude (known finding)."
    " (CHILD-SPAN) a child checked against its own positional or named expectation (argument i against parameter i, a blob field value against the field of that name) is blamed at the child's span."
    ' (DUP-ORDER) the loops that register names and report the one found taken run in source order, so the reported definition is the later one.'
    ' (VISIT-dep, shared with C11) a mismatch between literal arguments and parameters is found at the call because the callee is checked first.'
    ' (LINE read_file) the source text is tokenised with a line feed exactly where the file has one.'
)
UNDECIDED = "that each error's span is the *most helpful* one (which child's span is chosen is a matter of taste); column exactness of rendered underlines."

MANIFEST = dict(
    text=EXPLANATION + " Not decided: " + UNDECIDED,
    technique="construction-site consistency rule and span-provenance rule over resolved HIR + regex-language analysis of token patterns",
)

ERR_VARIANTS = ("SyntaxError", "CompileError", "TypeError", "GitConflictError")
CRATES = ["sylt_parser", "sylt_compiler"]


def run(F, rep, tier):
    rep.explanation = EXPLANATION
    rep.undecided = UNDECIDED
    positions.line_rules(F, rep, "LINE")
    # the line a token starts on is the line counter at that moment: one counter, advanced at every line feed in every token (shared
    # with C17)
    import core as _core15
    _core15.borrow(rep, lambda F_, r_: positions.unit_rules(F_, r_, "UNIT"), lambda o: o["rule"] == "UNIT", F)
    file_span(F, rep)
    span_source(F, rep)
    conflict(F, rep)
    render(F, rep)
    node_span(F, rep)
    guard_location(F, rep)
    name_span(F, rep)
    parse_error_dropped(F, rep)
    child_span(F, rep)
    second_definition_is_reported(F, rep)
    source_text_keeps_its_lines(F, rep)
    text_reaches_the_lexer_as_read(F, rep)
    # a mismatch between a call's literal arguments and the callee's parameters is the call's: it is found there when the callee
    # has been checked before the caller - which is the dependency order, i.e. every mention is an edge (shared with C11)
    import c11
    c11.dependency_visit(F, rep)
    import c20
    c20.prelude_yields(F, rep)


def _norm(e):
    e = peel_clone(e)
    while isinstance(e, dict) and e.get("k") == "Unary" and e.get("op") == "Deref":
        e = peel_clone(e["e"])
    return e


def file_span(F, rep):
    n = 0
    per_fn = {}
    for fn in F.own_fns(CRATES):
        body = fn_body(fn)
        fl = None
        for s in nodes(body, "Struct"):
            p = norm_path(s["path"])
            if not (p.startswith("sylt_common::error::Error::") and last(p) in ERR_VARIANTS):
                continue
            if fl is None:
                fl = Flow(fn, body)
                rep.analysed(fn)
            n += 1
            f = {x["name"]: x["e"] for x in s["fields"]}
            fe, se = _norm(f.get("file")), _norm(f.get("span"))
            verdict, why = consistent(fl, fe, se)
            key = "%s|%s" % (last(fn["_path"], 2), last(p))
            per_fn.setdefault(key, []).append((verdict, why, line_of(s)))
    for key, lst in sorted(per_fn.items()):
        bad = [x for x in lst if not x[0]]
        rep.ob("FILE-SPAN", key, not bad,
               "%d construction(s) of %s: %s" % (len(lst), key.split("|")[1], "file and span come from the same source (%s)" % lst[0][1]
                                                  if not bad else "file and span do NOT come from the same source: %s" % bad[0][1]),
               (bad[0][2] if bad else lst[0][2]), sites=len(lst))
    rep.floor("FILE-SPAN", "error constructions", n, 60)


def consistent(fl, fe, se):
    """file expr vs span expr"""
    if fe is None or se is None:
        return False, "missing field"
    # file: X.span_file(&S)   span: S
    if fe.get("k") == "MethodCall" and fe["m"] == "span_file":
        a = _norm(fe["args"][0])
        if pp(a) == pp(se):
            return True, "span_file(&span) / span"
        # span: span.clone() etc already normalised; allow `$span` evaluated twice (same text)
        return False, "file from span_file(%s) but span is %s" % (pp(a), pp(se))
    if fe.get("k") == "MethodCall" and fe["m"] == "file_from_namespace":
        a = _norm(fe["args"][0])
        if a.get("k") == "Field" and a["name"] == "file_id" and pp(_norm(a["e"])) == pp(se):
            return True, "file_from_namespace(span.file_id) / span"
        return False, "file_from_namespace(%s) vs span %s" % (pp(a), pp(se))
    # file: ctx.file   span: ctx.span()
    if fe.get("k") == "Field" and fe["name"] == "file":
        base = pp(_norm(fe["e"]))
        if se.get("k") == "MethodCall" and se["m"] == "span" and pp(_norm(se["recv"])) == base:
            return True, "ctx.file / ctx.span()"
        # span of a token previously read from the same ctx: variant.span with ctx.file (enum duplicate variant)
        if se.get("k") == "Path" and se.get("res") == "Local":
            src = fl.trace(se)
            t = pp(src)
            return (".span" in t or "span" in se.get("name", "")), "ctx.file / span of a node parsed from the same context (%s)" % t[:40]
        return False, "ctx.file with span %s" % pp(se)
    # both bound from the same pattern (detail_if_error!: copies of an existing error's fields) or both parameters
    if fe.get("k") == "Path" and se.get("k") == "Path":
        of, os_ = fl.origin.get(fe.get("hid")), fl.origin.get(se.get("hid"))
        if of and os_:
            if of["kind"] == os_["kind"] == "arm" and of["node"] is os_["node"]:
                return True, "both copied from one existing error"
            if of["kind"] == os_["kind"] == "param":
                return True, "both are parameters of the constructor function"
            if of["kind"] == "let" and os_["kind"] == "let":
                return True, "locals (%s / %s)" % (pp(of["src"])[:30], pp(os_["src"])[:30])
    if se.get("k") == "Struct" and fe.get("k") == "Path":
        return True, "span literal built next to the file parameter"
    return False, "file %s / span %s" % (pp(fe)[:40], pp(se)[:40])


ZERO_ALLOWED = {
    "sylt_compiler::name_resolution::resolve": "the `no start function` error has no location in the source",
    "sylt_compiler::typechecker::TypeChecker::solve": "the `no start function` error has no location in the source",
    "sylt_parser::module": "Module.span is a placeholder for the whole file, not an error location",
}


def span_source(F, rep):
    n = 0
    for fn in F.own_fns(CRATES + ["sylt_common", "sylt"]):
        if fn["_path"].startswith("sylt::formatter"):
            continue
        for c in nodes(fn_body(fn), "Call"):
            if callee(c) == "sylt_tokenizer::Span::zero":
                n += 1
                why = ZERO_ALLOWED.get(fn["_path"])
                key = last(fn["_path"], 2)
                if why is None and fn["_path"] == "sylt_parser::Context::peek" and _only_fallback_of_last(fn, c):
                    why = "only the fallback of `self.spans.last()`: used when the file has no token at all"
                if why:
                    rep.ob("SPAN-SOURCE", "Span::zero|" + key, True, "Span::zero in %s: %s" % (key, why), line_of(c))
                else:
                    rep.ob("SPAN-SOURCE", "Span::zero|" + key, False,
                           "%s fabricates a location with Span::zero (line 0): errors raised through it are reported on line 0 "
                           "instead of the line of the offending construct (e.g. every syntax error at the end of a truncated file)" % key,
                           line_of(c))
    rep.floor("SPAN-SOURCE", "Span::zero call sites", n, 3)
    # errors raised by the parser macros use the current context's span
    sp = F.fn("sylt_parser::Context::span")
    t = pp(fn_body(sp))
    rep.ob("SPAN-SOURCE", "Context::span", "self.peek().1" in t, "the parser's error location is the span of the current token (peek().1)", sp["sp"])
    pk = F.fn("sylt_parser::Context::peek")
    rep.analysed(pk)


def _only_fallback_of_last(fn, zero_call):
    """the Span::zero call is (inside) the argument of unwrap_or[_else] applied to a chain on self.spans.last()"""
    for n, parents in walk(fn_body(fn)):
        if n is zero_call:
            for p in reversed(parents):
                if p.get("k") == "MethodCall" and p["m"] in ("unwrap_or", "unwrap_or_else"):
                    chain = pp(p["recv"])
                    return "self.spans.last()" in chain
    return False


def conflict(F, rep):
    fn = F.fn("sylt_parser::find_conflict_markers")
    rep.analysed(fn)
    body = fn_body(fn)
    fl = Flow(fn, body)
    ok_line = ok_file = False
    for s in nodes(body, "Struct"):
        if s["path"].endswith("Error::GitConflictError"):
            f = {x["name"]: x["e"] for x in s["fields"]}
            ok_file = pp(_norm(f["file"])) == "file"
            span = peel(f["span"])
            sf = {x["name"]: pp(peel(x["e"])) for x in span.get("fields", [])}
            ok_line = sf.get("line_start") == "(i Add 1)" and sf.get("line_end") == "(i Add 1)" and sf.get("file_id") == "file_id"
    loops = [l for l in nodes(body, "ForLoop") if "lines().enumerate()" in pp(l["iter"])]
    rep.ob("CONFLICT", "line=index+1", ok_line and bool(loops), "a conflict marker on the i-th line (0-based enumerate over source.lines()) is reported on line i+1", fn["sp"])
    rep.ob("CONFLICT", "file", ok_file, "with the file it was found in", fn["sp"])
    # tree() calls it with the file being read and that file's id
    tr = F.fn("sylt_parser::tree")
    ok = False
    for c in nodes(fn_body(tr), "Call"):
        if callee(c) == "sylt_parser::find_conflict_markers":
            a = [pp(peel(x)) for x in c["args"]]
            ok = a == ["include", "file_id", "source"]
    rep.ob("CONFLICT", "tree-passes-current-file", ok, "tree() checks each file with its own path, id and text", tr["sp"])


def render(F, rep):
    fn = F.fn("sylt_common::error::[Error as Display]::fmt")
    rep.analysed(fn)
    n = 0
    bad = []
    for c in nodes(fn_body(fn), "Call"):
        if callee(c) == "sylt_common::error::file_line_display":
            n += 1
            a = [pp(peel(x)) for x in c["args"]]
            if not (a[0] == "file" and a[1].endswith("span.line_start")):
                bad.append(a)
    rep.ob("RENDER", "file_line_display", n >= 3 and not bad,
           "%d rendered error headers print the error's own file and span.line_start (%s)" % (n, bad or "ok"), fn["sp"], sites=n)


# --------------------------------------------------------------------------- where a location was taken

ADVANCING = ("eat", "skip", "skip_if", "prev")
NEUTRAL = ("push_skip_newlines", "pop_skip_newlines", "push_last_statement_location", "clone")
CTX = "sylt_parser::Context"


class CtxSteps:
    """how a parser Context value was derived from the function's entry context: the list of token-consuming steps
    on the way ([] = provably still at the first token of the construct this function parses)"""

    def __init__(self, fn):
        self.fn = fn
        self.body = fn_body(fn)
        self.fl = Flow(fn, self.body)
        self.reassigned = set()
        self.assigns = {}
        self.assign_nodes = {}
        for a in nodes(self.body, "Assign"):
            l = peel(a["l"])
            if l.get("k") == "Path" and l.get("res") == "Local":
                self.reassigned.add(l["hid"])
                self.assigns.setdefault(l["hid"], []).append(a["r"])
                self.assign_nodes.setdefault(l["hid"], []).append(a)

    def steps(self, e, depth=0):
        e = peel_clone(e)
        if depth > 16 or not isinstance(e, dict):
            return ["?"]
        k = e.get("k")
        if k == "Path" and e.get("res") == "Local":
            if e["hid"] in self.reassigned:
                return ["reassigned:" + e["name"]]
            o = self.fl.origin.get(e["hid"])
            if o is None:
                return ["?origin"]
            if o["kind"] == "param":
                return []
            if o["kind"] == "closure":
                return ["closure-parameter"]
            src = o.get("src")
            if src is None:
                return ["?" + o["kind"]]
            if o["path"] == ():
                return self.steps(src, depth + 1)
            return self.destructured(src, depth + 1)
        if k == "MethodCall":
            if e["m"] in ADVANCING:
                return self.steps(e["recv"], depth + 1) + [e["m"]]
            if e["m"] in NEUTRAL:
                return self.steps(e["recv"], depth + 1)
            return ["?method:" + e["m"]]
        if k == "Try":
            return self.steps(e["e"], depth + 1)
        if k == "Block":
            if e.get("e") is None:
                return ["?block"]
            return self.steps(e["e"], depth + 1)
        if k == "If":
            a = self.steps(e["t"], depth + 1)
            b = self.steps(e["e"], depth + 1) if e.get("e") else []
            return a or b
        if k == "Match":
            out = []
            for arm in e["arms"]:
                from hir import diverges
                if diverges(arm["body"]):
                    continue
                out = out or self.steps(arm["body"], depth + 1)
            return out
        if k == "Call":
            return ["parsed:" + last(callee(e) or "?")]
        if k == "Tup":
            # (ctx, value) tuples built inline: the first Context-typed element
            for x in e["es"]:
                if CTX in (peel(x).get("ty") or ""):
                    return self.steps(x, depth + 1)
            return ["?tuple"]
        return ["?" + str(k)]

    def destructured(self, src, depth):
        """a context bound by destructuring the result of src: `(token, span, ctx) = c.eat()`, `(ctx, node) = parse(c)?`"""
        src = peel_clone(src)
        if src.get("k") == "Try":
            src = peel_clone(src["e"])
        k = src.get("k")
        if k == "MethodCall" and src["m"] in ADVANCING:
            return self.steps(src["recv"], depth + 1) + [src["m"]]
        if k == "Call":
            return ["parsed:" + last(callee(src) or "?")]
        if k in ("If", "Match", "Block", "Tup"):
            return self.steps(src, depth + 1)
        return ["?destructure:" + str(k)]


NODE_TYPES = ("Assignable", "Statement", "IfBranch", "TypeAssignable")
NODE_SPAN_EXEMPT = {
    ("infix", "Expression"): "the Get(..) wrapper built after sub_assignable: name resolution replaces the wrapper by the "
                             "assignable's own node (EK::Get(g) => self.assignable(g)), its span is never reported",
}


def _pos(n):
    """(line, col) of a node from its `sp` (file:line:col), or None"""
    sp = n.get("sp") if isinstance(n, dict) else None
    if not sp:
        return None
    try:
        _f, l, c = sp.rsplit(":", 2)
        return (int(l), int(c))
    except ValueError:
        return None


def _other_branch(cs, a, x):
    """is the assignment `a` in one branch of an `if` and the read `x` in the other (so the assignment never precedes the read
    on a path)?"""
    for i in nodes(cs.body, "If"):
        t, e = i.get("t"), i.get("e")
        if t is None or e is None:
            continue
        in_t = lambda n_: any(y is n_ for y in nodes(t))
        in_e = lambda n_: any(y is n_ for y in nodes(e))
        if (in_t(a) and in_e(x)) or (in_e(a) and in_t(x)):
            return True
    return False


def _binding_sites(cs, e, depth=0, out=None, ancestors=True, visited=None):
    """ids of the destructuring sites (`(tok, span, ctx) = c.eat()`, `(ctx, node) = parse(c)?`) through which the value of
    expression e was obtained, following plain lets and - for a `let mut` - the assignments that textually precede the
    read (a later assignment in a loop body belongs to the previous iteration, i.e. to another node)"""
    if out is None:
        out = {}
    if visited is None:
        visited = set()
    if depth > 12:
        return out
    for x in nodes(e, "Path"):
        if x.get("res") != "Local":
            continue
        if not ancestors and CTX in (x.get("ty") or ""):
            # children are the parsed values, not the context they were parsed from
            continue
        key = (x["hid"], x.get("sp"))
        if key in visited:
            continue
        visited.add(key)
        o = cs.fl.origin.get(x["hid"])
        here = _pos(x)
        for a in cs.assign_nodes.get(x["hid"], []):
            ap = _pos(a)
            if here is not None and ap is not None and ap < here and not _other_branch(cs, a, x):
                _binding_sites(cs, a["r"], depth + 1, out, ancestors, visited)
        if o is None or o.get("src") is None:
            continue
        if o["path"] == ():
            if o["kind"] == "let":
                _binding_sites(cs, o["src"], depth + 1, out, ancestors, visited)
            continue
        src = peel_clone(o["src"])
        if src.get("k") == "Try":
            src = peel_clone(src["e"])
        if (src.get("k") == "MethodCall" and src["m"] in ADVANCING) or src.get("k") == "Call":
            out[id(o["node"])] = pp(src)[:50]
            # the context the call started from may itself be a post-context
            if ancestors:
                _binding_sites(cs, src.get("recv") if src.get("k") == "MethodCall" else (src.get("args") or [None])[0], depth + 1, out, ancestors, visited)
        else:
            idx = [el[1] for el in o["path"] if el[0] == "tuple"]
            for t in _tails(src):
                if t.get("k") == "Tup" and idx and idx[0] < len(t["es"]):
                    _binding_sites(cs, t["es"][idx[0]], depth + 1, out, ancestors, visited)
                else:
                    # `let (ctx, items) = { fn item(..) .. ; parse_sep_end_by(ctx, sep, end, item)? };` - a block whose value
                    # is the call
                    t2 = peel_clone(t)
                    if t2.get("k") == "Try":
                        t2 = peel_clone(t2["e"])
                    if (t2.get("k") == "MethodCall" and t2["m"] in ADVANCING) or t2.get("k") == "Call":
                        out[id(o["node"])] = pp(t2)[:50]
    return out


def _tails(e, depth=0):
    """the value-producing tail expressions of a block / if / match (diverging branches skipped)"""
    from hir import diverges
    e = peel_clone(e)
    if not isinstance(e, dict) or depth > 8:
        return []
    k = e.get("k")
    if k == "Block":
        return _tails(e["e"], depth + 1) if e.get("e") is not None else []
    if k == "If":
        return _tails(e["t"], depth + 1) + (_tails(e["e"], depth + 1) if e.get("e") else [])
    if k == "Match":
        out = []
        for a in e["arms"]:
            if not diverges(a["body"]):
                out += _tails(a["body"], depth + 1)
        return out
    return [e]


def node_span(F, rep):
    """the span stored in a syntax-tree node is where diagnostics about that node point.  It must not be read from the
    parser context that results from parsing one of the node's own children (`(tok, span, ctx) = c.eat()` /
    `(ctx, child) = parse(c)?` followed by `ctx.span()`): that context stands on the token *after* the child, so an
    error about the node is reported at whatever follows it - on a later line when a line break follows."""
    n = 0
    for fn in F.own_fns(["sylt_parser"]):
        if "::test" in fn["_path"]:
            continue
        body = fn_body(fn)
        cs = None
        seen = {}
        for s in nodes(body):
            ty = spanexpr = None
            others = []
            if s.get("k") == "Struct":
                p = norm_path(s["path"])
                if p.startswith("sylt_parser::") and last(p) in NODE_TYPES:
                    f = {x["name"]: x["e"] for x in s["fields"]}
                    if "span" in f:
                        ty, spanexpr = last(p), f["span"]
                        others = [v for k, v in f.items() if k != "span"]
            elif s.get("k") == "Call":
                c = callee(s) or ""
                if c in ("sylt_parser::expression::Expression::new", "sylt_parser::Expression::new"):
                    ty, spanexpr = "Expression", s["args"][0]
                    others = s["args"][1:]
            if ty is None:
                continue
            if cs is None:
                cs = CtxSteps(fn)
                rep.analysed(fn)
            n += 1
            fname = last(fn["_path"])
            key = "%s|%s" % (fname, ty)
            seen[key] = seen.get(key, 0) + 1
            if seen[key] > 1:
                key += "#%d" % seen[key]
            # the context whose .span() is stored (through plain lets)
            se = peel_clone(spanexpr)
            hops = 0
            while se.get("k") == "Path" and se.get("res") == "Local" and hops < 6:
                o = cs.fl.origin.get(se["hid"])
                if o and o["kind"] == "let" and o["path"] == () and o.get("src") is not None:
                    se = peel_clone(o["src"])
                    hops += 1
                else:
                    break
            if not (se.get("k") == "MethodCall" and se["m"] == "span"):
                rep.ob("NODE-SPAN", key, True, "the span of this %s node is not read from a parser context (%s)" % (ty, pp(se)[:50]), line_of(s))
                continue
            ctx_sites = _binding_sites(cs, se["recv"])
            child_sites = {}
            for v in others:
                _binding_sites(cs, v, 0, child_sites, ancestors=False)
            common = [ctx_sites[k] for k in ctx_sites if k in child_sites]
            if common and (fname, ty) in NODE_SPAN_EXEMPT:
                rep.ob("NODE-SPAN", key, True, "exempt: " + NODE_SPAN_EXEMPT[(fname, ty)], line_of(s))
                continue
            rep.ob("NODE-SPAN", key, not common,
                   ("the span of this %s node is not taken from the context left behind by parsing its own children" % ty) if not common else
                   ("the span of this %s node is `%s`, and that context is the one left behind by `%s`, which produced a child of "
                    "the node: the span names the token after the child, so errors about the node (unresolved member, missing "
                    "field) are reported at whatever follows it - on the next line when a line break follows"
                    % (ty, pp(se)[:40], common[0])), line_of(s))
    rep.floor("NODE-SPAN", "node constructions", n, 30)
    # an operator node is located at its operator: the type checker reports `+ is not defined for ..` at the node's span, and
    # an operand can start lines above the operator that does not fit it (a chain continued over line breaks)
    for fname in ("infix", "unary"):
        fn = F.fn("sylt_parser::expression::" + fname)
        fl = Flow(fn, fn_body(fn))
        k_ = 0
        for s in nodes(fn_body(fn), "Call"):
            if (callee(s) or "") not in ("sylt_parser::expression::Expression::new", "sylt_parser::Expression::new"):
                continue
            kind = peel_clone(s["args"][1]) if len(s["args"]) > 1 else {}
            ko = fl.origin.get(kind.get("hid")) if kind.get("k") == "Path" else None
            ktxt = pp(ko["src"]) if ko and ko.get("src") is not None else pp(kind)
            if not re.search(r"\b(Add|Sub|Mul|Div|Neg|Not|And|Or|Comparison|AssertEq)\(", ktxt):
                continue      # not an operator node (a postfix form wrapped in Get ..)
            k_ += 1
            se = peel_clone(s["args"][0])
            src = None
            if se.get("k") == "Path" and se.get("res") == "Local":
                o = fl.origin.get(se["hid"])
                if o and o.get("src") is not None:
                    src = peel_clone(o["src"])
                    pth = o["path"]
            ok = isinstance(src, dict) and src.get("k") == "MethodCall" and src["m"] == "eat" and pth == (("tuple", 1),)
            rep.ob("NODE-SPAN", "%s|operator-token#%d" % (fname, k_), ok,
                   "the operator node built by %s() is located at the operator token it ate" % fname if ok else
                   "the operator node built by %s() takes its span from `%s`, not from the operator token: `+ is not defined for 'int' "
                   "and 'str'` is reported where the left operand starts - lines above, when the chain is continued over line breaks"
                   % (fname, pp(src)[:40] if isinstance(src, dict) else pp(se)), line_of(s))


def guard_location(F, rep):
    """an error that is raised because of what a *parsed construct* is (a test on the node a sub-parser returned) must
    not be located at the context that sub-parser left behind: that is the token after the construct - for statements,
    which consume their line terminator, always the next line.  Errors raised because of what the *current token* is are
    rightly located at the current token."""
    n = 0
    for fn in F.own_fns(["sylt_parser"]):
        if "::test" in fn["_path"]:
            continue
        body = fn_body(fn)
        cs = None
        seen = {}
        for s, parents in walk(body):
            if s.get("k") != "Struct" or not norm_path(s["path"]).endswith("Error::SyntaxError"):
                continue
            if cs is None:
                cs = CtxSteps(fn)
                rep.analysed(fn)
            n += 1
            f = {x["name"]: x["e"] for x in s["fields"]}
            se = peel_clone(f.get("span"))
            fname = last(fn["_path"])
            msg = ""
            m = peel(f.get("message"))
            if isinstance(m, dict) and m.get("k") == "Call" and m.get("args"):
                m = peel(m["args"][0])
            src = cs.fl.trace(m) if isinstance(m, dict) and m.get("k") == "Path" else m
            from hir import find_formats, format_text
            for _c, parts in find_formats(src):
                msg = format_text(parts)
            key = "%s|%s" % (fname, msg[:40])
            seen[key] = seen.get(key, 0) + 1
            if seen[key] > 1:
                key += "#%d" % seen[key]
            if not (se.get("k") == "MethodCall" and se["m"] == "span"):
                continue
            ctx_sites = _binding_sites(cs, se["recv"])
            # values the enclosing guards look at (other than the context itself)
            bad = None
            for par in parents:
                g = par["scrut"] if par.get("k") == "Match" else par["c"] if par.get("k") == "If" else None
                if g is None:
                    continue
                for x in nodes(g, "Path"):
                    if x.get("res") != "Local":
                        continue
                    # the value may be an element of what the sub-parser returned (`for (variant, ty) in items`): follow the
                    # chain of bindings back to the call
                    hid, steps = x["hid"], 0
                    while steps < 6:
                        steps += 1
                        o = cs.fl.origin.get(hid)
                        if o is None or o.get("src") is None:
                            break
                        srcx = peel_clone(o["src"])
                        if srcx.get("k") == "Try":
                            srcx = peel_clone(srcx["e"])
                        while srcx.get("k") == "Block" and srcx.get("e") is not None:
                            srcx = peel_clone(srcx["e"])
                            if srcx.get("k") == "Try":
                                srcx = peel_clone(srcx["e"])
                        idx = [el[1] for el in o["path"] if el[0] == "tuple"]
                        if srcx.get("k") == "Call" and o["path"] != () and idx and idx[0] != 0 and id(o["node"]) in ctx_sites:
                            bad = (x["name"], pp(srcx)[:50])
                            break
                        nxt = srcx
                        while isinstance(nxt, dict) and nxt.get("k") == "MethodCall" and nxt["m"] in (
                                "iter", "into_iter", "iter_mut", "enumerate", "rev", "clone", "as_ref", "drain", "zip"):
                            nxt = peel_clone(nxt["recv"])
                        if isinstance(nxt, dict) and nxt.get("k") == "Path" and nxt.get("res") == "Local" and nxt["hid"] != hid:
                            hid = nxt["hid"]
                            continue
                        break
            rep.ob("GUARD-LOCATION", key, bad is None,
                   "the error is located at the current token or at the construct's own position" if bad is None else
                   "the error is raised because of `%s`, the construct returned by `%s`, but it is located at the context that "
                   "call left behind - the token after the construct (the next line when the construct ends its line)" % bad,
                   line_of(s))
    rep.floor("GUARD-LOCATION", "syntax error constructions", n, 90)


def name_span(F, rep):
    """`Cannot find "x" in namespace ..` / `No type named "x"`: when the message quotes <ident>.name, the error's span is
    <ident>.span (the place where that name is written), not the span of an enclosing statement"""
    n = 0
    NR = "sylt_compiler::name_resolution"
    for fn in F.own_fns(["sylt_compiler"]):
        if not fn["_path"].startswith(NR):
            continue
        fl = None
        seen = {}
        for s in nodes(fn_body(fn), "Struct"):
            if not norm_path(s["path"]).endswith("Error::CompileError"):
                continue
            if fl is None:
                fl = Flow(fn, fn_body(fn))
            f = {x["name"]: x["e"] for x in s["fields"]}
            m = peel(f["message"])
            if m.get("k") == "Call" and m.get("args"):
                m = peel(m["args"][0])
            src = fl.trace(m) if m.get("k") == "Path" else m
            from hir import find_formats, format_text
            for _c, parts in find_formats(src):
                quoted = [peel(q["e"]) for q in parts if isinstance(q, dict)]
                idents = [q for q in quoted if q.get("k") == "Field" and q["name"] == "name"
                          and (q.get("base_ty") or "").replace("&", "").strip() == "sylt_parser::Identifier"]
                if not idents:
                    continue
                n += 1
                rep.analysed(fn)
                key = "%s|%s" % (last(fn["_path"], 2), format_text(parts)[:40])
                seen[key] = seen.get(key, 0) + 1
                if seen[key] > 1:
                    key += "#%d" % seen[key]
                base = pp(_norm(idents[0]["e"]))
                se = _norm(f["span"])
                # through `let span = X.span` lets and .clone()
                hops = 0
                while se.get("k") == "Path" and se.get("res") == "Local" and hops < 4:
                    o = fl.origin.get(se["hid"])
                    if o and o["kind"] == "let" and o["path"] == () and o.get("src") is not None:
                        se = _norm(o["src"])
                        hops += 1
                    else:
                        break
                ok = se.get("k") == "Field" and se["name"] == "span" and pp(_norm(se["e"])) == base
                why = ""
                if not ok and (last(fn["_path"]), pp(se)) in NAME_SPAN_EXEMPT:
                    # the exemption names the function's *parameter*: an arm's pattern that rebinds the same name (to the receiver
                    # of the access, say) is another value
                    prm = {b["hid"] for q in fn["params"] for b in pat_bindings(q["pat"])}
                    base_e = _norm(se["e"]) if se.get("k") == "Field" else {}
                    if base_e.get("k") == "Path" and base_e.get("hid") in prm:
                        ok, why = True, " (exempt: %s)" % NAME_SPAN_EXEMPT[(last(fn["_path"]), pp(se))]
                rep.ob("NAME-SPAN", key, ok,
                       ("the message quotes %s.name and the error is located at %s%s" % (base, pp(se), why)) if ok else
                       ("the message quotes %s.name but the error is located at `%s`, not at %s.span: for a construct spread "
                        "over several lines the report names the wrong line" % (base, pp(se), base)), line_of(s))
    rep.floor("NAME-SPAN", "resolution errors quoting an identifier", n, 8)


NAME_SPAN_EXEMPT = {
    ("assignable", "assignable.span"): "the span of the Access node itself, which the parser takes from the accessed identifier "
                                       "(see NODE-SPAN for how that span is obtained)",
}


PARSE_RETRY_EXEMPT = {
    ("assignable_dot_or_variant", "assignable_variant"): "the same tokens are parsed again as a field access by assignable_dot, "
                                                          "whose own error is the one reported",
}


def parse_error_dropped(F, rep):
    """a speculative sub-parse (`match expression(ctx) { Ok(..) => .., Err(_) => <go on without it> }`) throws away the
    real error - which may lie lines further down, inside the construct - and parsing resumes in front of the construct,
    where some other token then gets blamed.  Whether an optional construct is present has to be decided from the next
    token; once it is present its errors are the errors to report."""
    n = 0
    for fn in F.own_fns(["sylt_parser"]):
        if "::test" in fn["_path"]:
            continue
        fname = last(fn["_path"])
        for m in nodes(fn_body(fn)):
            sub = None
            dropped = False
            retry_arm = None
            when = "always"
            if m.get("k") == "Match":
                calls = [c for c in nodes(m["scrut"], "Call") if (callee(c) or "").startswith("sylt_parser::")
                         and "Result<(sylt_parser::Context" in (c.get("ty") or "")]
                if not calls:
                    continue
                sub = calls[0]
                has_ok_arm = any((pat_variant_of(alt) or "").endswith("Result::Ok") for arm in m["arms"] for alt in _alts(arm["pat"]))
                for arm in m["arms"]:
                    for alt in _alts(arm["pat"]):
                        # `Err(_) => ..` - or, next to an `Ok(..)` arm, a catch-all `_ => ..`
                        catch_all = has_ok_arm and _strip(alt).get("k") == "Wild"
                        if _is_err_wild(alt) or catch_all:
                            from hir import diverges, ppat
                            if not diverges(arm["body"]) and not _returns_err(arm["body"]):
                                dropped = True
                                retry_arm = arm
                                # the circumstances under which the errors are dropped are part of the instance: a known
                                # finding for `(Err(_), true)` (prime calls only) must not hide a change to plain `Err(_)`
                                txt = ppat(alt).replace(" ", "")
                                when = "always" if txt in ("Result::Err(_)", "Err(_)", "_") else "when" + txt.replace("Result::", "")
            elif m.get("k") == "If":
                c = peel(m["c"])
                if c.get("k") == "LetCond" and (pat_variant_of(c["pat"]) or "").endswith("Result::Ok"):
                    calls = [x for x in nodes(c["init"], "Call") if (callee(x) or "").startswith("sylt_parser::")
                             and "Result<(sylt_parser::Context" in (x.get("ty") or "")]
                    if calls and m.get("e") is not None:
                        sub = calls[0]
                        from hir import diverges
                        dropped = not diverges(m["e"]) and not _returns_err(m["e"])
                        retry_arm = dict(body=m["e"])
            if sub is None or not dropped:
                continue
            n += 1
            key = "%s|%s|%s" % (fname, last(callee(sub)), when)
            ex = PARSE_RETRY_EXEMPT.get((fname, last(callee(sub))))
            if ex is None and retry_arm is not None:
                # the arm that drops the errors parses the same tokens again with another parser, from the very same cursor:
                # that parser's own error is what gets reported (wherever this code lives - helper or inlined)
                a0 = peel(sub["args"][0]) if sub.get("args") else {}
                # (in the arm itself, or - `let is_x = match probe(ctx) {..}; if is_x { a(ctx) } else { b(ctx) }` - anywhere later)
                later = [c_ for c_ in nodes(fn_body(fn), "Call") if (c_.get("sp") or "") > (sub.get("sp") or "")]
                for c2 in list(nodes(retry_arm["body"], "Call")) + later:
                    if c2 is not sub and (callee(c2) or "").startswith("sylt_parser::") and "Result<(sylt_parser::Context" in (c2.get("ty") or "") \
                            and c2.get("args") and peel(c2["args"][0]).get("hid") is not None and peel(c2["args"][0]).get("hid") == a0.get("hid"):
                        ex = "the same tokens are parsed again from the same cursor by %s, whose own error is the one reported" % last(callee(c2))
            if ex is None and last(callee(sub)) == "parse_type":
                # a type is written on one line: parse_type (and what it calls) never switches newline skipping on, so
                # the error reported instead of the discarded one is on the same line
                pt = F.fn("sylt_parser::parse_type")
                if not any(c["m"] == "push_skip_newlines" for c in nodes(fn_body(pt), "MethodCall")):
                    ex = "an optional type: types cannot span lines (parse_type never enables newline skipping), so the " \
                         "error reported in place of the discarded one names the same line"
            rep.ob("PARSE-ERROR-DROPPED", key, ex is not None,
                   ("exempt: " + ex) if ex else
                   "%s() tries %s() and, when that fails, discards its errors and carries on from before the construct: a "
                   "syntax error inside the construct (possibly lines below) is reported somewhere else" % (fname, last(callee(sub))),
                   line_of(m))
    rep.floor("PARSE-ERROR-DROPPED", "speculative sub-parses", n, 1)
    optional_expressions(F, rep)


def optional_expressions(F, rep, R_="PARSE-ERROR-DROPPED"):
    """Where an expression is optional (the value of `Enum.Variant`, the next argument of a `'`-call) its presence is
    decided from the next token by starts_expression(); that predicate has to accept exactly the tokens prefix() has a rule
    for - one token too few and a construct that is there is silently skipped (and whatever follows is blamed), one too many
    and an absent value becomes a syntax error."""
    from hir import pat_alternatives, pat_variant
    se = F.fn_opt("sylt_parser::expression::starts_expression")
    if se is None:
        rep.ob(R_, "optional-expression|decided-by-the-next-token", False,
               "no predicate says which tokens can start an expression: optional expressions can only be probed by trying to parse them")
        return
    rep.analysed(se)
    yes = set()
    for m in nodes(fn_body(se), "Match"):
        for a in m["arms"]:
            if peel(a["body"]).get("v") is True:
                for alt in pat_alternatives(a["pat"]):
                    v = pat_variant(alt)
                    if v:
                        yes.add(last(v))
    pf = F.fn("sylt_parser::expression::prefix")
    rules = set()
    for m in nodes(fn_body(pf), "Match"):
        if "token::Token" not in (m.get("scrut_ty") or ""):
            continue
        for a in m["arms"]:
            if _returns_err(a["body"]):
                continue
            for alt in pat_alternatives(a["pat"]):
                v = pat_variant(alt)
                if v:
                    rules.add(last(v))
        break
    rep.ob(R_, "starts_expression|mirrors-prefix", bool(yes) and yes == rules,
           "starts_expression() accepts exactly the %d tokens prefix() has a rule for" % len(rules) if yes == rules and yes else
           "starts_expression() and prefix() disagree: only in the predicate %s, only in prefix() %s" % (sorted(yes - rules), sorted(rules - yes)),
           se["sp"])
    users = sorted({last(fn["_path"]) for fn in F.own_fns(["sylt_parser"]) if "::test" not in fn["_path"]
                    for c in nodes(fn_body(fn), "Call") if callee(c) == "sylt_parser::expression::starts_expression"})
    rep.ob(R_, "optional-expression|decided-by-the-next-token", len(users) >= 2,
           "optional expressions are decided from the next token in %s" % users, se["sp"], sites=len(users))


def _strip(p):
    from hir import pat_strip
    return pat_strip(p)


def _alts(p):
    from hir import pat_alternatives
    return pat_alternatives(p)


def pat_variant_of(p):
    from hir import pat_variant
    return pat_variant(p)


def _is_err_wild(p):
    """Err(_) / (Err(_), ..) patterns"""
    from hir import pat_strip, pat_variant
    p = pat_strip(p)
    if p.get("k") == "Tuple":
        return any(_is_err_wild(x) for x in p["pats"])
    if (pat_variant(p) or "").endswith("Result::Err"):
        subs = p.get("pats") or []
        return all(pat_strip(x).get("k") == "Wild" for x in subs)
    return False


def _returns_err(e):
    import tc
    return tc.is_err_value(e)


def child_span(F, rep, rule="CHILD-SPAN"):
    """a call's argument (a blob literal's field value) is checked against *its own* expectation - the parameter at its
    position, the field of its name.  A mismatch is then the argument's: the check carries a span taken from that child,
    not the span of the enclosing call (which is where the call starts - lines above, for arguments written one per line)"""
    TC = "sylt_compiler::typechecker::TypeChecker::"
    n = 0
    for fname in ("expression", "statement"):
        fn = F.fn(TC + fname)
        body = fn_body(fn)
        lets = {}
        for st in nodes(body, "Let"):
            if st.get("init") is not None:
                for b in pat_bindings(st["pat"]):
                    lets[b["hid"]] = st["init"]
        for lp in nodes(body, "ForLoop"):
            bound = {b["hid"]: b["name"] for b in pat_bindings(lp["pat"])}
            # .. and other names for the same elements (`let (key, expr) = (name, initialiser)`)
            fl_ = fl_ if "fl_" in dir() and fl_.fn is fn else Flow(fn, body)
            for st in nodes(lp["body"], "Let"):
                for b in pat_bindings(st["pat"]):
                    o = fl_.origin.get(b["hid"])
                    if o and o["kind"] == "let" and o.get("path") == () and o.get("src") is not None:
                        sx = peel(o["src"])
                        if sx.get("k") == "Path" and sx.get("hid") in bound:
                            bound[b["hid"]] = b["name"]
            # the child: a loop variable handed to self.expression(..) whose type lands in a local
            kids = {}
            for st in nodes(lp["body"], "Let"):
                init = st.get("init")
                for c in nodes(init, "MethodCall") if init is not None else ():
                    if callee(c) == TC + "expression" and c["args"]:
                        x = peel(c["args"][0])
                        if x.get("k") == "Path" and x.get("res") == "Local" and x["hid"] in bound:
                            for b in pat_bindings(st["pat"]):
                                kids[b["hid"]] = x["hid"]
            if not kids:
                continue
            others = set(bound) - set(kids.values())
            k = 0
            for c in nodes(lp["body"], "MethodCall"):
                if callee(c) != TC + "unify" or len(c["args"]) < 4:
                    continue
                tys = c["args"][2:4]
                hs = [{p_["hid"] for p_ in nodes(t, "Path") if p_.get("res") == "Local"} for t in tys]
                child = None
                for i in (0, 1):
                    direct = [h for h in hs[i] if h in kids]
                    if direct and (hs[1 - i] & others):
                        child = kids[direct[0]]
                if child is None:
                    continue
                n += 1
                k += 1
                sp_locals = set()
                work = [c["args"][0]]
                seen = set()
                while work:
                    e = work.pop()
                    for p_ in nodes(e, "Path"):
                        if p_.get("res") == "Local" and p_["hid"] not in seen:
                            seen.add(p_["hid"])
                            sp_locals.add(p_["hid"])
                            if p_["hid"] in lets:
                                work.append(lets[p_["hid"]])
                ok = child in sp_locals
                arm = _enclosing_variant(body, lp)
                rep.ob(rule, "%s|%s|%s-against-%s#%d" % (fname, arm, bound[child], "+".join(sorted(bound[h] for h in others & (hs[0] | hs[1]))), k),
                       ok, ("the check of `%s` against its own expectation is located at `%s`" % (bound[child], bound[child])) if ok else
                       ("TypeChecker::%s checks each `%s` of %s against its own expectation but locates a mismatch at `%s`, not at "
                        "the child: for `f(\\n 1,\\n \"a\",\\n)` the error names the line where the call starts, not the line of the "
                        "offending argument" % (fname, bound[child], arm, pp(c["args"][0]))), line_of(c))
    rep.floor(rule, "children checked against a positional/named expectation", n, 2)


def _enclosing_variant(body, target):
    best = "?"
    for m in nodes(body, "Match"):
        for a in m["arms"]:
            if any(x is target for x in nodes(a["body"], "ForLoop")):
                from hir import pat_alternatives, pat_variant
                for alt in pat_alternatives(a["pat"]):
                    v = pat_variant(alt)
                    if v and best == "?":
                        best = last(v)
    return best


def second_definition_is_reported(F, rep, rule="DUP-ORDER"):
    """A duplicate is found when the *second* holder of a name is met: the loop registers each definition in a keyed table and
    reports the element at which the table already has the name.  For the reported element to be the later definition - the
    offending one, the first is only the help text - the loop has to meet the definitions in the order the source wrote them:
    the backward slice of what it iterates passes through no sort and no unordered collection."""
    import engines
    n = 0
    for fn in F.fns_in("sylt_compiler::name_resolution::"):
        body = fn_body(fn)
        lets = {}
        for st in nodes(body, "Let"):
            if st.get("init") is not None:
                for b in pat_bindings(st["pat"]):
                    lets.setdefault(b["hid"], []).append(st["init"])
        mut = {}
        for c in nodes(body, "MethodCall"):
            r = peel(c["recv"])
            if isinstance(r, dict) and r.get("k") == "Path" and r.get("res") == "Local":
                mut.setdefault(r["hid"], []).append(c)
        k_ = 0
        for lp in nodes(body, "ForLoop"):
            keyed = [c for c in nodes(lp["body"], "MethodCall") if c["m"] in ("entry", "insert", "contains_key", "contains") and
                     engines.strip_ty(c.get("recv_ty") or "").startswith(engines.UNORDERED_TYPES)]
            errs = [x for x in nodes(lp["body"], "Struct") if norm_path(x.get("path") or "").startswith("sylt_common::error::Error::")]
            if not keyed or not errs:
                continue
            n += 1
            k_ += 1
            bad = engines._order_slice(lp["iter"], lets, mut)
            rep.ob(rule, "%s|loop#%d" % (last(fn["_path"], 2), k_), not bad,
                   "the loop that finds a name defined twice meets the definitions in source order: the one it reports is the later" if not bad else
                   "the loop in %s that registers names and reports the one it finds taken does not run in source order (%s): of two "
                   "definitions of one name the *earlier* can be the one reported, with the offending later one demoted to the "
                   "`first definition is here` note" % (last(fn["_path"], 2), "; ".join(sorted(set(bad)))), line_of(lp))
    rep.floor(rule, "loops that register names and report collisions", n, 3)


def source_text_keeps_its_lines(F, rep, rule="LINE"):
    """Line numbers are counted on the text the tokenizer is given; they are the file's lines only if that text has a line break
    exactly where the file has one.  Whatever reads a source file hands the text on as it is, or rewrites it with replacements
    that keep the number of line feeds (`\r\n` -> `\n` does, `\r` -> `\n` turns every CRLF into two lines)."""
    fn = F.fn("sylt::read_file")
    rep.analysed(fn)
    bad = []
    n = 0
    for c in nodes(fn_body(fn), "MethodCall"):
        if c["m"] in ("replace", "replacen", "lines", "trim", "trim_end", "trim_start", "split", "chars", "to_lowercase", "to_uppercase", "retain", "truncate"):
            n += 1
            if c["m"] in ("replace", "replacen") and len(c["args"]) >= 2:
                a, b = peel(c["args"][0]), peel(c["args"][1])
                if a.get("k") == "Lit" and b.get("k") == "Lit":
                    if str(a.get("v")).count("\n") == str(b.get("v")).count("\n"):
                        continue
                    bad.append((c, "`.replace(%r, %r)` changes the number of line feeds" % (a.get("v"), b.get("v"))))
                    continue
            bad.append((c, "`.%s(..)` rewrites the text in a way the rule cannot follow" % c["m"]))
    rep.ob(rule, "read_file|text-keeps-its-line-feeds", not bad,
           "the source text is handed on with a line feed exactly where the file has one (%d rewriting calls)" % n if not bad else
           "sylt::read_file rewrites the source text before it is tokenised: %s - every error in a file with CRLF line endings is "
           "reported at about twice its line" % bad[0][1], line_of(bad[0][0]) if bad else fn["sp"])


def text_reaches_the_lexer_as_read(F, rep, rule="LINE"):
    """.. and between the reader and the lexer nothing is cut off either: every call of the tokenizer is handed a text variable as it is
    (a `trim_start()` on the way drops the blank lines a file starts with, and every line after them is reported too early), and the
    tokenizer gives the lexer its parameter (C17 reads the same obligations: the token stream is that of the *whole* file)."""
    T = "sylt_tokenizer::string_to_tokens"
    n = 0
    for fn in F.own_fns():
        if fn["_path"] == T:
            continue
        lets = {}
        for l in nodes(fn_body(fn), "Let"):
            for b in pat_bindings(l.get("pat")):
                lets[b["hid"]] = l
        for c in nodes(fn_body(fn), "Call"):
            if callee(c) != T or len(c["args"]) < 2:
                continue
            n += 1
            CUTS = ("trim", "trim_start", "trim_end", "strip_prefix", "strip_suffix", "trim_start_matches", "trim_end_matches", "trim_matches",
                    "replace", "replacen", "to_lowercase", "to_uppercase", "split_at", "split_once", "get", "get_unchecked", "lines", "chars",
                    "split", "skip", "truncate", "retain", "drain", "split_off")
            why = None
            todo, seen = [c["args"][1]], 0
            while todo and why is None and seen < 40:
                seen += 1
                a = todo.pop()
                for x in nodes(a):
                    if x.get("k") == "MethodCall" and x["m"] in CUTS:
                        why = "`%s`" % pp(x)[:40]
                        break
                    if x.get("k") == "Index" and "Range" in (x.get("callee") or "") + str(peel(x.get("i") or {}).get("ty") or "") + str(peel(x.get("i") or {}).get("k")) + str(peel(x.get("i") or {}).get("path") or ""):
                        why = "the slice `%s`" % pp(x)[:40]
                        break
                    if x.get("k") == "Path" and x.get("res") == "Local" and x.get("hid") in lets and lets[x["hid"]].get("init") is not None:
                        todo.append(lets[x["hid"]]["init"])
            rep.ob(rule, "%s|tokenizer-gets-the-text-as-read#%d" % (last(fn["_path"], 2), n), why is None,
                   "%s hands the tokenizer the text it was given" % last(fn["_path"], 2) if why is None else
                   "%s hands the tokenizer %s, not the text of the file: what is cut off before the first token has lines (and bytes) "
                   "of its own, so every position after it is reported too early" % (last(fn["_path"], 2), why), line_of(c))
    rep.floor(rule, "calls of the tokenizer outside the tests", n, 1)
    fn = F.fn(T)
    rep.analysed(fn)
    params = [b["name"] for p in fn["params"] for b in pat_bindings(p["pat"])]
    shadow = [l for l in nodes(fn_body(fn), "Let") if {b["name"] for b in pat_bindings(l.get("pat"))} & set(params)]
    rep.ob(rule, "string_to_tokens|lexer-gets-the-parameter", bool(params) and not shadow,
           "the tokenizer does not rebind its parameters (%s): the lexer, the byte-to-column table and the line counter all see the "
           "text that was passed" % ", ".join(params) if not shadow else
           "string_to_tokens rebinds its parameter (`%s`): the text the lexer sees is not the text of the file, so a token can go "
           "missing from the stream and positions after it shift" % ("let %s = %s" % (", ".join(b["name"] for b in pat_bindings(shadow[0].get("pat"))), pp(shadow[0].get("init"))))[:70] if shadow else "", line_of(shadow[0]) if shadow else fn["sp"])
