"""C15 — diagnostics name the file and line of the offending construct (DESIGN §4 C15)."""
from hir import (nodes, walk, fn_body, callee, last, line_of, peel, peel_clone, pp, norm_path, pat_bindings)
from flow import Flow
import positions

EXPLANATION = (
    "Decides: (LINE) line bookkeeping of the tokenizer - every token that can contain a newline advances the line counter "
    "(shared with C17), so spans after multi-line literals carry the right line; (FILE-SPAN) at every construction of "
    "Error::{SyntaxError, CompileError, TypeError, GitConflictError} in the parser and compiler, the `file` field is "
    "computed from the same span (span_file(&span)) or the same parser context (ctx.file / ctx.span()) as the `span` field, "
    "so file and line always belong together, also in imported modules; (SPAN-SOURCE) no error location is fabricated: "
    "Span::zero is used only for the two `no start function` errors and module-level placeholders, never as the location "
    "of a syntax error; the parser's current-span accessor falls back to a real token's span at end of input; "
    "(CONFLICT) conflict markers are reported at enumerate-index + 1 with the file given; (RENDER) the rendered location "
    "line is the span's line_start of the error's own file."
)
UNDECIDED = "that each error's span is the *most helpful* one (which child's span is chosen is a matter of taste); column exactness of rendered underlines."

MANIFEST = dict(
    text=EXPLANATION + " Not decided: " + UNDECIDED,
    technique="construction-site consistency rule and span-provenance rule over resolved HIR + regex-language analysis of token patterns",
)

ERR_VARIANTS = ("SyntaxError", "CompileError", "TypeError", "GitConflictError")
CRATES = ["sylt_parser", "sylt_compiler"]


def run(F, rep, tier):
    rep.explanation = EXPLANATION
    rep.undecided = UNDECIDED
    positions.line_rules(F, rep, "LINE")
    file_span(F, rep)
    span_source(F, rep)
    conflict(F, rep)
    render(F, rep)


def _norm(e):
    e = peel_clone(e)
    while isinstance(e, dict) and e.get("k") == "Unary" and e.get("op") == "Deref":
        e = peel_clone(e["e"])
    return e


def file_span(F, rep):
    n = 0
    per_fn = {}
    for fn in F.own_fns(CRATES):
        body = fn_body(fn)
        fl = None
        for s in nodes(body, "Struct"):
            p = norm_path(s["path"])
            if not (p.startswith("sylt_common::error::Error::") and last(p) in ERR_VARIANTS):
                continue
            if fl is None:
                fl = Flow(fn, body)
                rep.analysed(fn)
            n += 1
            f = {x["name"]: x["e"] for x in s["fields"]}
            fe, se = _norm(f.get("file")), _norm(f.get("span"))
            verdict, why = consistent(fl, fe, se)
            key = "%s|%s" % (last(fn["_path"], 2), last(p))
            per_fn.setdefault(key, []).append((verdict, why, line_of(s)))
    for key, lst in sorted(per_fn.items()):
        bad = [x for x in lst if not x[0]]
        rep.ob("FILE-SPAN", key, not bad,
               "%d construction(s) of %s: %s" % (len(lst), key.split("|")[1], "file and span come from the same source (%s)" % lst[0][1]
                                                  if not bad else "file and span do NOT come from the same source: %s" % bad[0][1]),
               (bad[0][2] if bad else lst[0][2]), sites=len(lst))
    rep.floor("FILE-SPAN", "error constructions", n, 60)


def consistent(fl, fe, se):
    """file expr vs span expr"""
    if fe is None or se is None:
        return False, "missing field"
    # file: X.span_file(&S)   span: S
    if fe.get("k") == "MethodCall" and fe["m"] == "span_file":
        a = _norm(fe["args"][0])
        if pp(a) == pp(se):
            return True, "span_file(&span) / span"
        # span: span.clone() etc already normalised; allow `$span` evaluated twice (same text)
        return False, "file from span_file(%s) but span is %s" % (pp(a), pp(se))
    if fe.get("k") == "MethodCall" and fe["m"] == "file_from_namespace":
        a = _norm(fe["args"][0])
        if a.get("k") == "Field" and a["name"] == "file_id" and pp(_norm(a["e"])) == pp(se):
            return True, "file_from_namespace(span.file_id) / span"
        return False, "file_from_namespace(%s) vs span %s" % (pp(a), pp(se))
    # file: ctx.file   span: ctx.span()
    if fe.get("k") == "Field" and fe["name"] == "file":
        base = pp(_norm(fe["e"]))
        if se.get("k") == "MethodCall" and se["m"] == "span" and pp(_norm(se["recv"])) == base:
            return True, "ctx.file / ctx.span()"
        # span of a token previously read from the same ctx: variant.span with ctx.file (enum duplicate variant)
        if se.get("k") == "Path" and se.get("res") == "Local":
            src = fl.trace(se)
            t = pp(src)
            return (".span" in t or "span" in se.get("name", "")), "ctx.file / span of a node parsed from the same context (%s)" % t[:40]
        return False, "ctx.file with span %s" % pp(se)
    # both bound from the same pattern (detail_if_error!: copies of an existing error's fields) or both parameters
    if fe.get("k") == "Path" and se.get("k") == "Path":
        of, os_ = fl.origin.get(fe.get("hid")), fl.origin.get(se.get("hid"))
        if of and os_:
            if of["kind"] == os_["kind"] == "arm" and of["node"] is os_["node"]:
                return True, "both copied from one existing error"
            if of["kind"] == os_["kind"] == "param":
                return True, "both are parameters of the constructor function"
            if of["kind"] == "let" and os_["kind"] == "let":
                return True, "locals (%s / %s)" % (pp(of["src"])[:30], pp(os_["src"])[:30])
    if se.get("k") == "Struct" and fe.get("k") == "Path":
        return True, "span literal built next to the file parameter"
    return False, "file %s / span %s" % (pp(fe)[:40], pp(se)[:40])


ZERO_ALLOWED = {
    "sylt_compiler::name_resolution::resolve": "the `no start function` error has no location in the source",
    "sylt_compiler::typechecker::TypeChecker::solve": "the `no start function` error has no location in the source",
    "sylt_parser::module": "Module.span is a placeholder for the whole file, not an error location",
}


def span_source(F, rep):
    n = 0
    for fn in F.own_fns(CRATES + ["sylt_common", "sylt"]):
        if fn["_path"].startswith("sylt::formatter"):
            continue
        for c in nodes(fn_body(fn), "Call"):
            if callee(c) == "sylt_tokenizer::Span::zero":
                n += 1
                why = ZERO_ALLOWED.get(fn["_path"])
                key = last(fn["_path"], 2)
                if why is None and fn["_path"] == "sylt_parser::Context::peek" and _only_fallback_of_last(fn, c):
                    why = "only the fallback of `self.spans.last()`: used when the file has no token at all"
                if why:
                    rep.ob("SPAN-SOURCE", "Span::zero|" + key, True, "Span::zero in %s: %s" % (key, why), line_of(c))
                else:
                    rep.ob("SPAN-SOURCE", "Span::zero|" + key, False,
                           "%s fabricates a location with Span::zero (line 0): errors raised through it are reported on line 0 "
                           "instead of the line of the offending construct (e.g. every syntax error at the end of a truncated file)" % key,
                           line_of(c))
    rep.floor("SPAN-SOURCE", "Span::zero call sites", n, 3)
    # errors raised by the parser macros use the current context's span
    sp = F.fn("sylt_parser::Context::span")
    t = pp(fn_body(sp))
    rep.ob("SPAN-SOURCE", "Context::span", "self.peek().1" in t, "the parser's error location is the span of the current token (peek().1)", sp["sp"])
    pk = F.fn("sylt_parser::Context::peek")
    rep.analysed(pk)


def _only_fallback_of_last(fn, zero_call):
    """the Span::zero call is (inside) the argument of unwrap_or[_else] applied to a chain on self.spans.last()"""
    for n, parents in walk(fn_body(fn)):
        if n is zero_call:
            for p in reversed(parents):
                if p.get("k") == "MethodCall" and p["m"] in ("unwrap_or", "unwrap_or_else"):
                    chain = pp(p["recv"])
                    return "self.spans.last()" in chain
    return False


def conflict(F, rep):
    fn = F.fn("sylt_parser::find_conflict_markers")
    rep.analysed(fn)
    body = fn_body(fn)
    fl = Flow(fn, body)
    ok_line = ok_file = False
    for s in nodes(body, "Struct"):
        if s["path"].endswith("Error::GitConflictError"):
            f = {x["name"]: x["e"] for x in s["fields"]}
            ok_file = pp(_norm(f["file"])) == "file"
            span = peel(f["span"])
            sf = {x["name"]: pp(peel(x["e"])) for x in span.get("fields", [])}
            ok_line = sf.get("line_start") == "(i Add 1)" and sf.get("line_end") == "(i Add 1)" and sf.get("file_id") == "file_id"
    loops = [l for l in nodes(body, "ForLoop") if "lines().enumerate()" in pp(l["iter"])]
    rep.ob("CONFLICT", "line=index+1", ok_line and bool(loops), "a conflict marker on the i-th line (0-based enumerate over source.lines()) is reported on line i+1", fn["sp"])
    rep.ob("CONFLICT", "file", ok_file, "with the file it was found in", fn["sp"])
    # tree() calls it with the file being read and that file's id
    tr = F.fn("sylt_parser::tree")
    ok = False
    for c in nodes(fn_body(tr), "Call"):
        if callee(c) == "sylt_parser::find_conflict_markers":
            a = [pp(peel(x)) for x in c["args"]]
            ok = a == ["include", "file_id", "source"]
    rep.ob("CONFLICT", "tree-passes-current-file", ok, "tree() checks each file with its own path, id and text", tr["sp"])


def render(F, rep):
    fn = F.fn("sylt_common::error::[Error as Display]::fmt")
    rep.analysed(fn)
    n = 0
    bad = []
    for c in nodes(fn_body(fn), "Call"):
        if callee(c) == "sylt_common::error::file_line_display":
            n += 1
            a = [pp(peel(x)) for x in c["args"]]
            if not (a[0] == "file" and a[1].endswith("span.line_start")):
                bad.append(a)
    rep.ob("RENDER", "file_line_display", n >= 3 and not bad,
           "%d rendered error headers print the error's own file and span.line_start (%s)" % (n, bad or "ok"), fn["sp"], sites=n)
