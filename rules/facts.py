"""Fact building: snapshot /repo's working tree, run the syltfacts driver under cargo check,
cache the JSON fact files keyed by the content hash of the analysed sources."""
import fcntl
import hashlib
import json
import os
import shutil
import subprocess
import sys
import tempfile
import time

from hir import norm_path

VERIF = os.path.dirname(os.path.dirname(os.path.abspath(__file__)))
REPO = os.environ.get("VERIF_REPO", "/repo")
BUILD = os.path.join(VERIF, "build")
ENGINE_SRC = os.path.join(VERIF, "engines", "syltfacts")
ENGINE_BIN = os.path.join(BUILD, "syltfacts-target", "release", "syltfacts")
CACHE = os.environ.get("VERIF_CACHE") or os.path.join(VERIF, ".cache")

WORKSPACE_CRATES = ["sylt", "sylt-bin", "sylt_common", "sylt_compiler", "sylt_parser", "sylt_tokenizer"]
SRC_DIRS = ["sylt", "sylt-common", "sylt-compiler", "sylt-macro", "sylt-parser", "sylt-tokenizer", "std"]
SRC_EXT = (".rs", ".toml", ".lua", ".sy", ".lock")


class InfraError(Exception):
    pass


def _env_offline():
    env = dict(os.environ)
    env["CARGO_NET_OFFLINE"] = "true"
    return env


def build_engine():
    """build the driver if it is missing or older than its sources (offline, files on disk only)"""
    newest = 0
    for root, _, files in os.walk(ENGINE_SRC):
        for f in files:
            newest = max(newest, os.path.getmtime(os.path.join(root, f)))
    if os.path.exists(ENGINE_BIN) and os.path.getmtime(ENGINE_BIN) >= newest:
        return
    os.makedirs(BUILD, exist_ok=True)
    env = _env_offline()
    env["CARGO_TARGET_DIR"] = os.path.join(BUILD, "syltfacts-target")
    r = subprocess.run(
        ["cargo", "build", "--release", "--offline"], cwd=ENGINE_SRC, env=env,
        stdout=subprocess.PIPE, stderr=subprocess.STDOUT, text=True,
    )
    if r.returncode != 0 or not os.path.exists(ENGINE_BIN):
        raise InfraError("cannot build syltfacts driver:\n" + r.stdout[-4000:])


def source_files(repo=REPO):
    out = []
    for top in ["Cargo.toml", "Cargo.lock"]:
        p = os.path.join(repo, top)
        if os.path.exists(p):
            out.append(p)
    for d in SRC_DIRS:
        base = os.path.join(repo, d)
        for root, dirs, files in os.walk(base):
            dirs[:] = sorted(x for x in dirs if x not in ("target", ".git"))
            for f in sorted(files):
                if f.endswith(SRC_EXT):
                    out.append(os.path.join(root, f))
    g = os.path.join(repo, "docs", "guide.adoc")
    if os.path.exists(g):
        out.append(g)
    return out


def tree_hash(features=""):
    h = hashlib.sha256()
    for p in source_files():
        h.update(os.path.relpath(p, REPO).encode())
        h.update(b"\0")
        with open(p, "rb") as fh:
            h.update(hashlib.sha256(fh.read()).digest())
    st = os.stat(ENGINE_BIN)
    h.update(("%d:%d" % (st.st_size, int(st.st_mtime))).encode())
    h.update(features.encode())
    return h.hexdigest()[:24]


def _sysroot():
    r = subprocess.run(["rustc", "+nightly", "--print", "sysroot"], stdout=subprocess.PIPE, text=True)
    return r.stdout.strip()


def _run_driver(src, out_dir, features=""):
    tgt = tempfile.mkdtemp(prefix="sylt-verif-target-", dir=os.environ.get("VERIF_TMP", "/var/tmp"))
    try:
        env = _env_offline()
        env["LD_LIBRARY_PATH"] = os.path.join(_sysroot(), "lib") + ":" + env.get("LD_LIBRARY_PATH", "")
        env["RUSTFLAGS"] = "-Zmir-opt-level=0 -Awarnings"
        env["RUSTC_WORKSPACE_WRAPPER"] = ENGINE_BIN
        env["SYLTFACTS_OUT"] = out_dir
        env["CARGO_TARGET_DIR"] = tgt
        cmd = ["cargo", "+nightly", "check", "--offline", "--workspace"]
        if features:
            cmd += ["--features", features]
        r = subprocess.run(cmd, cwd=src, env=env, stdout=subprocess.PIPE, stderr=subprocess.STDOUT, text=True)
        if r.returncode != 0:
            raise InfraError("cargo check of the snapshot failed (the tree does not compile?):\n" + r.stdout[-6000:])
    finally:
        shutil.rmtree(tgt, ignore_errors=True)


def build_facts(features=""):
    """returns the directory holding <crate>.json fact files for /repo's current working tree"""
    build_engine()
    key = tree_hash(features)
    d = os.path.join(CACHE, key)
    ok = os.path.join(d, "OK")
    if os.path.exists(ok) and not os.environ.get("VERIF_NO_CACHE"):
        return d
    os.makedirs(CACHE, exist_ok=True)
    lock = open(os.path.join(CACHE, "lock"), "w")
    fcntl.flock(lock, fcntl.LOCK_EX)
    try:
        if os.path.exists(ok) and not os.environ.get("VERIF_NO_CACHE"):
            return d
        shutil.rmtree(d, ignore_errors=True)
        os.makedirs(d)
        snap = tempfile.mkdtemp(prefix="sylt-verif-src-", dir=os.environ.get("VERIF_TMP", "/var/tmp"))
        try:
            r = subprocess.run(
                ["rsync", "-a", "--exclude", "/target", "--exclude", ".git", REPO + "/", snap + "/"],
                stdout=subprocess.PIPE, stderr=subprocess.STDOUT, text=True,
            )
            if r.returncode != 0:
                raise InfraError("rsync failed: " + r.stdout)
            t0 = time.time()
            _run_driver(snap, d, features)
            for c in WORKSPACE_CRATES:
                if not os.path.exists(os.path.join(d, c + ".json")):
                    raise InfraError("driver produced no fact file for crate %s (freshness cache? wrapper skipped?)" % c)
            with open(ok, "w") as fh:
                fh.write("%.1f\n" % (time.time() - t0))
        finally:
            shutil.rmtree(snap, ignore_errors=True)
        _prune()
        return d
    finally:
        fcntl.flock(lock, fcntl.LOCK_UN)
        lock.close()


def _prune(keep=4):
    try:
        ds = [os.path.join(CACHE, x) for x in os.listdir(CACHE) if os.path.isdir(os.path.join(CACHE, x))]
        ds.sort(key=os.path.getmtime, reverse=True)
        for old in ds[keep:]:
            shutil.rmtree(old, ignore_errors=True)
    except OSError:
        pass


class Facts:
    """loaded fact files + lookup helpers; all lookups fail closed (raise AnchorMissing)"""

    def __init__(self, d):
        self.dir = d
        self.crates = {}
        for c in WORKSPACE_CRATES:
            with open(os.path.join(d, c + ".json")) as fh:
                self.crates[c] = json.load(fh)
        self.fns = {}
        self.adts = {}
        for c, data in self.crates.items():
            for fn in data["fns"]:
                p = norm_path(fn["def"])
                if c == "sylt-bin":
                    p = "sylt-bin::" + p.split("::", 1)[1]
                fn["_path"] = p
                fn["_crate"] = c
                self.fns.setdefault(p, fn)
            for adt in data["adts"]:
                self.adts[norm_path(adt["path"])] = adt
        self.repo = REPO
        if not os.environ.get("VERIF_NO_INLINE"):
            self._inline_new_helpers()

    def _inline_new_helpers(self):
        """A behaviour-preserving refactoring often moves a few lines of a function the rules know into a new private
        helper.  The rules are written against the functions that exist today (rules/known_functions.txt, names only);
        every *other* non-recursive function of the workspace is treated as such a helper: each call of it is replaced by
        a block `{ let <param> = <arg>; ..; <body> }` (hids renamed per call site) in its callers, and the helper itself
        is dropped from the function table, so that the rules see the code where it used to be."""
        import copy
        from hir import call_args
        kf = os.path.join(os.path.dirname(os.path.abspath(__file__)), "known_functions.txt")
        if not os.path.exists(kf):
            return
        known = set(open(kf).read().split())
        helpers = {p: fn for p, fn in self.fns.items()
                   if p not in known and fn.get("body") is not None and "{closure" not in p and fn["_crate"] != "sylt-bin"
                   and "::test" not in p and "[" not in p}
        if not helpers:
            return

        def callees(n, out):
            if isinstance(n, dict):
                if n.get("k") in ("Call", "MethodCall") and n.get("callee"):
                    out.add(norm_path(n["callee"]))
                for v in n.values():
                    callees(v, out)
            elif isinstance(n, list):
                for v in n:
                    callees(v, out)
            return out
        graph = {p: callees(fn["body"], set()) & set(helpers) for p, fn in helpers.items()}
        recursive = set()
        for p in helpers:
            seen, todo = set(), list(graph[p])
            while todo:
                q = todo.pop()
                if q == p:
                    recursive.add(p)
                    break
                if q not in seen:
                    seen.add(q)
                    todo += list(graph.get(q, ()))
        helpers = {p: fn for p, fn in helpers.items() if p not in recursive}
        # a helper that is also handed around as a value (a callback) has to stay a function of its own
        as_value = set()

        def value_refs(n, in_call_f=False):
            if isinstance(n, dict):
                if n.get("k") == "Path" and n.get("res") == "Def" and not in_call_f:
                    q = norm_path(n.get("path"))
                    if q in helpers:
                        as_value.add(q)
                for k_, v in n.items():
                    value_refs(v, in_call_f=(k_ == "f" and n.get("k") == "Call"))
            elif isinstance(n, list):
                for v in n:
                    value_refs(v)
        for fn_ in self.fns.values():
            if fn_.get("body") is not None:
                value_refs(fn_["body"])
        counter = [0]

        def rename(n, suffix):
            if isinstance(n, dict):
                if isinstance(n.get("hid"), str):
                    n["hid"] = n["hid"] + suffix
                for v in n.values():
                    rename(v, suffix)
            elif isinstance(n, list):
                for v in n:
                    rename(v, suffix)

        def inline(n, depth):
            if isinstance(n, list):
                return [inline(x, depth) for x in n]
            if not isinstance(n, dict):
                return n
            n = {k: inline(v, depth) for k, v in n.items()}
            if n.get("k") in ("Call", "MethodCall") and n.get("callee") and depth < 4:
                hp = norm_path(n["callee"])
                h = helpers.get(hp)
                if h is not None:
                    args = call_args(n)
                    if len(args) == len(h.get("params", [])):
                        counter[0] += 1
                        hc = copy.deepcopy({"params": h["params"], "body": h["body"]})
                        rename(hc, "#%d" % counter[0])
                        stmts = [{"k": "Let", "pat": prm["pat"], "init": a, "sp": n.get("sp")} for prm, a in zip(hc["params"], args)]
                        body = inline(hc["body"], depth + 1)
                        return {"k": "Block", "stmts": stmts, "e": body, "sp": n.get("sp"), "ty": n.get("ty"), "inlined": hp}
            return n
        for p, fn in list(self.fns.items()):
            if p in helpers or fn.get("body") is None:
                continue
            fn["body"] = inline(fn["body"], 0)
        for p in helpers:
            if p in as_value:
                continue
            del self.fns[p]
            for c, data in self.crates.items():
                data["fns"] = [f for f in data["fns"] if f.get("_path") != p]
        self.inlined_helpers = sorted(helpers)

    # -- functions
    def fn(self, path):
        """exact normalised def path, e.g. sylt_compiler::typechecker::TypeChecker::expression"""
        f = self.fns.get(path)
        if f is None:
            raise AnchorMissing("function " + path)
        if f.get("body") is None:
            raise AnchorMissing("function %s has no analysable body" % path)
        return f

    def fn_opt(self, path):
        f = self.fns.get(path)
        return f if f and f.get("body") is not None else None

    def fns_in(self, prefix):
        return [f for p, f in sorted(self.fns.items()) if p.startswith(prefix) and f.get("body") is not None]

    def own_fns(self, crates=None):
        for p, f in sorted(self.fns.items()):
            if f.get("body") is None:
                continue
            if crates is not None and f["_crate"] not in crates:
                continue
            yield f

    # -- ADTs
    def adt(self, path):
        a = self.adts.get(path)
        if a is None:
            raise AnchorMissing("type " + path)
        return a

    def variants(self, path):
        return [v["name"] for v in self.adt(path)["variants"]]

    def variant_fields(self, path, variant):
        for v in self.adt(path)["variants"]:
            if v["name"] == variant:
                return v["fields"]
        raise AnchorMissing("variant %s::%s" % (path, variant))

    # -- plain files of the repository (non-Rust sources are read directly)
    def read(self, rel):
        p = os.path.join(self.repo, rel)
        if not os.path.exists(p):
            raise AnchorMissing("file " + rel)
        with open(p, encoding="utf-8") as fh:
            return fh.read()


class AnchorMissing(Exception):
    pass


def load(features=""):
    return Facts(build_facts(features))


if __name__ == "__main__":
    d = build_facts(sys.argv[1] if len(sys.argv) > 1 else "")
    print(d)
