"""Type-checker rule engines: DISCHARGE (§3.3), CTX (§3.4), ACCEPT (§3.5), unify facts (Appendix A.8)."""
import re

from hir import (nodes, walk, fn_body, callee, call_args, last, line_of, peel, peel_clone, norm_path, pat_alternatives,
                 pat_variant, pat_strip, pat_fields, local_hid, local_name, pat_bindings, pat_is_catchall, pp, ppat, children, in_macro)
from engines import matches_on, arm_alternatives, ty_is
from flow import Flow, uncond_nodes

TC = "sylt_compiler::typechecker::TypeChecker::"
TCM = "sylt_compiler::typechecker::"
NR = "sylt_compiler::name_resolution::"
TY = "sylt_compiler::ty::Type"


# --------------------------------------------------------------------------- small helpers

def is_err_value(e):
    """Err(..) value (also through err_type_error!, .help(..) chains and `return`)"""
    e = peel(e)
    if not isinstance(e, dict):
        return False
    k = e.get("k")
    if k == "Call" and (callee(e) or "").endswith("core::result::Result::Err"):
        return True
    if k == "MethodCall" and e["m"] in ("help", "help_no_span"):
        return is_err_value(e["recv"])
    if k == "Ret":
        return is_err_value(e.get("e"))
    if k == "Block":
        if e.get("e") is not None:
            return is_err_value(e["e"])
        if e["stmts"]:
            s = e["stmts"][-1]
            # `return Err(..);` leaves with the error; a bare `Err(..);` statement is a *dropped* error
            if s.get("k") in ("Semi", "ExprStmt") and peel(s["e"]).get("k") == "Ret":
                return is_err_value(s["e"])
    return False


def err_kind(e):
    """name of the TypeError variant built inside an Err value, if any"""
    for n in nodes(e):
        if n.get("k") in ("Call", "Struct", "Path"):
            p = norm_path(n.get("callee") or n.get("path") or "")
            if "::TypeError::" in p:
                return p.split("::")[-1]
    return None


def is_ok_unit(e):
    e = peel(e)
    return isinstance(e, dict) and e.get("k") == "Call" and (callee(e) or "").endswith("core::result::Result::Ok")


def constraint_name(e):
    """Constraint variant named by an expression: Constraint::Add(b) / Constraint::Neg / $con(b)"""
    e = peel(e)
    if not isinstance(e, dict):
        return None
    p = None
    if e.get("k") == "Call":
        p = callee(e)
    elif e.get("k") == "Path":
        p = norm_path(e.get("path"))
    if p and "::Constraint::" in p:
        return p.split("::")[-1]
    return None


# --------------------------------------------------------------------------- DISCHARGE

DISCHARGERS = {TC + "check_constraints": [2], TC + "unify": [2, 3]}


_CUR_FLOW = [None]


def _fresh_node(e):
    """is this TyID expression a node created in this function (push_type / resolve_type / copy), hence in a class of
    its own when it meets another node for the first time"""
    fl = _CUR_FLOW[0]
    if fl is None:
        return False
    d = describe(fl, e)
    return d.startswith(("fresh:", "declared:", "copy(", "fnsig"))


def _is_discharge(n, hid):
    c = callee(n)
    if c not in DISCHARGERS:
        return False
    args = call_args(n)  # receiver first for method calls
    idxs = DISCHARGERS[c]
    for i in idxs:
        a = peel(args[i + 1]) if n.get("k") == "MethodCall" else peel(args[i])
        if isinstance(a, dict) and a.get("k") == "Path" and a.get("res") == "Local" and a["hid"] == hid:
            if c == TC + "unify":
                # sub_unify returns early - without looking at constraints - when both nodes are already in one class
                # (`x -= x`, `y := x; x *= y`): unify only enforces the constraints of `hid` when the two nodes are
                # certainly distinct, i.e. when one of them was created here
                others = [peel(args[j + 1]) if n.get("k") == "MethodCall" else peel(args[j]) for j in idxs if j != i]
                if not (_fresh_node(a) or any(_fresh_node(o) for o in others)):
                    continue
            return True
    return False


def discharges(n, hid):
    """does evaluating n to completion (without error exit) necessarily run a check/unify of local hid"""
    if n is None or not isinstance(n, dict):
        return False
    k = n.get("k")
    if k in ("Call", "MethodCall") and _is_discharge(n, hid):
        return True
    if k == "If":
        if discharges(n["c"], hid):
            return True
        return n.get("e") is not None and discharges(n["t"], hid) and discharges(n["e"], hid)
    if k == "Match":
        if discharges(n["scrut"], hid):
            return True
        arms = [a for a in n["arms"] if not is_err_value(a["body"])]
        return bool(arms) and all(discharges(a["body"], hid) for a in arms)
    if k in ("Closure", "ForLoop", "While", "Loop"):
        if k == "ForLoop":
            return discharges(n["iter"], hid)
        return False
    if k == "Binary" and n.get("op") in ("And", "Or"):
        return discharges(n["l"], hid)
    if k == "Block":
        for s in n["stmts"]:
            if s.get("k") == "Let" and discharges(s.get("init"), hid):
                return True
            if s.get("k") in ("Semi", "ExprStmt") and discharges(s["e"], hid):
                return True
        return discharges(n.get("e"), hid)
    for c in children(n):
        if isinstance(c, dict) and "k" in c and discharges(c, hid):
            return True
    return False


def discharge_sites(F, rep, rule, fn, exempt=None, only=None):
    """every add_constraint(v, ..) in fn is followed on every success path by a check/unify of v"""
    exempt = exempt or {}
    body = fn_body(fn)
    fname = last(fn["_path"])
    count = 0
    seen_keys = {}
    _CUR_FLOW[0] = Flow(fn, body)
    for n, parents in walk(body):
        if n.get("k") != "MethodCall" or callee(n) != TC + "add_constraint":
            continue
        cname = constraint_name(n["args"][2]) or "?"
        if only is not None and cname not in only:
            continue
        count += 1
        v = peel(n["args"][0])
        base = "%s|Constraint::%s" % (fname, cname)
        # distinguish several sites with the same constraint in one fn by the arm they are in
        ctxname = _arm_context(parents)
        key = base + ("|" + ctxname if ctxname else "")
        seen_keys[key] = seen_keys.get(key, 0) + 1
        if seen_keys[key] > 1:
            key += "#%d" % seen_keys[key]
        if (fname, cname) in exempt or (fname, cname, ctxname) in exempt:
            rep.ob(rule, key, True, "exempt: " + (exempt.get((fname, cname, ctxname)) or exempt.get((fname, cname))), line_of(n))
            continue
        if not (v.get("k") == "Path" and v.get("res") == "Local"):
            rep.ob(rule, key, False, "constrained node is not a local: cannot follow it", line_of(n))
            continue
        hid = v["hid"]
        hids = [hid]
        # a binary-operator constraint `Con(b)` on a is the same check as its partner `Con'(a)` on b (the handlers are
        # called with the two nodes in the same roles): running either one discharges both
        if cname in PAIRED:
            con = peel(n["args"][2])
            other = local_hid(con["args"][0]) if con.get("k") == "Call" and con.get("args") else None
            if other is not None and other != hid:
                hids.append(other)
        ok = False
        # walk outwards through the enclosing blocks
        child = n
        for par in reversed(parents):
            pk = par.get("k")
            if pk == "Block":
                items = [s.get("init") if s.get("k") == "Let" else s.get("e") for s in par["stmts"]] + [par.get("e")]
                idx = None
                for i, it in enumerate(items):
                    if it is not None and any(x is n for x in nodes(it)):
                        idx = i
                        break
                if idx is not None:
                    for it in items[idx + 1:]:
                        if it is not None and any(discharges(it, h) for h in hids):
                            ok = True
                            break
                if ok:
                    break
            if pk == "Closure":
                break
            child = par
        rep.ob(rule, key, ok,
               ("Constraint::%s added to `%s` in %s is checked on every success path" if ok else
                "Constraint::%s is added to `%s` in %s but no check_constraints/unify of that node follows on the success "
                "path: the constraint is never enforced unless the node happens to be unified later")
               % (cname, v["name"], fname), line_of(n))
    return count


def _arm_context(parents):
    """name of the innermost enclosing match arm variant over Expression/Statement/BinOp/UniOp (for keys)"""
    names = []
    for i, p in enumerate(parents):
        if p.get("k") is None and "pat" in p and "body" in p:
            for alt in pat_alternatives(p["pat"]):
                v = pat_variant(alt)
                if v and any(s in v for s in ("::Expression::", "::Statement::", "::BinOp::", "::UniOp::")):
                    names.append(last(v))
                    break
    return "/".join(names[-2:])


# --------------------------------------------------------------------------- CTX

I, T_, F_, TOPV = "inherit", "true", "false", "top"


def _join(a, b):
    return a if a == b else TOPV if TOPV in (a, b) else "|".join(sorted(set(a.split("|")) | set(b.split("|"))))


class Ctx:
    """abstract value of a TypeCtx expression: dict field -> inherit/true/false/top (joins as a|b)"""

    def __init__(self, F):
        self.F = F
        self.adt = F.adt(TCM + "TypeCtx")
        self.fields = [f["name"] for f in self.adt["variants"][0]["fields"]]
        self.method_summary = {}
        for fn in F.fns_in(TCM + "TypeCtx::"):
            self.method_summary[fn["_path"]] = fn

    def inherit(self):
        return {f: I for f in self.fields}

    def eval(self, e, fl, env=None, depth=0):
        """env: hid -> abstract value for parameters"""
        e = peel(e)
        env = env or {}
        if depth > 20 or not isinstance(e, dict):
            return {f: TOPV for f in self.fields}
        k = e.get("k")
        if k == "Path" and e.get("res") == "Local":
            if e["hid"] in env:
                return dict(env[e["hid"]])
            o = fl.origin.get(e["hid"])
            if o is None:
                return {f: TOPV for f in self.fields}
            if o["kind"] == "param":
                return self.inherit()
            if o["kind"] == "let" and o["path"] == () and o["src"] is not None:
                return self.eval(o["src"], fl, env, depth + 1)
            return {f: TOPV for f in self.fields}
        if k == "If":
            a = self.eval(n_tail(e["t"]), fl, env, depth + 1)
            b = self.eval(n_tail(e["e"]), fl, env, depth + 1) if e.get("e") else {f: TOPV for f in self.fields}
            return {f: _join(a[f], b[f]) for f in self.fields}
        if k == "Block":
            return self.eval(n_tail(e), fl, env, depth + 1)
        if k == "Struct" and ty_is(e.get("ty", ""), TCM + "TypeCtx"):
            base = self.eval(e["base"], fl, env, depth + 1) if e.get("base") else {f: TOPV for f in self.fields}
            out = dict(base)
            for fe in e["fields"]:
                v = peel(fe["e"])
                if isinstance(v, dict) and v.get("k") == "Field" and v["name"] in self.fields and ty_is(v.get("base_ty", ""), TCM + "TypeCtx"):
                    # `inside_pure: self.inside_pure`: the field of another context value
                    out[fe["name"]] = self.eval(v["e"], fl, env, depth + 1)[v["name"]]
                else:
                    out[fe["name"]] = self._bool(fe["e"])
            return out
        if k in ("MethodCall", "Call"):
            c = callee(e)
            if c in self.method_summary:
                fn = self.method_summary[c]
                fl2 = Flow(fn, fn_body(fn))
                env2 = {}
                args = call_args(e)
                for i, prm in enumerate(fn["params"]):
                    for b in pat_bindings(prm["pat"]):
                        if i < len(args) and ty_is(prm["ty"], TCM + "TypeCtx"):
                            env2[b["hid"]] = self.eval(args[i], fl, env, depth + 1)
                return self.eval(n_tail(fn_body(fn)), fl2, env2, depth + 1)
        return {f: TOPV for f in self.fields}

    @staticmethod
    def _bool(e):
        e = peel(e)
        if isinstance(e, dict) and e.get("k") == "Lit" and e.get("lk") == "bool":
            return T_ if e["v"] else F_
        return TOPV


def n_tail(b):
    b = peel(b)
    while isinstance(b, dict) and b.get("k") == "Block":
        if b.get("e") is None:
            return b
        b = peel(b["e"])
    return b


def ctx_arg_index(F, callee_path):
    """index (in call_args order) of the TypeCtx parameter of a function, or None"""
    fn = F.fns.get(callee_path)
    if not fn:
        return None
    for i, prm in enumerate(fn["params"]):
        if ty_is(prm["ty"], TCM + "TypeCtx"):
            return i
    return None


# --------------------------------------------------------------------------- ACCEPT

def accept_table(F, fn, type_adt=TY):
    """For a function whose body is `match (find_type(a), find_type(b)) { (P, Q) => .. }` (or a single
    scrutinee) return a list of rows: dict(pats=(..), guard=bool, verdict='ok'|'err'|'recurse'|'other', err=.., arm=..)"""
    body = fn_body(fn)
    rows = []
    ms = [m for m in nodes(body, "Match") if _scrut_is_types(m, type_adt)]
    if not ms:
        return None
    m = ms[0]
    arity = m.get("scrut_ty", "").count("sylt_compiler::ty::Type") or 1
    for arm in m["arms"]:
        for alt in pat_alternatives(arm["pat"]):
            pats = _tuple_pats(alt, arity)
            verdict, err = _verdict(arm["body"], fn["_path"])
            rows.append(dict(pats=pats, guard=arm.get("guard") is not None, verdict=verdict, err=err, arm=arm))
    return rows


def _scrut_is_types(m, type_adt):
    t = m.get("scrut_ty", "")
    inner = t.strip()
    if inner.startswith("(") and inner.endswith(")"):
        parts = [x.strip() for x in inner[1:-1].split(",") if x.strip()]
        return bool(parts) and all(ty_is(p, type_adt) for p in parts)
    return ty_is(inner, type_adt)


def _tuple_pats(p, arity=1):
    """a row pattern as a tuple of sets of type-variant names ('_' = any)"""
    p = pat_strip(p)
    if p.get("k") == "Tuple":
        return tuple(_variant_set(x) for x in p["pats"])
    if arity > 1 and pat_is_catchall(p):
        return tuple(frozenset(["_"]) for _ in range(arity))
    return (_variant_set(p),)


def _variant_set(p):
    out = set()
    for alt in pat_alternatives(p):
        v = pat_variant(alt)
        if v:
            out.add(last(v))
        elif pat_is_catchall(alt):
            out.add("_")
        else:
            out.add("?")
    return frozenset(out)


def _verdict(body, self_path):
    b = peel(body)
    if is_err_value(b):
        return "err", err_kind(b)
    if is_ok_unit(b) and not any(True for _ in nodes(b, "MethodCall")):
        return "ok", None
    # recursion element-wise / further work
    calls = [callee(c) for c in nodes(b) if c.get("k") in ("Call", "MethodCall")]
    if self_path in calls:
        return "recurse", None
    if TC + "unify" in calls or TC + "sub_unify" in calls:
        return "unify", None
    tail = n_tail(b)
    if is_ok_unit(tail):
        return "ok", None
    return "other", None


# --------------------------------------------------------------------------- unify facts

def describe(fl, e, depth=0):
    """symbolic description of a TyID-valued expression inside a type-checker arm"""
    e = peel_clone(e)
    if depth > 12 or not isinstance(e, dict):
        return "?"
    k = e.get("k")
    if k == "Try":
        return describe(fl, e["e"], depth + 1)
    if k == "Unary" and e.get("op") == "Deref":
        return describe(fl, e["e"], depth + 1)
    if k == "MethodCall":
        c = callee(e)
        if c == TC + "push_type":
            a = peel(e["args"][0])
            p = callee(a) if a.get("k") == "Call" else norm_path(a.get("path")) if a.get("k") == "Path" else None
            return "fresh:" + (last(p) if p else "?")
        if c == TC + "expression":
            return "exprof:" + root_field(fl, e["args"][0])
        if c in (TC + "resolve_type", TC + "inner_resolve_type"):
            return "declared:" + root_field(fl, e["args"][1])
        if c == TC + "unify":
            return "unified(%s,%s)" % (describe(fl, e["args"][2], depth + 1), describe(fl, e["args"][3], depth + 1))
        if c in (TC + "copy", TC + "instantiate"):
            return "copy(" + describe(fl, e["args"][0], depth + 1) + ")"
        if c == TC + "type_from_function":
            return "fnsig"
        if c == TC + "expression_block":
            return "blockof:" + root_field(fl, e["args"][1])
    if k == "Call":
        c = callee(e) or ""
        if c.endswith("Option::Some"):
            return "Some(" + describe(fl, e["args"][0], depth + 1) + ")"
    if k == "Field" and e["name"] == "ty":
        base = peel(e["e"])
        if base.get("k") == "Index":
            return "varty:" + root_field(fl, base["i"])
        return "varty:" + root_field(fl, base)
    if k == "Path" and e.get("res") == "Local":
        o = fl.origin.get(e["hid"])
        if o is None:
            return "?"
        if o["kind"] == "let" and o["src"] is not None:
            src = peel(o["src"])
            if src.get("k") == "Try":
                src = peel(src["e"])
            path = o["path"]
            if path == ():
                return describe(fl, src, depth + 1)
            # tuple destructuring of (ret, value) results
            if src.get("k") == "MethodCall":
                c = callee(src)
                if c == TC + "expression":
                    which = "exprof" if path == (("tuple", 1),) else "retof"
                    return which + ":" + root_field(fl, src["args"][0])
                if c == TC + "expression_block":
                    which = "blockvalue" if path == (("tuple", 1),) else "blockret"
                    return which + ":" + root_field(fl, src["args"][1])
                if c == TC + "type_from_function":
                    return "fnsig.f" if path == (("tuple", 0),) else "fnsig.ret"
            if src.get("k") == "Match":
                return "match(..)"
            return "let:" + e["name"]
        if o["kind"] == "param":
            return "param:" + e["name"]
        if o["kind"] in ("arm", "iflet", "for", "closure"):
            rf = root_field(fl, e)
            return "bound:" + rf
        return "?"
    if k == "Index":
        return "index(" + describe(fl, e["e"], depth + 1) + ")"
    return "?"


def root_field(fl, e, depth=0):
    """name the AST child an expression is derived from: `condition`, `values[*]`, `branch.body` ..."""
    e = peel_clone(e)
    if depth > 10 or not isinstance(e, dict):
        return "?"
    k = e.get("k")
    if k == "Field":
        return root_field(fl, e["e"], depth + 1) + "." + e["name"]
    if k == "Unary":
        return root_field(fl, e["e"], depth + 1)
    if k == "Index":
        return root_field(fl, e["e"], depth + 1) + "[" + root_field(fl, e["i"], depth + 1) + "]"
    if k == "Path" and e.get("res") == "Local":
        o = fl.origin.get(e["hid"])
        if o is None:
            return e["name"]
        fields = [el for el in o["path"] if el[0] == "field"]
        if o["kind"] in ("arm", "iflet") and fields:
            # bound from an AST node pattern: name the field
            f = fields[-1][2]
            inner = ""
            if o["kind"] in ("iflet", "arm") and len(fields) == 1 and fields[-1][1].endswith("Option::Some"):
                # `if let Some(x) = <e>` / `match <e> { Some(x) => .. }`: x is <e>, the Option only says whether it is there
                return root_field(fl, peel_clone(o["src"]), depth + 1)
            if fields[-1][1].endswith("Option::Some") and len(fields) >= 2:
                f = fields[-2][2]
            return f + inner
        if o["kind"] == "param":
            return e["name"]
        if o["kind"] == "let" and o["src"] is not None:
            return root_field(fl, o["src"], depth + 1)
        if o["kind"] in ("for", "closure") and o.get("src") is not None:
            base = root_field(fl, _iter_base(o["src"]), depth + 1)
            sub = "".join("." + el[2] for el in fields) if fields else ""
            tup = "".join(".%d" % el[1] for el in o["path"] if el[0] == "tuple")
            return base + "[*]" + tup + sub
        if o["kind"] in ("arm", "iflet"):
            return root_field(fl, o["src"], depth + 1)
        return e["name"]
    if k == "MethodCall":
        return root_field(fl, _iter_base(e), depth + 1)
    return "?"


def _iter_base(e):
    e = peel_clone(e)
    while isinstance(e, dict):
        if e.get("k") == "Try":
            e = peel_clone(e["e"])
        elif e.get("k") == "MethodCall" and e["m"] in (
                "iter", "iter_mut", "into_iter", "zip", "enumerate", "rev", "map", "as_ref", "last", "unwrap", "first",
                "collect", "filter", "cloned", "copied", "keys", "values"):
            e = peel_clone(e["recv"])
        else:
            break
    return e


def unify_facts(fl, node):
    """all unify / unify_option calls under node as (frozenset{desc_a, desc_b}, call, conditional?)"""
    out = []
    uncond = {id(x) for x in uncond_loop_nodes(node)}
    for n in nodes(node, "MethodCall"):
        c = callee(n)
        if c in (TC + "unify", TC + "unify_option"):
            a, b = describe(fl, n["args"][2]), describe(fl, n["args"][3])
            out.append((frozenset([a, b]), n, id(n) in uncond))
    return out


def uncond_loop_nodes(n):
    """like flow.uncond_nodes but also descends into for-loop bodies and closures passed to iterator
    adaptors (obligations quantified over a child collection) and into `if let Some(x) = <child>` bodies"""
    if isinstance(n, list):
        for x in n:
            yield from uncond_loop_nodes(x)
        return
    if not isinstance(n, dict):
        return
    yield n
    k = n.get("k")
    if k == "If":
        yield from uncond_loop_nodes(n["c"])
        c = peel(n["c"])
        if c.get("k") == "LetCond":
            # if let Some(child) = .. { obligations about that child } [else {..}]
            yield from uncond_loop_nodes(n["t"])
        return
    if k == "Match":
        yield from uncond_loop_nodes(n["scrut"])
        # `match <optional child> { Some(x) => { obligations about x }, None => .. }` is `if let Some(x) = ..` in another dress
        if "core::option::Option<" in (n.get("scrut_ty") or "") and len(n["arms"]) == 2:
            for a in n["arms"]:
                if any((pat_variant(alt) or "").endswith("Option::Some") for alt in pat_alternatives(a["pat"])):
                    yield from uncond_loop_nodes(a["body"])
        return
    if k == "Binary" and n.get("op") in ("And", "Or"):
        yield from uncond_loop_nodes(n["l"])
        return
    if k in ("While", "Loop"):
        return
    if k is None and "pat" in n and "body" in n:
        return
    if k == "ForLoop":
        yield from uncond_loop_nodes(n["iter"])
        yield from uncond_loop_nodes(n["body"])
        return
    if k == "Closure":
        yield from uncond_loop_nodes(n["body"])
        return
    for c in children(n):
        yield from uncond_loop_nodes(c)


def arm_of(F, fn, enum, variant, sub=None):
    """arm(s) of the match over `enum` in fn whose pattern names `variant`; sub = dict field->nested
    variant last-name to select among several arms for the same variant (e.g. op: BinOp::And)"""
    out = []
    for m in matches_on(fn_body(fn), enum):
        for arm, alt, vp in arm_alternatives(m):
            if vp and last(vp) == variant:
                out.append((arm, alt))
    return out


# --------------------------------------------------------------------------- structure-preserving maps

def structure_preserving(F, rep, rule, fn, enum, recursive, carrier="TyID"):
    """For a function that rebuilds values of `enum` (a copy / instantiation): every arm over variant V must build
    the *same* variant V, every payload holding a `carrier` (type-graph edge) must be passed through the recursive
    function `recursive`, and every other payload must be the matched one.  (Sibling rows of one table must agree.)"""
    adt = F.adt(enum)
    vfields = {norm_path(v["path"]): v for v in adt["variants"]}
    body = fn_body(fn)
    n = 0
    for m in nodes(body, "Match"):
        if not ty_is(m.get("scrut_ty", ""), enum):
            continue
        for arm in m["arms"]:
            b = peel(arm["body"])
            # arms may return a tuple (value, span) etc.: find the constructor call / path of `enum` in the arm body
            ctors = [c for c in nodes(b) if (c.get("k") == "Call" and (callee(c) or "").startswith(enum + "::")) or
                     (c.get("k") == "Path" and c.get("res") == "Def" and norm_path(c.get("path", "")).startswith(enum + "::") and c.get("dk", "").startswith("Ctor"))]
            for alt in pat_alternatives(arm["pat"]):
                vp = pat_variant(alt)
                if not vp or vp not in vfields:
                    continue
                v = vfields[vp]
                key = "%s|%s::%s" % (last(fn["_path"]), last(enum), v["name"])
                binds = {}
                p = pat_strip(alt)
                if p.get("k") == "TupleStruct":
                    for i, sub in enumerate(p["pats"]):
                        binds[i] = {x["hid"] for x in pat_bindings(sub)}
                if not v["fields"]:
                    # payload-free variants: `X | Y | Z => ty` (the matched value itself) or the same path
                    same = [c for c in ctors if c.get("k") == "Path" and norm_path(c["path"]) == vp]
                    passes_through = b.get("k") == "Path" and b.get("res") == "Local"
                    n += 1
                    rep.ob(rule, key, bool(same) or passes_through or len(pat_alternatives(arm["pat"])) > 1 and passes_through,
                           "%s maps %s to %s" % (last(fn["_path"]), v["name"], "itself" if (same or passes_through) else pp(b)[:40]), line_of(arm))
                    continue
                calls = [c for c in ctors if c.get("k") == "Call"]
                if len(calls) != 1:
                    continue  # not a rebuilding arm (e.g. an error arm)
                c = calls[0]
                n += 1
                built = last(callee(c))
                if built != v["name"]:
                    rep.ob(rule, key, False, "%s rebuilds %s::%s as %s::%s: the copy does not preserve the constructor" % (
                        last(fn["_path"]), last(enum), v["name"], last(enum), built), line_of(arm))
                    continue
                bad = []
                for i, fld in enumerate(v["fields"]):
                    if i >= len(c["args"]):
                        bad.append("payload %d missing" % i)
                        continue
                    a = c["args"][i]
                    mentions = Flow.mentions(a, binds.get(i, set()))
                    if carrier in fld["ty"]:
                        through = any(callee(x) == recursive for x in nodes(a) if x.get("k") in ("Call", "MethodCall"))
                        if not (through and mentions):
                            bad.append("payload %d (%s) is not passed through %s" % (i, fld["ty"].split("::")[-1], last(recursive)))
                    elif not mentions:
                        bad.append("payload %d is not the matched one" % i)
                rep.ob(rule, key, not bad, "%s rebuilds %s::%s with %s" % (
                    last(fn["_path"]), last(enum), v["name"], "every type edge remapped through %s" % last(recursive) if not bad else "; ".join(bad)),
                    line_of(arm))
    return n


def edges_enumerated(F, rep, rule, fn, enum, carrier="TyID"):
    """For a function that lists the type-graph edges leaving a node (the sibling of the copy): every arm over variant V of
    `enum` binds every payload that holds a `carrier` and uses it - a payload matched with `_` is an edge the walk does not
    follow, so what lies behind it is treated as not reachable."""
    adt = F.adt(enum)
    vfields = {norm_path(v["path"]): v for v in adt["variants"]}
    n = 0
    for m in nodes(fn_body(fn), "Match"):
        if not ty_is((m.get("scrut_ty") or "").lstrip("&"), enum):
            continue
        covered = set()
        for arm in m["arms"]:
            for alt in pat_alternatives(arm["pat"]):
                vp = pat_variant(alt)
                if not vp or vp not in vfields:
                    continue
                v = vfields[vp]
                p = pat_strip(alt)
                subs = {}
                if p.get("k") == "TupleStruct":
                    subs = dict(enumerate(p["pats"]))
                elif p.get("k") == "Struct":
                    names = [f["name"] for f in v["fields"]]
                    subs = {names.index(f["name"]): f["pat"] for f in p["fields"] if f["name"] in names}
                for i, fld in enumerate(v["fields"]):
                    if carrier not in fld["ty"]:
                        continue
                    n += 1
                    covered.add((v["name"], i))
                    sub = subs.get(i)
                    bound = {x["hid"] for x in pat_bindings(sub)} if isinstance(sub, dict) else set()
                    # Option<TyID> payloads: `Variant(_, None)` next to `Variant(_, Some(x))` is the absent edge
                    absent = isinstance(sub, dict) and (pat_variant(pat_strip(sub)) or "").endswith("Option::None")
                    used = bool(bound) and Flow.mentions(arm["body"], bound)
                    rep.ob(rule, "%s|%s::%s.%d" % (last(fn["_path"]), last(enum), v["name"], i), used or absent,
                           ("%s follows the %s edge of %s::%s" % (last(fn["_path"]), fld["ty"].split("::")[-1][:20], last(enum), v["name"]))
                           if used else ("%s::%s without a payload has no edge" % (last(enum), v["name"])) if absent else
                           ("%s does not follow payload %d (%s) of %s::%s: the types behind it are not counted as reachable - an "
                            "instantiation copies them although they belong to the surroundings" % (
                                last(fn["_path"]), i, fld["ty"].split("::")[-1][:20], last(enum), v["name"])), line_of(arm))
        # variants with an edge that no arm names (hidden behind `_ =>`)
        for vp, v in vfields.items():
            for i, fld in enumerate(v["fields"]):
                if carrier in fld["ty"] and (v["name"], i) not in covered:
                    n += 1
                    rep.ob(rule, "%s|%s::%s.%d" % (last(fn["_path"]), last(enum), v["name"], i), False,
                           "%s has no arm for %s::%s, which carries a %s" % (last(fn["_path"]), last(enum), v["name"], carrier), fn["sp"])
    return n


# --------------------------------------------------------------------------- dropped results

def dropped_results(F, rep, rule, prefixes):
    from engines import strip_ty
    """an expression statement whose value is a Result is an error that nobody looks at (rustc only warns)"""
    n = 0
    for prefix in prefixes:
        for fn in F.fns_in(prefix):
            for blk in nodes(fn_body(fn), "Block"):
                for st in blk["stmts"]:
                    if st.get("k") not in ("Semi",):
                        continue
                    e = peel(st["e"])
                    t = e.get("ty", "")
                    if e.get("k") in ("Call", "MethodCall", "Match", "If", "Block") and t.startswith("core::result::Result<") \
                            and "sylt_common::error::Error" in t:
                        n += 1
                        rep.ob(rule, "%s|%s" % (last(fn["_path"], 2), pp(e)[:50].replace("\n", " ")), False,
                               "a value of type Result<_, Vec<Error>> is computed and dropped in %s: the error it may carry is never reported" % last(fn["_path"], 2),
                               line_of(e))
    # .. nor one whose error half is thrown away by an adaptor: `r.unwrap_or_default()`, `r.ok()`, `r.unwrap_or(..)`,
    # `r.map_or(..)`, `r.is_ok()` on a Result<_, Vec<Error>> continue as if the part of the program that failed were not there
    SWALLOW = {"unwrap_or_default", "unwrap_or", "unwrap_or_else", "ok", "map_or", "map_or_else", "is_ok", "is_err", "into_iter", "iter", "and"}
    m_ = 0
    for prefix in prefixes:
        for fn in F.fns_in(prefix):
            k_ = 0
            for c in nodes(fn_body(fn), "MethodCall"):
                if c["m"] not in SWALLOW:
                    continue
                rt = strip_ty(c.get("recv_ty") or "")
                if not (rt.startswith("core::result::Result<") and "sylt_common::error::Error" in rt):
                    continue
                m_ += 1
                if c["m"] in ("is_ok", "is_err", "and"):
                    continue   # a test / a combination keeps the value around: followed separately by RET-FOLD
                k_ += 1
                rep.ob(rule, "%s|%s#%d" % (last(fn["_path"], 2), c["m"], k_), False,
                       "%s turns a Result<_, Vec<Error>> into a plain value with `.%s()`: the errors it may carry are never reported and "
                       "the construct they belong to is silently left out (an undeclared name inside a loop body: the program is accepted "
                       "and the loop emitted with an empty body)" % (last(fn["_path"], 2), c["m"]), line_of(c))
    rep.ob(rule, "census", True, "no dropped compile-error Result in %s (%d found)" % ([p.rstrip(":") for p in prefixes], n), sites=1)


# --------------------------------------------------------------------------- operand pairing / field-set agreement

PAIRED = {"Add": "Add", "Sub": "Sub", "Mul": "Mul", "Equ": "Equ", "Cmp": "Cmp", "CmpEqu": "CmpEqu",
          "DivTop": "DivBot", "DivBot": "DivTop"}


def self_mirroring_constraints(F):
    """constraint kinds whose handler (dispatched from check_constraints) itself leaves the constraint on both nodes when
    it has to defer (see DEFER-RECORDED), or decides at once by unification: for these it is enough to record the
    constraint on one operand"""
    fcc = F.fn(TC + "check_constraints")
    out = set()
    for m in matches_on(fn_body(fcc), TCM + "Constraint"):
        for arm, alt, vp in arm_alternatives(m):
            if not vp:
                continue
            cname = last(vp)
            callees = [callee(c) for c in nodes(arm["body"], "MethodCall") if (callee(c) or "").startswith(TC)]
            ok_all = bool(callees)
            for cal in callees:
                fn = F.fns.get(cal)
                if fn is None:
                    ok_all = False
                    continue
                if last(cal) == "equ":
                    continue  # unify: decided immediately
                rows = accept_table(F, fn) or []
                unk = [r for r in rows if r["verdict"] == "ok" and any("Unknown" in p for p in r["pats"])]
                rec = bool(unk)
                for r in unk:
                    nodes_rec = {local_hid(c["args"][0]) for c in nodes(r["arm"]["body"], "MethodCall") if callee(c) == TC + "add_constraint"}
                    if len(nodes_rec - {None}) < 2:
                        rec = False
                ok_all = ok_all and rec
            if ok_all:
                out.add(cname)
    return out


def operand_pairing(F, rep, rule, fns):
    """a binary-operator constraint relates two type nodes and is only re-examined when the node *holding* it is
    refined (check_constraints walks the constraints of one node).  So `Con(b)` on node a must be mirrored by the
    partner constraint `Con'(a)` on node b in the same block, or refining b later (a parameter unified at a call
    site) never re-checks the operator."""
    count = 0
    selfm = self_mirroring_constraints(F)
    for fn in fns:
        body = fn_body(fn)
        fname = last(fn["_path"])
        sites = []
        for n, parents in walk(body):
            if n.get("k") != "MethodCall" or callee(n) != TC + "add_constraint":
                continue
            cname = constraint_name(n["args"][2])
            if cname not in PAIRED:
                continue
            con = peel(n["args"][2])
            node = local_hid(n["args"][0])
            payload = local_hid(con["args"][0]) if con.get("k") == "Call" and con.get("args") else None
            blk = None
            for p in reversed(parents):
                if p.get("k") == "Block":
                    blk = id(p)
                    break
            sites.append(dict(n=n, cname=cname, node=node, payload=payload, blk=blk, ctx=_arm_context(parents),
                              name=local_name(n["args"][0])))
        if sites:
            rep.analysed(fn)
        seen = {}
        for s in sites:
            key = "%s|%s|%s" % (fname, s["ctx"] or "-", s["cname"])
            seen[key] = seen.get(key, 0) + 1
            if seen[key] > 1:
                key += "#%d" % seen[key]
            if s["node"] is None or s["payload"] is None:
                rep.ob(rule, key, False, "operator constraint on / about a node that is not a local: cannot pair it", line_of(s["n"]))
                continue
            if s["node"] == s["payload"]:
                # a declared generic constraint (`CmpEqu(var)` on var): one node, nothing to mirror
                continue
            count += 1
            mirrored = any(t is not s and t["blk"] == s["blk"] and t["node"] == s["payload"] and t["payload"] == s["node"]
                           and t["cname"] == PAIRED[s["cname"]] for t in sites)
            ok = mirrored or s["cname"] in selfm
            rep.ob(rule, key, ok,
                   ("Constraint::%s on `%s` is mirrored by Constraint::%s on the other operand in the same block" if mirrored else
                    "Constraint::%s on `%s`: its handler itself leaves Constraint::%s on both nodes whenever it has to defer" if ok else
                    "Constraint::%s is recorded on `%s` only: the other operand carries no Constraint::%s back, so when that "
                    "operand's type becomes known later (a parameter unified at a call) the operator is never re-checked")
                   % (s["cname"], s["name"], PAIRED[s["cname"]]), line_of(s["n"]))
    return count


def field_set_agreement(F, rep, rule, fn, variant="Blob", field="2"):
    """in the (X(a..), X(b..)) row of a two-sided match over types, the keyed collections bound on both sides are
    compared in *both* directions: a loop over one side's keys whose body error-exits when the other side lacks the
    key.  A membership test of a key against the collection it was just taken from is a tautology."""
    n_rows = 0
    for m in nodes(fn_body(fn), "Match"):
        if m.get("scrut_ty", "").count(TY) != 2:
            continue
        for arm in m["arms"]:
            for alt in pat_alternatives(arm["pat"]):
                alt = pat_strip(alt)
                if alt.get("k") != "Tuple" or len(alt["pats"]) != 2:
                    continue
                sides = []
                both_x = all(last(pat_variant(p) or "") == variant for p in alt["pats"])
                for p in alt["pats"]:
                    if last(pat_variant(p) or "") != variant:
                        break
                    b = pat_bindings(pat_fields(p).get(field))
                    if len(b) != 1:
                        break
                    sides.append(b[0])
                if both_x and len(sides) != 2:
                    # a row for two X types that does not even name their keyed collections: whatever it compares, it is not the
                    # fields / variants (`Maybe(fn ..)` against `Maybe(pu ..)` decided by the type arguments alone)
                    n_rows += 1
                    k_un = sum(1 for o in rep.obs if o["key"].startswith("%s|%s|row-compares-the-members" % (last(fn["_path"]), variant))) + 1
                    rep.ob(rule, "%s|%s|row-compares-the-members#%d" % (last(fn["_path"]), variant, k_un), False,
                           "%s has a row for two %s types that binds neither side's members: two %ss are then unified without their "
                           "%s being compared (payload types - and the purity of functions in them - go unchecked)" % (
                               last(fn["_path"]), variant, variant.lower(), "variants" if variant == "Enum" else "fields"), line_of(arm))
                    continue
                if len(sides) != 2:
                    continue
                n_rows += 1
                hids = {sides[0]["hid"]: sides[0]["name"], sides[1]["hid"]: sides[1]["name"]}
                dirs = set()
                taut = []
                for lp in nodes(arm["body"], "ForLoop"):
                    src = local_hid(_iter_base(lp["iter"]))
                    if src not in hids:
                        continue
                    keys = {b["hid"] for b in pat_bindings(lp["pat"])}
                    for c in nodes(lp["body"], "MethodCall"):
                        if c["m"] not in ("contains_key", "get", "contains", "get_mut"):
                            continue
                        q = local_hid(c["recv"])
                        if q not in hids or not any(x.get("hid") in keys for x in nodes(c["args"], "Path")):
                            continue
                        if q == src:
                            taut.append((hids[src], line_of(c)))
                            continue
                        # absence must lead to an error exit inside the loop body
                        if any(is_err_value(x) for x in nodes(lp["body"], "Ret")):
                            dirs.add((hids[src], hids[q]))
                a, b = sides[0]["name"], sides[1]["name"]
                for x, y in ((a, b), (b, a)):
                    rep.ob(rule, "%s|%s|%s-subset-of-%s" % (last(fn["_path"]), variant, x, y), (x, y) in dirs,
                           "every key of %s is required to be present in %s (loop over %s with a membership test on %s whose "
                           "failure is an error exit)" % (x, y, x, y), line_of(arm))
                rep.ob(rule, "%s|%s|no-tautological-membership" % (last(fn["_path"]), variant), not taut,
                       "no key is tested for membership in the collection it was taken from%s" % (
                           "" if not taut else ": " + ", ".join("%s @ %s" % t for t in taut)), line_of(arm))
    return n_rows


# --------------------------------------------------------------------------- RET-FOLD

RET_SOURCES = (TC + "expression", TC + "expression_block")


def _reads(n, hid):
    return any(x.get("res") == "Local" and x.get("hid") == hid for x in nodes(n, "Path"))


def read_on_all_paths(n, hid):
    """is local `hid` read on every path through n that does not leave with an error"""
    if n is None or not isinstance(n, dict):
        return False
    k = n.get("k")
    if k == "If":
        if _reads(n["c"], hid):
            return True
        return n.get("e") is not None and read_on_all_paths(n["t"], hid) and read_on_all_paths(n["e"], hid)
    if k == "Match":
        if _reads(n["scrut"], hid):
            return True
        arms = [a for a in n["arms"] if not is_err_value(a["body"])]
        return bool(arms) and all(read_on_all_paths(a["body"], hid) for a in arms)
    if k in ("While", "Loop"):
        return False
    if k == "ForLoop":
        return _reads(n["iter"], hid)
    if k == "Binary" and n.get("op") in ("And", "Or"):
        return read_on_all_paths(n["l"], hid)
    if k == "Block":
        for s in n["stmts"]:
            e = s.get("init") if s.get("k") == "Let" else s.get("e")
            if e is not None and read_on_all_paths(e, hid):
                return True
        return read_on_all_paths(n.get("e"), hid)
    if k == "Closure":
        return _reads(n["body"], hid)
    if k == "Path":
        return n.get("res") == "Local" and n.get("hid") == hid
    for c in children(n):
        if isinstance(c, dict) and ("k" in c) and read_on_all_paths(c, hid):
            return True
    return False


def ret_fold(F, rep, rule, fn):
    """every child's (return type, value) pair comes back from expression()/expression_block(); the return-type half
    says what `ret` statements inside that child return.  It has to reach the parent's own result on every success path,
    otherwise a `ret` of the wrong type inside that child is never compared with the function's declared return type."""
    body = fn_body(fn)
    fl = Flow(fn, body)
    fname = last(fn["_path"])
    n = 0
    blocks = list(nodes(body, "Block"))

    def rest_after(let_node):
        for b in blocks:
            for i, s in enumerate(b["stmts"]):
                if s is let_node:
                    return [(x.get("init") if x.get("k") == "Let" else x.get("e")) for x in b["stmts"][i + 1:]] + [b.get("e")]
        return None

    seen = {}
    for b in blocks:
        for st in b["stmts"]:
            if st.get("k") != "Let" or st.get("init") is None:
                continue
            init = peel(st["init"])
            if init.get("k") == "Try":
                init = peel(init["e"])
            while init.get("k") == "MethodCall" and init["m"] in ("help", "help_no_span"):
                init = peel(init["recv"])
            carriers = []
            if init.get("k") == "MethodCall" and callee(init) in RET_SOURCES:
                p = pat_strip(st["pat"])
                if p.get("k") == "Tuple" and p["pats"]:
                    first = pat_strip(p["pats"][0])
                    if first.get("k") == "Wild":
                        n += 1
                        key = "%s|%s|discarded" % (fname, root_field(fl, init["args"][0 if callee(init) == TC + "expression" else 1]))
                        rep.ob(rule, key, False, "the return-type half of a child's result is discarded with `_`", line_of(st))
                        continue
                    carriers = [(bb, "the return type of `%s`" % root_field(fl, init["args"][0 if callee(init) == TC + "expression" else 1]))
                                for bb in pat_bindings(first)]
            else:
                inner = [c for cl in nodes(st["init"], "Closure") for c in nodes(cl["body"], "MethodCall") if callee(c) in RET_SOURCES]
                if inner:
                    carriers = [(bb, "the collected (return type, value) pairs of `%s`" % root_field(fl, inner[0]["args"][0 if callee(inner[0]) == TC + "expression" else 1]))
                                for bb in pat_bindings(st["pat"]) if "Option<sylt_common::TyID>" in (bb.get("ty") or "")]
            for bb, what in carriers:
                rest = rest_after(st)
                if rest is None:
                    continue
                n += 1
                ctxname = _arm_context(_parents_of(body, st))
                key = "%s|%s|%s" % (fname, ctxname or "-", bb["name"])
                seen[key] = seen.get(key, 0) + 1
                if seen[key] > 1:
                    key += "#%d" % seen[key]
                ok = any(x is not None and read_on_all_paths(x, bb["hid"]) for x in rest)
                if ok and not _flows_to_result(body, bb["hid"]):
                    ok = False
                    what += " is read, but what is computed from it never reaches a result (`Ok(..)` / with_ret(..)): it"
                rep.ob(rule, key, ok,
                       ("%s (`%s`) is used on every success path" % (what, bb["name"])) if ok else
                       ("%s (`%s`) is dropped on some success path: a `ret` inside that child is then never compared with "
                        "the enclosing function's return type" % (what, bb["name"])), line_of(st))
    # a child's whole result thrown away: `self.definition(statement, ctx)?;` - the `ret`s inside that child are compared with
    # nothing.  At the top level there is no function they could return from, so the only right use of that result is an error
    for b in blocks:
        for st in b["stmts"]:
            if st.get("k") not in ("Semi", "ExprStmt"):
                continue
            e = peel(st["e"])
            if e.get("k") == "Try":
                e = peel(e["e"])
            if e.get("k") == "MethodCall" and (callee(e) or "").startswith(TC) and \
                    "Option<sylt_common::TyID>" in (e.get("ty") or "") and "Result<" in (e.get("ty") or "") and \
                    "(" not in (e.get("ty") or "").split("Result<")[1][:8]:
                n += 1
                ctxname = _arm_context(_parents_of_node(body, e))
                key = "%s|%s|%s-result-dropped" % (fname, ctxname or "-", last(callee(e)))
                rep.ob(rule, key, False,
                       "%s calls %s() as a statement: the return type of the `ret`s inside that child is thrown away. For a global's "
                       "initialiser (`X := if c do .. ret n .. end`) the `ret` becomes a `return` of the whole Lua chunk - the globals "
                       "after it are never initialised and `start` never runs, with exit status 0" % (fname, last(callee(e))), line_of(e))
    # RET-ORIGIN: the return-type half that an arm hands back is made of its children's halves (or None); a fresh type
    # invented there (`Some(push_type(Unknown))`) makes a body without any `ret` look as if it returned something
    for c in nodes(body, "Call"):
        if (callee(c) or "").endswith("typechecker::with_ret") and c.get("args"):
            a = peel(c["args"][0])
            src = fl.trace(a) if a.get("k") == "Path" and a.get("res") == "Local" else a
            src = peel(src)
            invented = src.get("k") == "Call" and (callee(src) or "").endswith("Option::Some") and any(
                callee(x) == TC + "push_type" for x in nodes(src, "MethodCall"))
            if a.get("k") == "Path" or invented:
                n += 1
                ctxname = _arm_context(_parents_of_node(body, c))
                key = "%s|%s|origin" % (fname, ctxname or "-")
                seen[key] = seen.get(key, 0) + 1
                if seen[key] > 1:
                    key += "#%d" % seen[key]
                rep.ob(rule.replace("FOLD", "ORIGIN"), key, not invented,
                       "the return type handed back is built from the children's return types" if not invented else
                       "the return type handed back starts as a freshly made unknown type instead of None: an expression of this "
                       "kind always claims to contain a `ret`, so `f :: fn -> int do x :: (1, 2) end` (no value, no ret) is accepted",
                       line_of(c))
    return n


def _flows_to_result(body, hid):
    """does a value computed from local `hid` reach something the function hands back (an argument of Ok / with_ret /
    no_ret, a returned expression)?  A read whose result is thrown away - `self.unify_option(.., x, ret)?;` as a statement
    - is not a use of x."""
    S = {hid}
    writes = []
    for x in nodes(body):
        k = x.get("k")
        if k == "Let" and x.get("init") is not None:
            writes.append(([b["hid"] for b in pat_bindings(x["pat"])], x["init"]))
        elif k in ("Assign", "AssignOp"):
            t = peel(x["l"])
            while isinstance(t, dict) and t.get("k") in ("Field", "Index"):
                t = peel(t["e"])
            if isinstance(t, dict) and t.get("k") == "Path" and t.get("res") == "Local":
                writes.append(([t["hid"]], x["r"]))
        elif k == "MethodCall" and x["m"] in ("push", "insert", "extend", "push_back") and x["args"]:
            t = peel(x["recv"])
            if isinstance(t, dict) and t.get("k") == "Path" and t.get("res") == "Local":
                writes.append(([t["hid"]], dict(k="Tup", es=list(x["args"]))))
        elif k in ("Match", "LetCond"):
            scr = x["scrut"] if k == "Match" else x["init"]
            pats = [a["pat"] for a in x["arms"]] if k == "Match" else [x["pat"]]
            writes.append(([b["hid"] for p_ in pats for b in pat_bindings(p_)], scr))
        elif k == "ForLoop":
            writes.append(([b["hid"] for b in pat_bindings(x["pat"])], x["iter"]))
        elif k == "Closure":
            pass
    def vtails(e):
        """the expressions whose value `e` evaluates to (statements inside blocks are not values of e)"""
        e = peel(e)
        if not isinstance(e, dict):
            return []
        k = e.get("k")
        if k == "Block":
            return vtails(e["e"]) if e.get("e") is not None else []
        if k == "Match":
            return [e["scrut"]] + [t for a_ in e["arms"] for t in vtails(a_["body"])] if False else [t for a_ in e["arms"] for t in vtails(a_["body"])]
        if k == "If":
            return vtails(e["t"]) + (vtails(e["e"]) if e.get("e") is not None else [])
        if k == "Try":
            return vtails(e["e"])
        return [e]

    def reads_S(rhs):
        for t in vtails(rhs):
            # a call's value depends on its arguments; a nested block inside an argument is its own scope of statements
            if any(p_.get("res") == "Local" and p_.get("hid") in S for p_ in nodes(t, "Path")):
                return True
        return False
    changed = True
    while changed:
        changed = False
        for tgts, rhs in writes:
            if all(t in S for t in tgts):
                continue
            if reads_S(rhs):
                S.update(tgts)
                changed = True
    for x in nodes(body):
        k = x.get("k")
        if k == "Call":
            c = callee(x) or ""
            if c.endswith(("Result::Ok", "typechecker::with_ret", "typechecker::no_ret", "Option::Some")):
                if any(p_.get("res") == "Local" and p_.get("hid") in S for a in x["args"] for p_ in nodes(a, "Path")):
                    return True
        elif k == "Ret" and x.get("e") is not None:
            if any(p_.get("res") == "Local" and p_.get("hid") in S for p_ in nodes(x["e"], "Path")):
                return True
        elif k == "MethodCall" and callee(x) in (TC + "unify_option", TC + "unify") and len(x["args"]) >= 4:
            # unified with a type that is always there (the declared return type of the function literal being checked): the
            # comparison itself is the use, whatever happens to the call's value
            a, b = x["args"][2], x["args"][3]
            for mine, other in ((a, b), (b, a)):
                if any(p_.get("res") == "Local" and p_.get("hid") in S for p_ in nodes(mine, "Path")):
                    o = peel(other)
                    if callee(x) == TC + "unify" or (o.get("k") == "Call" and (callee(o) or "").endswith("Option::Some")):
                        return True

    def value_tails(e):
        e = peel(e)
        if not isinstance(e, dict):
            return []
        k = e.get("k")
        if k == "Block":
            return value_tails(e["e"]) if e.get("e") is not None else []
        if k == "Match":
            return [t for a_ in e["arms"] for t in value_tails(a_["body"])]
        if k == "If":
            return value_tails(e["t"]) + (value_tails(e["e"]) if e.get("e") is not None else [])
        if k == "Try":
            return [e]
        return [e]
    for t in value_tails(body):
        if any(p_.get("res") == "Local" and p_.get("hid") in S for p_ in nodes(t, "Path")):
            return True
    return False


def _parents_of_node(root, target):
    for n, parents in walk(root):
        if n is target:
            return list(parents)
    return []


def _parents_of(root, target):
    for n, parents in walk(root):
        if n.get("k") == "Block" and any(s is target for s in n.get("stmts", [])):
            return list(parents) + [n]
    return []


_LET_CACHE = {}


def cond_text(fn, c):
    """text of a condition with the boolean locals it reads replaced by what they were bound to (`let open = matches!(..); if
    ctx.inside_pure && open`): one step of let-inlining, enough for a named test"""
    key = id(fn)
    if key not in _LET_CACHE:
        inits = {}
        for l in nodes(fn_body(fn), "Let"):
            if l.get("init") is not None and isinstance(l.get("pat"), dict) and l["pat"].get("k") == "Binding":
                inits[l["pat"]["hid"]] = l["init"]
        _LET_CACHE[key] = inits
    inits = _LET_CACHE[key]
    t = pp(c)
    for x in nodes(c, "Path"):
        if x.get("res") == "Local" and x.get("hid") in inits and "bool" in (x.get("ty") or ""):
            t += " /*%s=*/ %s" % (x.get("name"), pp(inits[x["hid"]]))
    return t
