"""C19 — composite values compare, order and combine structurally (DESIGN §4 C19)."""
import luaparse
import c03
import tc
import luatpl
from tc import TC
from hir import nodes, last
from engines import arm_alternatives

EXPLANATION = (
    "Decides, on the Lua AST of preamble.lua (own parser) and the checker's accept tables: (ARITH) the tuple metamethods "
    "__add/__sub/__mul/__div/__unm loop over all components 1..#a, combine a[x] and b[x] (or the scalar b for / by a "
    "number) with exactly the operator their name stands for, and wrap the result as a tuple; (EQ) __eq of tuple, list, "
    "blob and variant compares component-wise with ==, lists also compare lengths, blobs check both directions, variants "
    "tag and payload; inequality is Lua's negation of __eq; (ORDER) tuple __lt and __le scan from the first component, "
    "decide at the first differing component with <, and return false / true on a tie: one lexicographic order (> and >= "
    "are Lua's operand swaps); (CONCAT) __ADD concatenates exactly when both operands are strings and adds otherwise; "
    "(CHECKER-AGREES) every operator the type checker admits on tuples has the metamethod on the tuple metatable, and "
    "the operators reach Lua unchanged (C01 PIPE: + -> __ADD, others -> the Lua operator)."
    ' (ARITH __add via __ADD) tuple `+` combines elements with the scalar dispatcher because the checker admits str + str on elements; (CHECKER-AGREES neg) unary minus on tuples is admitted and implemented.'
    ' (function-of-its-operands) __eq/__lt/__le read only their two operands and write nothing: no verdict depends on earlier comparisons.'
    ' (PIPE lowering/emission - shared with C01) the operator written is the one the runtime applies to the evaluated operands: no arm of the lowering computes an operator itself for some operands.'
    ' (MAYBE-SHAPE, shared with C18) variants made by the library and variants the compiler writes have one shape, so `==` on enum values does not depend on who made them.'
    ' (ARITH writes-only-its-own-locals) the arithmetic metamethods build their results in locals (they re-enter themselves on nested tuples).'
)
UNDECIDED = "the laws over all run-time values (NaN, functions inside composites), and metamethod dispatch rules of the target Lua version."

MANIFEST = dict(
    text=EXPLANATION + " Not decided: " + UNDECIDED,
    technique="structural rules on the Lua AST of the metamethod family (sibling agreement, operator/name agreement) cross-checked with the checker's accept sets",
)

OPS = {"__add": "+", "__sub": "-", "__mul": "*", "__div": "/"}


LUA_PURE_GLOBALS = {"type", "pairs", "ipairs", "rawequal", "rawget", "rawlen", "getmetatable", "math", "next", "select", "tostring",
                    "string", "__TUPLE", "__LIST", "__TUPLE_META", "__LIST_META", "__BLOB_META", "__VARIANT_META", "__SET_META",
                    "__DICT_META"}


DEAD_METATABLES = {"__SET_META", "__DICT_META"}   # constructors __SET / __DICT are never emitted (the library uses __LUA_*_META)


def _truth_uses(c):
    """sub-expressions of a condition whose *truth* decides (through not / and / or / parentheses)"""
    if not isinstance(c, dict):
        return
    k = c.get("k")
    if k == "Paren":
        yield from _truth_uses(c["e"])
    elif k == "Unop" and c.get("op") == "not":
        yield from _truth_uses(c["e"])
    elif k == "Binop" and c.get("op") in ("and", "or"):
        yield from _truth_uses(c["l"])
        yield from _truth_uses(c["r"])
    else:
        yield c


def nil_tests_by_truth(f):
    """index expressions on a parameter of f whose truth is used as a condition"""
    params = set(f["params"])
    out = []
    for x in luaparse.walk(f["body"]):
        cs = []
        if x.get("k") == "If":
            cs = [c for c, _ in x["clauses"] if c is not None]
        elif x.get("k") in ("While", "Repeat"):
            cs = [x.get("cond") or x.get("c")]
        for c in cs:
            for t in _truth_uses(c):
                if t.get("k") == "Index":
                    base = t
                    while base.get("k") == "Index":
                        base = base["obj"]
                    if base.get("k") == "Name" and base["name"] in params:
                        out.append(t)
    return out


def meta_functions(ast):
    """{(META, name): function node} for assignments META.name = function .. end"""
    out = {}
    for s in ast["stmts"]:
        if s["k"] == "Assign" and len(s["targets"]) == 1 and s["targets"][0]["k"] == "Index" and s["es"][0]["k"] == "Function":
            t = s["targets"][0]
            if t["obj"]["k"] == "Name" and t.get("dot"):
                out[(t["obj"]["name"], t["key"]["v"])] = s["es"][0]
    return out


def full_loops(f, over):
    """numeric for loops `for x = 1, #over[, 1]` in function f"""
    out = []
    for n in luaparse.walk(f["body"]):
        if n.get("k") == "ForNum":
            ok = luaparse.show(n["start"]) == "1" and luaparse.show(n["stop"]) == "#" + over and (n["step"] is None or luaparse.show(n["step"]) == "1")
            out.append((n, ok))
    return out


def run(F, rep, tier):
    rep.explanation = EXPLANATION
    rep.undecided = UNDECIDED
    ast = luaparse.parse(F.read("sylt-compiler/src/preamble.lua"))
    mf = meta_functions(ast)
    rep.ob("PARSE", "metamethods", len(mf) >= 25, "%d metamethod definitions found in preamble.lua" % len(mf), sites=len(mf))
    arith(rep, mf, F)
    equality(rep, mf)
    ordering(rep, mf)
    concat(rep, ast)
    checker(F, rep, mf)
    # what the operators mean element-wise is what the checker admits element-wise: the accept tables of add/sub/mul/div/cmp
    # (a tuple arm that recurses into *another* operator's checker admits that operator's operands: `+` on tuples of strings
    # is rejected when the elements are checked as `-`)
    import c03
    c03.accept(F, rep, "CHECKER-AGREES")
    import c07
    c07.guard_discipline(F, rep)
    # a generic function is checked through a copy of its type: the copy of an operator's requirement is the same requirement on the
    # copied node (`/`: dividend, divisor and quotient stay what they were), or `quot :: fn a, b -> a / b` refuses a tuple by a number
    import core as _core19
    import c02 as _c02
    _core19.borrow(rep, _c02.copy_structure, lambda o: o["rule"] == "COPY-STRUCTURE" and "Constraint::" in o["key"], F)
    # the operator the program wrote is the one the runtime applies, to the evaluated operands: no arm of the lowering computes
    # an operator itself for some operands
    import core
    import c01
    import irp
    # `==` on enum values is structural whoever made them: the library's variants and the ones the compiler writes have one shape
    import c18
    core.borrow(rep, lambda F_, r_: c18.maybe_shape(F_, r_, c18.Lua(F_.read("sylt-compiler/src/preamble.lua"))),
                lambda o: o["rule"] == "MAYBE-SHAPE", F)
    core.borrow(rep, lambda F_, r_: c01.pipe_rules(F_, r_, irp.Tables(F_)),
                lambda o: o["rule"] == "PIPE" and o["key"].startswith(("lowering|", "emission|")), F)


def arith(rep, mf, F=None):
    str_add = False
    if F is not None:
        table, _ = c03.expand_rows(tc.accept_table(F, F.fn(TC + "add")))
        str_add = table.get(("Str", "Str")) == "ok"
    for name, op in OPS.items():
        f = mf.get(("__TUPLE_META", name))
        if f is None:
            rep.ob("ARITH", "tuple|%s|defined" % name, False, "__TUPLE_META.%s is not defined" % name)
            continue
        a, b = f["params"][0], f["params"][1]
        loops = full_loops(f, a)
        rep.ob("ARITH", "tuple|%s|all-components" % name, bool(loops) and all(ok for _, ok in loops),
               "__TUPLE_META.%s loops over components 1..#%s (%d loop(s))" % (name, a, len(loops)), "preamble.lua:%s" % f["line"])
        binops = []
        for lp, _ in loops:
            x = lp["var"]
            for asg in luaparse.walk(lp["body"]):
                if asg.get("k") == "Assign" and asg["es"][0].get("k") == "Binop":
                    e = asg["es"][0]
                    tgt = luaparse.show(asg["targets"][0])
                    l, r = luaparse.show(e["l"]), luaparse.show(e["r"])
                    binops.append((e["op"], l, r, tgt, x))
                elif asg.get("k") == "Assign" and asg["es"][0].get("k") == "Call" and asg["es"][0]["f"].get("k") == "Name" \
                        and asg["es"][0]["f"]["name"] == "__ADD" and len(asg["es"][0]["args"]) == 2:
                    # the scalar dispatcher for `+` (concatenates strings, adds numbers, dispatches on tables)
                    e = asg["es"][0]
                    tgt = luaparse.show(asg["targets"][0])
                    binops.append(("__ADD", luaparse.show(e["args"][0]), luaparse.show(e["args"][1]), tgt, x))
        good = bool(binops)
        for o, l, r, tgt, x in binops:
            elementwise = l == "%s[%s]" % (a, x) and r in ("%s[%s]" % (b, x), b) and tgt.endswith("[%s]" % x)
            if name != "__div" and r == b:
                elementwise = False  # only division accepts a scalar right operand
            want = "__ADD" if (name == "__add" and str_add) else op
            good = good and (o == want or (o == "__ADD" and name == "__add")) and elementwise
        rep.ob("ARITH", "tuple|%s|operator" % name, good,
               "__TUPLE_META.%s combines a[x] and b[x] with `%s`%s (found %s)" % (
                   name, op, " through __ADD, because the checker admits str + str on tuple elements and raw `+` does "
                   "arithmetic on (or fails for) strings" if name == "__add" and str_add else "", [(o, l, r) for o, l, r, _, _ in binops]),
               "preamble.lua:%s" % f["line"])
        # .. every component, whatever its value: an `if` inside the loop (a divisor of 0 answered with 0, say) gives some components
        # another result than the operator gives two numbers
        special = [n_ for lp, _ in loops for n_ in luaparse.walk(lp["body"]) if n_.get("k") in ("If", "Break", "Return", "Goto")]
        n_assign = sum(1 for lp, _ in loops for n_ in luaparse.walk(lp["body"]) if n_.get("k") in ("Assign", "Local"))
        rep.ob("ARITH", "tuple|%s|no-component-is-special" % name, not special and n_assign == len(binops),
               "the loop body of __TUPLE_META.%s is the one assignment: no component is treated differently for its value" % name
               if not special and n_assign == len(binops) else
               "the loop of __TUPLE_META.%s does not treat all components alike (%s): for some values a component of the result is not "
               "`a[x] %s b[x]` - what the same operator gives for the two numbers alone" %
               (name, "`%s` inside the loop" % special[0]["k"].lower() if special else "%d assignments, %d of them the operator" % (n_assign, len(binops)), op),
               "preamble.lua:%s" % (special[0].get("line") if special and special[0].get("line") else f["line"]))
        rets = [r for r in luaparse.walk(f["body"]) if r.get("k") == "Return"]
        rep.ob("ARITH", "tuple|%s|result-is-tuple" % name, bool(rets) and all(r["es"] and luaparse.show(r["es"][0]).startswith("__TUPLE(") for r in rets),
               "__TUPLE_META.%s returns a tuple in every branch" % name, "preamble.lua:%s" % f["line"])
    f = mf.get(("__TUPLE_META", "__div"))
    if f is not None:
        conds = [luaparse.show(c) for n in luaparse.walk(f["body"]) if n.get("k") == "If" for c, _ in n["clauses"]]
        rep.ob("ARITH", "tuple|__div|tuple-or-scalar", any("type(b) == 'table'" in c.replace('"', "'") for c in conds),
               "division distinguishes a tuple divisor (element-wise) from a number (every component by it): %s" % conds)
    f = mf.get(("__TUPLE_META", "__unm"))
    if f is None:
        rep.ob("ARITH", "tuple|__unm|defined", False, "__TUPLE_META.__unm is not defined")
    else:
        a = f["params"][0]
        loops = full_loops(f, a)
        negs = [luaparse.show(asg["es"][0]) for lp, _ in loops for asg in luaparse.walk(lp["body"]) if asg.get("k") == "Assign"]
        rep.ob("ARITH", "tuple|__unm", bool(loops) and all(ok for _, ok in loops) and negs and all(n == "-%s[%s]" % (a, loops[0][0]["var"]) for n in negs),
               "unary minus negates every component (%s)" % negs, "preamble.lua:%s" % f["line"])


def _returns(f):
    return [r for r in luaparse.walk(f["body"]) if r.get("k") == "Return"]


def _final_return(f):
    st = f["body"]["stmts"]
    return luaparse.show(st[-1]["es"][0]) if st and st[-1]["k"] == "Return" and st[-1]["es"] else None


def equality(rep, mf):
    # tuple / list: loop, `if not (a[x] == b[x]) then return false`, final true
    for meta, need_len in (("__TUPLE_META", False), ("__LIST_META", True)):
        f = mf.get((meta, "__eq"))
        if f is None:
            rep.ob("EQ", "%s|defined" % meta, False, "%s.__eq is not defined" % meta)
            continue
        a, b = f["params"]
        loops = full_loops(f, a)
        tests = []
        for lp, _ in loops:
            x = lp["var"]
            for i in luaparse.walk(lp["body"]):
                if i.get("k") == "If":
                    c = luaparse.show(i["clauses"][0][0])
                    ret = [luaparse.show(r["es"][0]) for r in luaparse.walk(i["clauses"][0][1]) if r.get("k") == "Return" and r["es"]]
                    ok = c in ("not (%s[%s] == %s[%s])" % (a, x, b, x), "(%s[%s] ~= %s[%s])" % (a, x, b, x)) and ret == ["false"]
                    tests.append(ok)
        rep.ob("EQ", "%s|component-wise" % meta, bool(loops) and all(ok for _, ok in loops) and tests == [True] and _final_return(f) == "true",
               "%s.__eq: false at the first unequal component of 1..#a, true otherwise" % meta, "preamble.lua:%s" % f["line"])
        if need_len:
            first = f["body"]["stmts"][0]
            ok = first["k"] == "If" and luaparse.show(first["clauses"][0][0]) in ("not (#%s == #%s)" % (a, b), "(#%s ~= #%s)" % (a, b))
            rep.ob("EQ", "%s|lengths" % meta, ok, "lists of different length are unequal (checked first)", "preamble.lua:%s" % f["line"])
    f = mf.get(("__BLOB_META", "__eq"))
    if f is None:
        rep.ob("EQ", "__BLOB_META|defined", False, "__BLOB_META.__eq is not defined")
    else:
        a, b = f["params"]
        loops = [n for n in luaparse.walk(f["body"]) if n.get("k") == "ForIn"]
        over = [luaparse.show(l["es"][0]) for l in loops]
        rep.ob("EQ", "__BLOB_META|both-directions", sorted(over) == sorted(["pairs(%s)" % a, "pairs(%s)" % b]) and _final_return(f) == "true",
               "blob equality walks the fields of both operands (%s)" % over, "preamble.lua:%s" % f["line"])
        conds = [luaparse.show(c) for l in loops for i in luaparse.walk(l["body"]) if i.get("k") == "If" for c, _ in i["clauses"]]
        rep.ob("EQ", "__BLOB_META|field-values", any(c in ("(v ~= %s[k])" % b, "not (v == %s[k])" % b) for c in conds),
               "every field value of a is compared with the same field of b (%s)" % conds, "preamble.lua:%s" % f["line"])
    f = mf.get(("__VARIANT_META", "__eq"))
    if f is not None:
        rep.ob("EQ", "__VARIANT_META", _final_return(f) == "((a[1] == b[1]) and (a[2] == b[2]))", "variants: tag and payload both equal (%s)" % _final_return(f),
               "preamble.lua:%s" % f["line"])
    else:
        rep.ob("EQ", "__VARIANT_META|defined", False, "__VARIANT_META.__eq is not defined")
    # a comparison is a function of its two operands: it keeps no record of earlier comparisons (state written on one call
    # and read on the next makes `a == b` depend on what was compared before - and an exit that skips the clean-up leaves it
    # behind), and its only verdicts are the recognised ones
    for (meta, name), f in sorted(mf.items()):
        if name not in ("__eq", "__lt", "__le", "__add", "__sub", "__mul", "__div", "__unm"):
            continue
        arith_ = name in ("__add", "__sub", "__mul", "__div", "__unm")
        locs = set(f["params"])
        for n_ in luaparse.walk(f["body"]):
            if n_.get("k") == "Local":
                locs.update(n_["names"])
            elif n_.get("k") in ("ForNum",):
                locs.add(n_["var"])
            elif n_.get("k") == "ForIn":
                locs.update(n_["names"])
        writes = []
        writes_global = []
        for n_ in luaparse.walk(f["body"]):
            if n_.get("k") == "Assign":
                for t in n_["targets"]:
                    base = t
                    while base.get("k") == "Index":
                        base = base["obj"]
                    if not (t.get("k") == "Name" and t.get("name") in locs):
                        writes.append(luaparse.show(t))
                    if not (base.get("k") == "Name" and base.get("name") in locs):
                        writes_global.append(luaparse.show(t))
        reads = sorted({luaparse.show(n_) for n_ in luaparse.walk(f["body"]) if n_.get("k") == "Name"
                        and n_.get("name") not in locs and n_.get("name") not in LUA_PURE_GLOBALS})
        if arith_:
            # an element-wise operator on tuples re-enters itself for nested tuples: what it builds is its own (a result table
            # that is a global is the same table in the outer and the inner activation)
            writes = writes_global
            rep.ob("ARITH", "%s|%s|writes-only-its-own-locals" % (meta, name), not writes,
                   "%s.%s builds its result in locals" % (meta, name) if not writes else
                   "%s.%s writes the global %s: applied to tuples that contain tuples the operator re-enters itself and the inner "
                   "activation works on the outer one's table - `(3, (1, 2)) * (6, (4, 5))` yields a tuple that contains itself"
                   % (meta, name, writes), "preamble.lua:%s" % f["line"])
            continue
        ok = not writes and not reads
        rep.ob("EQ" if name == "__eq" else "ORDER", "%s|%s|function-of-its-operands" % (meta, name), ok,
               "%s.%s reads its two operands only and writes nothing" % (meta, name) if ok else
               "%s.%s writes %s / reads the globals %s: the verdict depends on comparisons made before (an early `return false` "
               "that leaves a record behind makes a later comparison of the same list answer true without looking at the elements)"
               % (meta, name, writes or "nothing", reads or "none"), "preamble.lua:%s" % f["line"])
    # whether an entry is there is a comparison with nil: a field, element or payload may hold `false`, which a test of
    # the entry's truth (`if not a[k]`) reads as `missing`
    for (meta, name), f in sorted(mf.items()):
        if meta in DEAD_METATABLES or name not in ("__eq", "__lt", "__le", "__tostring", "__add", "__sub", "__mul", "__div", "__unm"):
            continue
        bad = nil_tests_by_truth(f)
        rep.ob("EQ" if name == "__eq" else "ORDER" if name in ("__lt", "__le") else "ARITH", "%s|%s|presence-is-compared-with-nil" % (meta, name), not bad,
               "%s.%s never uses the truth of an operand's entry as a presence test" % (meta, name) if not bad else
               "%s.%s tests `%s` for truth: an entry that holds `false` counts as missing - two blobs equal field by field, one bool "
               "field false, compare unequal" % (meta, name, luaparse.show(bad[0])), "preamble.lua:%s" % ((bad[0].get("line") if bad else None) or f["line"]))
    # no __ne-like override: Lua derives ~= from __eq; nothing in the preamble may shadow that
    bad = [k for k in mf if k[1] in ("__ne", "__neq")]
    rep.ob("EQ", "complement", not bad, "`!=` is Lua's negation of __eq (no separate metamethod)")


def ordering(rep, mf):
    for name, tie in (("__lt", "false"), ("__le", "true")):
        f = mf.get(("__TUPLE_META", name))
        if f is None:
            rep.ob("ORDER", "tuple|%s|defined" % name, False, "__TUPLE_META.%s is not defined" % name)
            continue
        a, b = f["params"]
        loops = full_loops(f, a)
        decided = []
        for lp, _ in loops:
            x = lp["var"]
            for i in luaparse.walk(lp["body"]):
                if i.get("k") == "If":
                    c = luaparse.show(i["clauses"][0][0])
                    ret = [luaparse.show(r["es"][0]) for r in luaparse.walk(i["clauses"][0][1]) if r.get("k") == "Return" and r["es"]]
                    decided.append((c in ("(%s[%s] ~= %s[%s])" % (a, x, b, x), "not (%s[%s] == %s[%s])" % (a, x, b, x)),
                                    ret == ["(%s[%s] < %s[%s])" % (a, x, b, x)]))
        rep.ob("ORDER", "tuple|%s|first-difference" % name, bool(loops) and all(ok for _, ok in loops) and decided == [(True, True)],
               "__TUPLE_META.%s scans from component 1 and decides at the first differing component with `<`" % name, "preamble.lua:%s" % f["line"])
        rep.ob("ORDER", "tuple|%s|tie" % name, _final_return(f) == tie,
               "__TUPLE_META.%s returns %s when all components are equal (found %s)" % (name, tie, _final_return(f)), "preamble.lua:%s" % f["line"])
    bad = [k for k in mf if k[0] == "__TUPLE_META" and k[1] in ("__gt", "__ge")]
    rep.ob("ORDER", "tuple|swaps", not bad, "`>` and `>=` are Lua's operand swaps of __lt / __le")


def concat(rep, ast):
    f = None
    for s in ast["stmts"]:
        if s["k"] == "Assign" and luaparse.show(s["targets"][0]) == "__ADD" and s["es"][0]["k"] == "Function":
            f = s["es"][0]
    if f is None:
        rep.ob("CONCAT", "__ADD|defined", False, "__ADD is not defined")
        return
    a, b = f["params"]
    st = f["body"]["stmts"]
    ok = len(st) == 2 and st[0]["k"] == "If" and st[1]["k"] == "Return"
    if ok:
        c = luaparse.show(st[0]["clauses"][0][0]).replace('"', "'")
        r1 = [luaparse.show(r["es"][0]) for r in luaparse.walk(st[0]["clauses"][0][1]) if r.get("k") == "Return"]
        ok = c == "((type(%s) == 'string') and (type(%s) == 'string'))" % (a, b) and r1 == ["(%s .. %s)" % (a, b)] and \
            luaparse.show(st[1]["es"][0]) == "(%s + %s)" % (a, b)
    rep.ob("CONCAT", "__ADD", ok, "__ADD(a, b) = a .. b if both are strings, a + b otherwise", "preamble.lua:%s" % f["line"])


def checker(F, rep, mf):
    # operators the checker admits on (Tuple, Tuple) need the metamethod
    need = {"add": "__add", "sub": "__sub", "mul": "__mul", "div": "__div", "cmp": "__lt"}
    for fn_name, meta in need.items():
        fn = F.fn(TC + fn_name)
        rows = tc.accept_table(F, fn)
        table, default = c03.expand_rows(rows)
        on_tuple = table.get(("Tuple", "Tuple")) in ("ok", "recurse")
        rep.ob("CHECKER-AGREES", "%s|tuple" % fn_name, (not on_tuple) or ("__TUPLE_META", meta) in mf,
               "the checker admits `%s` on tuples (%s) and the tuple metatable defines %s" % (fn_name, on_tuple, meta), fn["sp"])
        for other in ("List", "Blob", "Enum", "Function"):
            adm = table.get((other, other)) in ("ok", "recurse")
            rep.ob("CHECKER-AGREES", "%s|%s" % (fn_name, other), not adm, "the checker does not admit `%s` on %s values" % (fn_name, other), fn["sp"])
    rep.ob("CHECKER-AGREES", "cmp|__le", ("__TUPLE_META", "__le") in mf, "`<=`/`>=` on tuples have __le")
    # str + str and str comparisons
    fn = F.fn(TC + "add")
    table, _ = c03.expand_rows(tc.accept_table(F, fn))
    rep.ob("CHECKER-AGREES", "add|Str", table.get(("Str", "Str")) == "ok", "`+` on two strings is admitted (concatenation by __ADD)")
    T = luatpl.LuaTemplates(F)
    s = luatpl.summary(T, "Add")
    rep.ob("CHECKER-AGREES", "emission|Add", luatpl.render(s["value"]) == "__ADD({expand:1}, {expand:2})", "`+` reaches Lua as __ADD(a, b)")
    import c01
    for tok, (pnode, rop, irop, text) in sorted(c01.BIN_TABLE.items()):
        sm = luatpl.summary(T, irop) if irop in T.arms else None
        got = luatpl.render(sm["value"], lambda p: {1: "{l}", 2: "{r}"}.get(p[1], "{?}") if p[0] == "expand" else "{?}") if sm and sm["value"] else None
        rep.ob("CHECKER-AGREES", "emission|%s" % irop, got == text,
               "IR::%s reaches Lua as `%s` (expected `%s`): the metamethod Lua dispatches to is the one named after the operator, operands in order" % (irop, got, text))
    s = luatpl.summary(T, "Neg")
    rep.ob("CHECKER-AGREES", "emission|Neg", luatpl.render(s["value"]) == "(-{expand:1})", "unary minus reaches Lua as (-a): __unm on tuples")
    fneg = F.fns.get(TC + "neg")
    on_tuple = False
    if fneg is not None:
        for m in nodes(fneg["body"], "Match"):
            for arm, alt, vp in arm_alternatives(m):
                if vp and last(vp) == "Tuple" and not tc.is_err_value(arm["body"]):
                    on_tuple = True
    rep.ob("CHECKER-AGREES", "neg|tuple", on_tuple and ("__TUPLE_META", "__unm") in mf,
           "unary `-` on a tuple is admitted by the checker (element-wise) and __TUPLE_META.__unm exists" if on_tuple else
           "unary `-` on a tuple is rejected at compile time (Constraint::Neg admits int/float only) although the statement "
           "and __TUPLE_META.__unm provide element-wise negation", (fneg or {}).get("sp"))
