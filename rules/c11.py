"""C11 — top-level order is irrelevant; globals initialised before use (DESIGN §4 C11)."""
from hir import nodes, fn_body, callee, last, line_of, pat_alternatives, pat_variant, pat_is_catchall, peel, norm_path, walk, pat_bindings
from engines import Visit, matches_on, arm_alternatives, ty_mentions
from flow import Flow

DEP = "sylt_compiler::dependency::"
NR = "sylt_compiler::name_resolution::"

EXPLANATION = (
    "Decides the structural necessary conditions of order-independence: (1) VISIT: the dependency fold "
    "(statement_dependencies / dependencies / ty_dependency) reaches every child expression, statement, type "
    "annotation and variable reference (reads, calls AND assignment targets) of every AST variant, so every global a "
    "definition can touch is an ordering edge; (2) the stable partition in Compiler::compile keys exactly Blob|Enum "
    "first; (3) order() turns a re-entered 'Inserting' node into Err and compile() maps that Err to 'Dependency cycle' "
    "errors and returns before type checking; (4) the `start` call is appended after all statements; (5) ordering "
    "containers are BTreeMap/BTreeSet keyed by variable id (deterministic, source order for independent statements)."
    ' (START, IMPORT-PASS) the entry point and the imports do not depend on the order of `use` lines (IMPORT-PASS is a known finding); no annotation position is exempt from VISIT-dep.'
    ' (COPY environment, INFERENCE - shared) open types of globals stay shared by instances and nothing is decided about a type only because it is not known yet: both would make acceptance depend on which definition is checked first. (VISIT-dep) sub-slices and inlined helpers count as dropping elements.'
)
UNDECIDED = (
    "behavioural equivalence of permuted programs when independent initialisers have side effects; "
    "cross-file permutations beyond the dependency relation."
)


def run(F, rep, tier):
    rep.explanation = EXPLANATION
    rep.undecided = UNDECIDED
    dependency_visit(F, rep)
    # Definition: `var` must be used (only) to drop the self edge of function values
    partition(F, rep)
    cycle(F, rep)
    start_last(F, rep)
    containers(F, rep)
    init_order_keys(F, rep)
    import c05
    c05.start_rules(F, rep)
    import c12
    c12.import_pass(F, rep)
    # `from a use x` and `from b use x` in one file collide whichever comes first: nothing is let through before the two meanings of the
    # name are compared (an arm that tolerates an occupied name for one kind of module makes the order of the two lines decide)
    import core as _core
    _core.borrow(rep, c12.import_names, lambda o: o["rule"] == "COLLISION", F)
    import c07
    c07.visit_loops_complete(F, rep)
    # the type of a global that is still open when a function reading it is generalised stays *shared* by the instances: were it
    # copied, a use at one type and a later definition-site refinement at another would be accepted in the order that closes the
    # global late and rejected in the order that closes it first
    import core
    import c02
    # .. and no requirement on a type that is not known *yet* is decided on the spot: which of two independent functions over an
    # open global (`handlers := []`) is checked first is a matter of source order
    import c08
    core.borrow(rep, c08.unknown_is_deferred, lambda o: o["rule"] == "INFERENCE" and "=>error" in o["key"], F)
    core.borrow(rep, lambda F_, r_: c02.copy_discipline(F_, r_),
                lambda o: o["key"] in ("environment|every-variable-of-the-surroundings-is-a-start", "environment|every-reached-node-is-kept"), F)


def dependency_visit(F, rep):
    """every variable reference anywhere inside a top-level statement becomes a dependency edge"""
    fold = {DEP + "statement_dependencies", DEP + "dependencies", DEP + "ty_dependency"}
    child_types = ["name_resolution::Expression", "name_resolution::Statement", "name_resolution::IfBranch",
                   "name_resolution::CaseBranch", "name_resolution::Type"]

    def is_child(vpath, fname, fty):
        if ty_mentions(fty, child_types):
            return True
        # variable references: usize fields (type Ref = usize) of the resolved AST
        if fty.strip() == "usize":
            return True
        return False

    exempt = {
        ("Definition", "var"): "the defined variable itself (removed for function values: self-recursion)",
        ("Blob", "var"): "the declared type's own variable (key of the ordering map)",
        ("Enum", "var"): "the declared type's own variable (key of the ordering map)",
        ("ExternalDefinition", "var"): "the declared variable itself",
        # NOTE: no annotation position is exempt.  Function.params / Function.ret / ExternalDefinition.ty used to be, on the
        # argument that annotations name Blob/Enum declarations and those are placed first; but an annotation can name any
        # global (`X :: 1`, `f :: fn a: X -> int`), and then only the order decided whether the misuse was reported.
        # Blob.fields / Enum.variants are NOT exempt either: the partition in compile() puts type declarations before values,
        # but among themselves type declarations are only ordered by these edges, and a type that is resolved before the
        # declaration it names has been checked silently means "anything" (inner_resolve_type copies an Unknown node).
        ("Blob", "self_var"): "binder (`self`)",
        ("CaseBranch", "variable"): "binder (case binding)",
    }
    v = Visit(
        F, rep, "VISIT-dep", fold,
        [NR + "Statement", NR + "Expression", NR + "Type"],
        is_child, exempt,
        struct_children={NR + "IfBranch": ["condition", "body"], NR + "CaseBranch": ["body"]},
        is_leaf=lambda v, f, t: t.strip() == "usize",
    )
    for p in sorted(fold):
        v.run_fn(F.fn(p))
    rep.floor("VISIT-dep", "match arms", v.arms_seen, 35)
    rep.floor("VISIT-dep", "child fields", v.children_checked, 40)


def partition(F, rep):
    """statements.sort_by_key(|s| match s { Blob|Enum => 0, others => 1 }) in Compiler::compile"""
    fn = F.fn("sylt_compiler::Compiler::compile")
    rep.analysed(fn)
    body = fn_body(fn)
    found = 0
    for c in nodes(body, "MethodCall"):
        if c["m"] not in ("sort_by_key", "sort_by_cached_key"):
            continue
        clo = [a for a in c["args"] if a.get("k") == "Closure"]
        if not clo:
            continue
        for m in matches_on(clo[0]["body"], NR + "Statement"):
            found += 1
            keys = {}
            for arm, alt, vp in arm_alternatives(m):
                val = peel(arm["body"])
                k = val["v"] if val.get("k") == "Lit" else "?"
                if vp is None:
                    keys["_"] = k
                else:
                    keys[last(vp)] = k
            lows = sorted(kk for kk, vv in keys.items() if vv == min(keys.values()))
            ok = lows == ["Blob", "Enum"] and len(set(keys.values())) == 2 and "_" not in keys
            rep.ob("PARTITION", "Compiler::compile|sort_by_key", ok,
                   "stable partition keys: lowest key for %s (must be exactly Blob, Enum; all others one higher key)" % lows,
                   line_of(c))
            # stable sort required: sort_by_key is stable; sort_unstable_* would reorder equal keys
            rep.ob("PARTITION", "Compiler::compile|stable", c["m"] in ("sort_by_key", "sort_by_cached_key"),
                   "the partition uses a stable sort (%s)" % c["m"], line_of(c))
    unstable = [c for c in nodes(body, "MethodCall") if c["m"].startswith("sort_unstable")]
    rep.ob("PARTITION", "Compiler::compile|no-unstable-sort", not unstable, "no unstable sort of the statement list", fn["sp"])
    # since every use of a type is a dependency edge (VISIT-dep, no exemptions) the order returned by
    # initialization_order already has declarations before their users; a re-sort is optional, but if there is one it must
    # be the stable types-first partition checked above
    rep.ob("PARTITION", "Compiler::compile|census", True, "%d re-sort(s) of the ordered statement list" % found, sites=found)


def cycle(F, rep):
    """order(): a node found in state Inserting yields Err; compile(): Err arm reports and returns Err
    before typechecker::solve is called"""
    fn = F.fn(DEP + "order::recurse")
    rep.analysed(fn)
    body = fn_body(fn)
    ok = False
    n = 0
    bad = []
    for m in nodes(body, "Match"):
        for arm in m["arms"]:
            names = {pat_variant(alt) for alt in pat_alternatives(arm["pat"])}
            if not any(v and v.endswith("State::Inserting") for v in names):
                continue
            n += 1
            b = peel(arm["body"])
            is_err = b.get("k") == "Call" and (callee(b) or "").endswith("Result::Err")
            if arm.get("guard") is not None or not is_err:
                bad.append(line_of(arm))
            else:
                ok = True
    ok = ok and not bad
    rep.ob("CYCLE", "order::recurse|Inserting=>Err", ok,
           "re-entering a node in state Inserting returns Err (cycle detected) in every arm, unconditionally%s" % (
               "" if ok else " — NOT so at %s: some cycles are accepted, and whether one is depends on where the walk enters it "
               "(source order)" % bad), fn["sp"])
    # the Inserting state must be entered before recursing into dependencies, Inserted after
    calls = [c for c in nodes(body) if c.get("k") in ("Call", "MethodCall")]
    ins = [c for c in calls if c.get("k") == "MethodCall" and c["m"] == "insert"]
    rec = [c for c in calls if callee(c) == DEP + "order::recurse"]
    rep.ob("CYCLE", "order::recurse|recursion", len(rec) >= 1, "recurse() visits dependencies recursively", fn["sp"])
    # ... every one of them: the loop over the statement's dependencies recurses unconditionally - a dependency that is skipped
    # (`if dep == global { continue }`, a filter on the iterator) is a cycle that is never seen: `total :: total + 1`
    from flow import uncond_nodes
    followed = None
    for lp in nodes(body, "ForLoop"):
        inner_rec = [c for c in nodes(lp["body"]) if c.get("k") == "Call" and callee(c) == DEP + "order::recurse"]
        if not inner_rec:
            continue
        chain = []
        cur = peel(lp["iter"])
        while cur.get("k") == "MethodCall":
            chain.append(cur["m"])
            cur = peel(cur["recv"])
        plain = not (set(chain) - {"iter", "into_iter", "cloned", "copied"})
        uncond = any(x is inner_rec[0] for x in uncond_nodes(lp["body"]))
        exits_before = False
        for x in uncond_nodes(lp["body"]):
            if x is inner_rec[0]:
                break
        early = [x for x in nodes(lp["body"]) if x.get("k") in ("Continue", "Break")]
        followed = plain and uncond and not early
    rep.ob("CYCLE", "order::recurse|every-dependency-followed", bool(followed),
           "the loop over a statement's dependencies recurses into each of them, unconditionally" if followed else
           "the loop over a statement's dependencies skips some of them (a `continue` / `break`, a condition around the recursive call "
           "or a filter on the iterator): a cycle through a skipped dependency - a global whose initialiser reads itself - is accepted",
           fn["sp"])
    rep.floor("CYCLE", "State::Inserting arms", n, 1)

    comp = F.fn("sylt_compiler::Compiler::compile")
    body = fn_body(comp)
    # match dependency::initialization_order(..) { Ok(s) => s, Err(s) => { ...; return Err(..) } }
    ok = False
    for m in nodes(body, "Match"):
        sc = peel(m["scrut"])
        if callee(sc) != DEP + "initialization_order":
            continue
        for arm, alt, vp in arm_alternatives(m):
            if vp and vp.endswith("Result::Err"):
                rets = [r for r in nodes(arm["body"], "Ret")]
                if rets and all(_is_err(r["e"]) for r in rets):
                    ok = True
    rep.ob("CYCLE", "Compiler::compile|Err=>return Err", ok,
           "compile() returns Err when initialization_order reports a cycle", comp["sp"])
    # ordering: initialization_order call precedes typechecker::solve and intermediate::compile
    seq = [callee(c) for c in nodes(body) if c.get("k") == "Call"]
    def idx(p):
        return seq.index(p) if p in seq else -1
    a, b, c = idx(DEP + "initialization_order"), idx("sylt_compiler::typechecker::solve"), idx("sylt_compiler::intermediate::compile")
    rep.ob("CYCLE", "Compiler::compile|order", 0 <= a < b < c,
           "initialization_order -> typechecker::solve -> intermediate::compile in this order", comp["sp"])
    cycle_nonempty(F, rep)


def cycle_nonempty(F, rep, rule="CYCLE"):
    """sylt's main() prints the errors it got and fails iff that list is not empty, so an `Err` that carries *no* error is
    a success with nothing written.  The cycle report starts as `Err(Vec::new())` where the walk meets a node in state
    Inserting; it is non-empty because every frame it passes through on the way out adds its own statement - unconditionally -
    and compile() turns every member into an error."""
    from flow import uncond_nodes
    fn = F.fn(DEP + "order::recurse")
    body = fn_body(fn)
    rec = [c for c in nodes(body) if c.get("k") == "Call" and callee(c) == DEP + "order::recurse"]
    good = bad = 0
    for n, parents in __import__("hir").walk(body):
        if n.get("k") == "MethodCall" and n["m"] == "map_err" and any(x is r for r in rec for x in nodes(n["recv"])):
            cl = [a for a in n["args"] if a.get("k") == "Closure"]
            ok = False
            if cl:
                prm = [b["hid"] for p_ in cl[0]["params"] for b in pat_bindings(p_)]
                for x in uncond_nodes(cl[0]["body"]):
                    if x.get("k") == "MethodCall" and x["m"] == "push" and peel(x["recv"]).get("hid") in prm:
                        ok = True
            good += ok
            bad += not ok
    # a recursive call whose Err is passed on untouched (`?` without map_err) adds nothing either
    plain = [r for r in rec if not any(n.get("k") == "MethodCall" and n["m"] == "map_err" and any(x is r for x in nodes(n["recv"]))
                                       for n in nodes(body))]
    rep.ob(rule, "order::recurse|cycle-list-non-empty", good >= 1 and bad == 0 and not plain,
           "every frame a detected cycle passes through adds its statement to the report unconditionally (%d site(s))" % good
           if good >= 1 and bad == 0 and not plain else
           "a cycle report can leave order() empty: the list starts as Err(Vec::new()) and a frame passes it on without "
           "(unconditionally) adding its statement - compile() then returns Err with no errors, which main() treats as success: "
           "`counter :: counter + 1` compiles to nothing with exit status 0", fn["sp"])
    comp = F.fn("sylt_compiler::Compiler::compile")
    ok = False
    for m in nodes(fn_body(comp), "Match"):
        if callee(peel(m["scrut"])) != DEP + "initialization_order":
            continue
        for arm, alt, vp in arm_alternatives(m):
            if vp and vp.endswith("Result::Err"):
                binds = [b["hid"] for b in pat_bindings(alt)]
                for c in nodes(arm["body"], "MethodCall"):
                    if c["m"] == "for_each" and any(x.get("hid") in binds for x in nodes(c["recv"], "Path")):
                        # every member: no adaptor between the list and the closure that can leave members out (a cycle of types
                        # only, filtered for "values", reports nothing - Err with no errors, which main() treats as success)
                        if any(r_.get("k") == "MethodCall" and r_["m"] in ("filter", "filter_map", "skip", "skip_while", "take", "take_while",
                                                                             "step_by", "flat_map", "flatten")
                               for r_ in nodes(c["recv"])):
                            continue
                        cl = [a for a in c["args"] if a.get("k") == "Closure"]
                        # (error_no_panic! pushes under `if !self.panic`, a flag it resets itself after every use)
                        if cl and any(x.get("k") == "MethodCall" and x["m"] == "push" for x in nodes(cl[0]["body"])):
                            ok = True
                for lp in nodes(arm["body"], "ForLoop"):
                    if any(x.get("hid") in binds for x in nodes(lp["iter"], "Path")) and \
                            not any(r_.get("k") == "MethodCall" and r_["m"] in ("filter", "filter_map", "skip", "skip_while", "take", "take_while", "step_by")
                                    for r_ in nodes(lp["iter"])) and \
                            any(x.get("k") == "MethodCall" and x["m"] == "push" for x in nodes(lp["body"])):
                        ok = True
    rep.ob(rule, "Compiler::compile|one-error-per-cycle-member", ok,
           "compile() records an error for every member of a reported cycle", comp["sp"])


def _is_err(e):
    e = peel(e)
    return isinstance(e, dict) and e.get("k") == "Call" and (callee(e) or "").endswith("Result::Err")


def start_last(F, rep):
    fn = F.fn("sylt_compiler::intermediate::compile")
    rep.analysed(fn)
    body = fn_body(fn)
    # code.push(IR::Call(tmp, start, Vec::new())) is the last statement before the tail `code`
    pushes = [c for c in nodes(body, "MethodCall") if c["m"] == "push"]
    ok = False
    for p in pushes:
        a = peel(p["args"][0])
        if a.get("k") == "Call" and (callee(a) or "").endswith("IR::Call"):
            ok = True
    stmts = body["stmts"] if body.get("k") == "Block" else []
    last_is_push = bool(stmts) and any(x is p for p in pushes for x in nodes(stmts[-1]))
    rep.ob("START-LAST", "intermediate::compile|push(IR::Call(start))", ok and last_is_push,
           "the call of `start` is pushed after all statement code (last statement of compile())", fn["sp"])


def containers(F, rep):
    """ordering state is kept in BTreeMap/BTreeSet (deterministic iteration = variable id = source order)"""
    for p in (DEP + "order", DEP + "initialization_order", DEP + "order::recurse"):
        fn = F.fn(p)
        rep.analysed(fn)
        tys = " ".join(prm["ty"] for prm in fn["params"]) + " " + fn.get("ret", "")
        if p.endswith("initialization_order"):
            lets = [st for b in nodes(fn_body(fn), "Block") for st in b["stmts"] if st.get("k") == "Let"]
            tys = " ".join(bb["ty"] for st in lets for bb in _b(st["pat"]))
        bad = "HashMap" in tys or "HashSet" in tys
        rep.ob("ORDERED-CONTAINERS", last(p, 2), not bad and "BTree" in tys,
               "dependency ordering uses BTreeMap/BTreeSet only", fn["sp"])


def _b(p):
    from hir import pat_bindings
    return pat_bindings(p)


def init_order_keys(F, rep):
    """initialization_order registers Definition, ExternalDefinition, Blob and Enum (the four declaration
    kinds) and nothing else can occur at top level (wildcard justified by parser's outer_statement filter, C07 K1')"""
    fn = F.fn(DEP + "initialization_order")
    body = fn_body(fn)
    got = set()
    for m in matches_on(body, NR + "Statement"):
        for arm, alt, vp in arm_alternatives(m):
            if vp and any(True for c in nodes(arm["body"], "MethodCall") if c["m"] == "insert"):
                got.add(last(vp))
    want = {"Definition", "ExternalDefinition", "Blob", "Enum"}
    rep.ob("INIT-ORDER-KEYS", "initialization_order", got == want,
           "statements entered into the ordering map: %s (want %s)" % (sorted(got), sorted(want)), fn["sp"])
