"""C06 — every accepted program yields loadable Lua: template-level necessary conditions (DESIGN §4 C06)."""
import re

from hir import nodes, fn_body, callee, last, line_of, peel, pp, norm_path
import irp
import irtpl
import luatpl
import luaparse
import toks
import c01

EXPLANATION = (
    "Decides the template-level necessary conditions of syntactic validity: (GRAMMAR) the text written for every IR op, "
    "instantiated with placeholder names, is a complete Lua statement (or, for block openers / `else` / `end`, completes "
    "to one) and every inlinable value is a Lua expression - checked with an independent Lua 5.1(+goto) parser; "
    "(IRP-lvalue) a temporary defined by an op that may be inlined into its use is never the target of an assignment "
    "(the emitter would substitute expression text at an l-value); (IRP-bracket) block openers and `end` balance in every "
    "lowering template; (IRP-final) `return` / `break` are written in a form that is legal in the middle of a block; "
    "(LEX-SAFE) wherever source text reaches the output verbatim, its alphabet is safe at that position: string payloads "
    "inside a Lua short string, identifiers used as bare field / global names versus Lua's reserved words, variant names "
    "and numbers; (NO-EXPR-STATEMENT) ops whose value is unused are dropped and calls are always bound to a local."
    " (CTX, GUARD, LOOP-LABEL) `break` / `goto` are emitted only where legal: the checker's inside_loop flag is true exactly for a loop's body and reset by function literals, and the lowering hands the body the label that the loop itself writes."
    ' (BUDGET) the number of Lua locals per function and the nesting depth of inlined expressions are bounded independently of source length (both obligations fail: known findings).'
    ' (LEX-SAFE crash message) every IR::HaltAndCatchFire message is built from literal pieces without quote, backslash or line break and from numbers.'
    ' (WRITE-CHECKED, shared with C20) what a buffering writer holds is flushed with a checked result.'
)
UNDECIDED = ("Lua's 60-upvalue and constant-table limits; the two limits a structural rule can reach (200 locals per function, "
             "200 syntax levels) are the BUDGET obligations, which fail on the current tree (known findings).")

MANIFEST = dict(
    text=EXPLANATION + " Not decided: " + UNDECIDED,
    technique="symbolic template extraction from lua.rs/intermediate.rs + independent Lua parser on instantiated templates + alphabet agreement between token regexes and Lua lexemes",
)


def instantiate(parts, raw="x"):
    def h(p):
        k = p[0]
        if k == "expand":
            return "V1"
        if k == "name":
            return "V2"
        if k in ("expand*", "name*"):
            return "V3, V4"
        if k.startswith("raw"):
            return raw
        if k.startswith("num"):
            return "1"
        if k == "map*":
            return ", ".join(luatpl.render(p[2], lambda q: raw if q[0].startswith("raw") else "V1") for _ in range(2))
        if k in ("opt-begin", "opt-end"):
            return ""
        return "V9"
    return luatpl.render(parts, h)


CONTEXT = {
    # op: (prefix, suffix) that make the instantiated text a complete chunk
    "If": ("", " end"),
    "Else": ("if V1 then ", " end"),
    "End": ("do ", ""),
    "Loop": ("", " end"),
    "Function": ("", " end"),
    "Break": ("while true do ", " end"),
    "Goto": ("::1:: ", ""),
}


def run(F, rep, tier):
    rep.explanation = EXPLANATION
    rep.undecided = UNDECIDED
    T = irp.Tables(F)
    for p in T.T.problems:
        rep.ob("TEMPLATES", "lua|" + p, False, p)
    for u in T.unknown:
        rep.ob("TEMPLATES", "ir|unanalysable|%s" % u[1], False, "lowering code the template evaluator cannot follow: %s" % (u,), u[2])
    rep.floor("TEMPLATES", "IR variants with an emission arm", len(T.S), 41)
    # the file holds this chunk and nothing else: an output that is not truncated keeps the tail of an earlier, longer one
    import core
    import c20
    core.borrow(rep, c20.atomic, lambda o: o["rule"] == "ATOMIC" and o["key"] == "output-truncated", F)
    # .. and is complete when the compiler says so: what a buffering writer still holds is flushed with a checked result
    core.borrow(rep, c20.write_checked, lambda o: o["rule"] == "WRITE-CHECKED", F)
    grammar(F, rep, T)
    lvalue(F, rep, T)
    c01.irp_bracket(F, rep, T)
    final(F, rep, T)
    lex_safe(F, rep, T)
    no_expr_statement(F, rep, T)
    loop_label(F, rep)
    resource_budgets(F, rep, T)


IRM = "sylt_compiler::intermediate::"


def resource_budgets(F, rep, T):
    """Lua refuses to load a function with more than 200 active locals and an expression nested deeper than 200 levels
    (`too many local variables`, `chunk has too many syntax levels`).  The property quantifies over function sizes, so
    both quantities must be bounded independently of the length of the source: locals by scoping the temporaries of a
    statement in a block, nesting by a cap on inlining."""
    declaring = sorted(n for n, s_ in T.S.items() if (s_["text_many"] or "").startswith("local "))
    scoped = any((s_["text_many"] or "").strip() == "do" for s_ in T.S.values())
    rep.ob("BUDGET", "locals-per-function", scoped or not declaring,
           "statement temporaries are scoped in do .. end blocks" if scoped else
           "%d IR ops write `local ..` straight into the enclosing function body (%s ..) and no op opens a plain `do` block: "
           "every variable read, call and temporary stays live until the function ends, so a body of about 70 ordinary "
           "statements (or 125 top-level definitions next to the standard library's 80) has more than 200 locals and the chunk "
           "does not load" % (len(declaring), ", ".join(declaring[:6])), sites=len(declaring))
    # .. what is already free stays free: a plain assignment `x = v` hands the value over through a temporary that is written
    # without `local` (or is inlined into its one use), so assignments alone never fill the 200 slots
    sa = [a for a in T.stmt if a["label"] == "Assignment"]
    alts = [it for it in (sa[0]["items"] if sa and sa[0]["items"] else []) if it[0] == "alt" and "Nop" in it[2]]
    if not alts:
        rep.anchor_missing("op alternatives of the Assignment template (budget)")
    for it in alts:
        nop = dict(zip(it[2], it[1])).get("Nop", [])
        costly = [o[1] for o in nop if o[0] == "op" and (T.S.get(o[1], {}).get("text_many") or "").startswith("local ")
                  and not T.S[o[1]]["inlinable"]]
        rep.ob("BUDGET", "plain-assignment|costs-no-local", bool(nop) and not costly,
               "the temporary of `x = v` is written by %s, which declares no Lua local" % [o[1] for o in nop] if nop and not costly else
               "the temporary of a plain assignment is written by IR::%s, whose template starts with `local`: every `x = v` of a function "
               "body then takes one of Lua's 200 local slots for good, and a function with some 200 assignments - accepted by the "
               "compiler - is refused by the Lua loader (`too many local variables`)" % (costly[0] if costly else "?"))
    lua = F.fn("sylt_compiler::lua::Generator::expand") if "sylt_compiler::lua::Generator::expand" in F.fns else None
    capped = False
    if lua is not None:
        capped = any(prm["ty"].strip() in ("usize", "u32") for prm in lua["params"]) or \
            any(x.get("k") == "Field" and x["name"] in ("depth", "nesting") for x in nodes(fn_body(lua)))
    rep.ob("BUDGET", "inline-nesting-depth", capped,
           "inlining into a use is capped by a depth counter" if capped else
           "a value used once is inlined into its use as text, recursively and without a depth limit: a flat chain "
           "`1 + 1 + .. + 1` of 210 operators becomes `__ADD(__ADD(..` nested 210 deep, past Lua's limit of 200 syntax levels",
           (lua or {}).get("sp"))


def loop_label(F, rep):
    """`break` is only legal Lua inside a loop of the same function, `goto L` only where `::L::` is visible.  The
    lowering emits IR::Break / IR::Goto(ctx.closest_loop) for every break / continue it meets, so (a) the checker must
    reject them wherever the lowering has no enclosing loop - its `inside_loop` flag is true exactly for a loop's body
    and reset by function literals (the CTX instances of C05) - and (b) the lowering's closest_loop for the statements
    of a loop body is the label that this very loop writes (IR::Label(l) after IR::Loop), everything else inherits."""
    import c05
    import tc
    from flow import Flow
    from hir import walk, call_args, pat_bindings, pat_fields
    from engines import ty_is
    c05.loop_flag(F, rep)
    fst = F.fn(IRM + "IRCodeGen::statement")
    rep.analysed(fst)
    fl = Flow(fst, fn_body(fst))
    arms = tc.arm_of(F, fst, "sylt_compiler::name_resolution::Statement", "Loop")
    if not arms:
        rep.anchor_missing("IRCodeGen::statement Loop arm")
        return
    arm, alt = arms[0]
    lits = [x for x in nodes(arm["body"], "Struct") if ty_is(x.get("ty", ""), IRM + "IRContext")]
    ok_lit = ok_label = ok_body = False
    lab = None
    for lit in lits:
        for fe in lit["fields"]:
            if fe["name"] == "closest_loop":
                v = peel(fe["e"])
                if v.get("k") == "Path" and v.get("res") == "Local":
                    src = peel(fl.trace(v))
                    if src.get("k") == "MethodCall" and callee(src) == IRM + "IRCodeGen::label":
                        ok_lit, lab = True, v["hid"]
    if lab is not None:
        for c in nodes(arm["body"], "Call"):
            if (callee(c) or "").endswith("intermediate::IR::Label") and any(x.get("hid") == lab for x in nodes(c["args"], "Path")):
                ok_label = True
        # the literal is the context of the calls that lower the loop's `body` statements
        for c in nodes(arm["body"], "MethodCall"):
            if callee(c) == IRM + "IRCodeGen::statement":
                a = call_args(c)
                is_lit = False
                if len(a) > 2:
                    v = peel(a[2])
                    if v.get("k") == "Path" and v.get("res") == "Local":
                        v = peel(fl.trace(v))
                    is_lit = any(x is lits[0] for x in nodes(v))
                if is_lit and tc.root_field(fl, a[1]).startswith("body"):
                    ok_body = True
    rep.ob("LOOP-LABEL", "IRCodeGen::statement|Loop|fresh-label", ok_lit,
           "the loop's body is lowered under IRContext { closest_loop: l } with l = self.label() (a fresh label)", line_of(arm))
    rep.ob("LOOP-LABEL", "IRCodeGen::statement|Loop|label-written", ok_label,
           "the same l is written as IR::Label(l) by the loop's own lowering, so `goto l` from its body sees the label", line_of(arm))
    rep.ob("LOOP-LABEL", "IRCodeGen::statement|Loop|body-gets-label", ok_body,
           "the statements lowered under that context are the loop's `body` (the part the checker marks inside_loop)", line_of(arm))
    # no other IRContext literal; IRContext::new() only at the root
    other = []
    news = []
    for fn in F.fns_in(IRM):
        for x in nodes(fn_body(fn), "Struct"):
            if ty_is(x.get("ty", ""), IRM + "IRContext") and not any(x is l for l in lits) and last(fn["_path"], 2) != "IRContext::new":
                other.append(last(fn["_path"], 2))
        for c in nodes(fn_body(fn), "Call"):
            if callee(c) == IRM + "IRContext::new":
                news.append(last(fn["_path"], 2))
    rep.ob("LOOP-LABEL", "IRContext|single-literal", not other and len(lits) == 1,
           "IRContext is only rebuilt in the Loop arm (%d literal there; elsewhere: %s)" % (len(lits), other), line_of(arm))
    rep.ob("LOOP-LABEL", "IRContext::new|root-only", news == ["IRCodeGen::compile"],
           "IRContext::new() (no enclosing loop) is only created by %s" % news, None)
    # ... and a function that starts from a fresh context is never entered from one that carries a context: the label of
    # the enclosing loop would be dropped for everything below (`x := if c do continue else do i end` inside a loop)
    fresh_fns = set()
    carrying = set()
    for fn in F.fns_in(IRM):
        if any(callee(c) == IRM + "IRContext::new" for c in nodes(fn_body(fn), "Call")):
            fresh_fns.add(fn["_path"])
        if any(ty_is(prm["ty"], IRM + "IRContext") for prm in fn["params"]):
            carrying.add(fn["_path"])
    dropped = []
    for p in sorted(carrying):
        for c in nodes(fn_body(F.fn(p))):
            if c.get("k") in ("Call", "MethodCall") and callee(c) in fresh_fns:
                dropped.append("%s -> %s" % (last(p, 2), last(callee(c), 2)))
    rep.ob("LOOP-LABEL", "IRContext|never-dropped", not dropped,
           "no function that carries an IRContext calls one that starts from IRContext::new()" if not dropped else
           "%s: the lowering continues with a fresh IRContext (closest_loop = Label(0)) below a function that was handed the "
           "enclosing loop's context; a `continue` in there is emitted as `goto L0`, a label that does not exist" % "; ".join(dropped),
           None, sites=len(carrying))
    # Goto is only emitted with the context's label; Break only by the Break arm and the loop's own exit test
    gotos = []
    for fn in F.fns_in(IRM):
        for c in nodes(fn_body(fn), "Call"):
            if (callee(c) or "").endswith("intermediate::IR::Goto"):
                a = peel(c["args"][0])
                gotos.append(a.get("k") == "Field" and a["name"] == "closest_loop" and ty_is(a.get("base_ty", ""), IRM + "IRContext"))
    rep.ob("LOOP-LABEL", "IR::Goto|context-label-only", bool(gotos) and all(gotos),
           "every IR::Goto targets ctx.closest_loop (%d sites)" % len(gotos), None)


def grammar(F, rep, T):
    for name, s in sorted(T.S.items()):
        if s["dyn"]:
            rep.ob("GRAMMAR", name + "|analysable", False, "the text written for IR::%s contains a part the evaluator cannot follow: %s" % (name, s["text_many"]))
            continue
        pre, suf = CONTEXT.get(name, ("", ""))
        for case, parts in (("many", s["parts_many"]),):
            text = instantiate(parts)
            # labels are written through Display of Label: L<n>
            if name in ("Label", "Goto"):
                text = text.replace("1", "L1")
                pre = pre.replace("1", "L1")
            chunk = pre + text + suf
            if not text.strip():
                rep.ob("GRAMMAR", name, True, "IR::%s writes nothing" % name)
                continue
            try:
                luaparse.parse(chunk)
                rep.ob("GRAMMAR", name, True, "IR::%s writes `%s`: a complete Lua statement (parsed as `%s`)" % (name, s["text_many"], chunk))
            except luaparse.LuaSyntaxError as ex:
                rep.ob("GRAMMAR", name, False, "IR::%s writes `%s`, which is not valid Lua (`%s`: %s)" % (name, s["text_many"], chunk, ex))
        if s["value"] is not None:
            v = instantiate(s["value"])
            try:
                luaparse.parse_expr(v)
                rep.ob("GRAMMAR", name + "|value", True, "the inlinable value of IR::%s `%s` is a Lua expression" % (name, v))
            except luaparse.LuaSyntaxError as ex:
                rep.ob("GRAMMAR", name + "|value", False, "the inlinable value of IR::%s `%s` is not a Lua expression: %s" % (name, v, ex))
            # inlined values are substituted into larger expressions: they must be self-delimiting
            e = None
            try:
                e = luaparse.parse_expr(v)
            except luaparse.LuaSyntaxError:
                pass
            if e is not None:
                selfdel = e["k"] in ("Paren", "Call", "Name", "Number", "String", "Const", "Index", "Table")
                rep.ob("GRAMMAR", name + "|self-delimiting", selfdel,
                       "the inlinable value of IR::%s is %s, so substituting it as an operand cannot regroup" % (name, "parenthesised / atomic / a call" if selfdel else "an open operator expression"))
    # arms with a guard are alternatives for some payloads: the same obligations hold for their text
    for i, (name, guard, refs, gs) in enumerate(T.G):
        key = "%s?guard#%d" % (name, i + 1)
        if gs["dyn"]:
            rep.ob("GRAMMAR", key + "|analysable", False, "the guarded arm of IR::%s writes a part the evaluator cannot follow" % name)
            continue
        pre, suf = CONTEXT.get(name, ("", ""))
        text = instantiate(gs["parts_many"])
        try:
            if text.strip():
                luaparse.parse(pre + text + suf)
            if gs["value"] is not None:
                e = luaparse.parse_expr(instantiate(gs["value"]))
                if e["k"] not in ("Paren", "Call", "Name", "Number", "String", "Const", "Index", "Table"):
                    raise luaparse.LuaSyntaxError("not self-delimiting")
            rep.ob("GRAMMAR", key, True, "the guarded arm of IR::%s (`if %s`) writes `%s`: valid Lua, value self-delimiting" % (name, pp(guard), gs["text_many"]))
        except luaparse.LuaSyntaxError as ex:
            rep.ob("GRAMMAR", key, False, "the guarded arm of IR::%s (`if %s`) writes `%s`: %s" % (name, pp(guard), gs["text_many"], ex))
    # the prologue and the line terminator
    for ev in T.T.prologue:
        if ev[0] == "if-some":
            for e2 in ev[2]:
                if e2[0] == "write":
                    txt = instantiate(e2[1], raw="mod")
                    try:
                        luaparse.parse(txt)
                        rep.ob("GRAMMAR", "prologue|require", True, "`%s` is a Lua statement" % txt)
                    except luaparse.LuaSyntaxError as ex:
                        rep.ob("GRAMMAR", "prologue|require", False, "`%s`: %s" % (txt, ex))
    def blank_only(evs):
        return all((e[0] == "write" and not luatpl.render(e[1]).strip()) or (e[0] == "repeat" and blank_only(e[1])) for e in evs)
    rep.ob("GRAMMAR", "line-prefix", blank_only(T.T.loop_head), "before an instruction's text only indentation is written (%s)" % [e[0] for e in T.T.loop_head])
    tail = [luatpl.render(e[1]) for e in T.T.loop_tail if e[0] == "write"]
    rep.ob("GRAMMAR", "statement-separator", tail == ["\n"], "every instruction's text is followed by a newline (%r)" % tail)
    # the preamble itself
    try:
        ast = luaparse.parse(F.read("sylt-compiler/src/preamble.lua"))
        rep.ob("GRAMMAR", "preamble.lua", True, "preamble.lua parses (%d top-level statements)" % len(ast["stmts"]), sites=len(ast["stmts"]))
    except luaparse.LuaSyntaxError as ex:
        rep.ob("GRAMMAR", "preamble.lua", False, "preamble.lua does not parse: %s" % ex)


def lvalue(F, rep, T):
    """IRP-lvalue: Assign/AssignAccess/AssignIndex write `{expand:0} = ..`: the target text is whatever expand()
    returns; if the target was defined by an inlinable op used once, that is an expression, not a name"""
    n = 0
    for label, items, result, arm in T.all_templates():
        for lin in irp.linearisations(items):
            ops = [it for it, _ in irp.flat_ops(lin)]
            defs = {}
            for o in ops:
                s = T.S.get(o[1])
                if s and s["dest"] is not None and s["dest"] < len(o[2]):
                    defs.setdefault(o[2][s["dest"]], []).append(o[1])
            for o in ops:
                if o[1] != "Assign":
                    continue
                n += 1
                tgt = o[2][0]
                if tgt[0] != "fresh":
                    continue
                how = defs.get(tgt, [])
                inl = [d for d in how if T.S[d]["inlinable"]]
                key = "%s|Assign(%s)" % (label, tgt[1])
                if inl:
                    rep.ob("IRP-lvalue", key, False,
                           "template %s assigns to the temporary `%s`, which is defined by the inlinable IR::%s: when the "
                           "temporary has no other use the emitter writes the expression text at the l-value (e.g. "
                           "`false = false` for an unused `a and b`)" % (label, tgt[1], inl[0]), o[3])
                else:
                    rep.ob("IRP-lvalue", key, True, "template %s assigns to `%s`, which no inlinable op defines" % (label, tgt[1]), o[3])
            break
    rep.floor("IRP-lvalue", "Assign ops in templates", n, 8)
    s = T.S.get("Assign")
    rep.ob("IRP-lvalue", "emission|Assign", bool(s) and s["text_many"] == "{expand:0} = {expand:1}",
           "IR::Assign writes its target through expand(): `%s`" % (s["text_many"] if s else None))


def final(F, rep, T):
    for op in ("Return", "Break"):
        s = T.S.get(op)
        if not s:
            rep.anchor_missing("emission arm for IR::" + op)
            continue
        text = instantiate(s["parts_many"])
        # legal in the middle of a block?  put a statement after it
        ctx = ("while true do %s\nV1 = 1 end" if op == "Break" else "%s\nV1 = 1")
        try:
            luaparse.parse(ctx % text)
            ok = True
            why = ""
        except luaparse.LuaSyntaxError as ex:
            ok = False
            why = str(ex)
        rep.ob("IRP-final", op, ok,
               "IR::%s is written as `%s`%s" % (op, s["text_many"], " and may be followed by further statements" if ok else
                                                 ": Lua requires it to be the last statement of its block, but lowering emits ops after it "
                                                 "(`ret 1` followed by another statement; loop bodies) — " + why))


LUA_RESERVED = luaparse.RESERVED


LUA_ESCAPES = {"\\n": "\n", "\\r": "\r", "\\t": "\t", "\\\\": "\\", '\\"': '"', "\\0": "\0"}


def lex_safe(F, rep, T):
    tk = toks.TokenSpec(F)
    rep.floor("LEX-SAFE", "token patterns", len(tk.rules), 70)
    # (a) string payloads: Token::String -> EK::Str -> E::Str -> IR::Str -> "\"{}\""
    st = tk.rules.get("String")
    s = T.S.get("Str")
    if not st or not s:
        rep.anchor_missing("Token::String / IR::Str")
    else:
        chars = tk.payload_chars("String")
        # characters the emitter writes as escapes (`s.replace('\n', "\\n")`): not raw any more - provided the escape is one Lua reads
        # back as that character
        escaped = set()
        for part in s["value"] or []:
            if isinstance(part, tuple) and part[0] == "raw-escaped":
                for frm, to in part[2]:
                    if LUA_ESCAPES.get(to) == frm:
                        escaped.add(frm)
        bad = sorted(c for c in ('"', "\\", "\n", "\r") if c in chars and c not in escaped)
        quoted = luatpl.render(s["value"]) in ('"{raw:1}"', '"{raw-escaped:1}"')
        arms = [a for a in T.expr if a["label"] == "Str" and a["items"]]
        direct = bool(arms) and any(it[0] == "op" and it[1] == "Str" and it[2][1] == ("ast", "0") for it in arms[0]["items"])
        # the instance is "these characters can reach the Lua string raw": a known finding for backslash / line break must not
        # hide the day a quote can get there too
        key_bad = "".join({'"': "quote", "\\": "backslash", "\n": "LF", "\r": "CR"}[c] + "+" for c in bad).rstrip("+")
        rep.ob("LEX-SAFE", "Str|payload-alphabet" + ("|" + key_bad if bad else ""), quoted and direct and not bad,
               "string literal payloads (token pattern %s) are written verbatim between double quotes; characters that cannot "
               "appear raw in a Lua short string but can appear in the payload: %s%s" % (
                   st["pattern"], [repr(c) for c in bad] or "none",
                   "" if not bad else " — a Sylt string containing a newline or a backslash sequence yields an unloadable or "
                   "different Lua string; no escaping function lies between the token and the template"))
    # (b) identifiers written as bare Lua names
    idents = tk.identifier_language()
    lua_only = sorted(w for w in LUA_RESERVED if idents(w))
    sites = []
    for name, summ in sorted(T.S.items()):
        for part_i, p in enumerate(summ["parts_many"] + (summ["value"] or [])):
            pass
    bare = {"Access": "{expand:1}.{raw:2}", "AssignAccess": "{expand:0}.{raw:1} = {expand:2}", "External": "{expand:0} = {raw:1}"}
    for op, want in bare.items():
        s = T.S.get(op)
        text = luatpl.render(s["value"]) if s and s["value"] else (s["text_many"] if s else None)
        is_bare = text == want
        rep.ob("LEX-SAFE", "%s|bare-identifier" % op, not (is_bare and lua_only),
               "IR::%s writes a source identifier as a bare Lua name (`%s`); identifiers Sylt accepts that are reserved in Lua: %s" % (
                   op, text, lua_only or "none"))
    s = T.S.get("Blob")
    if s and s["value"]:
        t = luatpl.render(s["value"])
        is_bare = "{raw:('elem', 1, 0)} = " in t
        rep.ob("LEX-SAFE", "Blob|bare-identifier", not (is_bare and lua_only),
               "IR::Blob writes field names as bare table keys (`%s`); Sylt identifiers reserved in Lua: %s" % (t, lua_only or "none"))
    # (c) variant names and crash messages are inside quotes and drawn from identifier / digit alphabets
    s = T.S.get("Variant")
    idchars = tk.payload_chars("Identifier")
    rep.ob("LEX-SAFE", "Variant|quoted-identifier", bool(s) and '"{raw:1}"' in luatpl.render(s["value"]) and not ({'"', "\\", "\n"} & idchars),
           "variant names are identifiers written inside double quotes")
    s = T.S.get("HaltAndCatchFire")
    arms = [a for a in T.stmt if a["label"] == "Unreachable"]
    rep.ob("LEX-SAFE", "HaltAndCatchFire|message", bool(s) and s["text_many"] == '__CRASH("{raw:0}")()',
           "the unreachable message is written inside double quotes (`%s`); it is built from a fixed text and a line number" % (s["text_many"] if s else None))
    # .. which is decided where the message is made: every IR::HaltAndCatchFire the lowering builds carries a text put together
    # from literal pieces without quote, backslash or line break and from *numbers* - a file name, an identifier or any other
    # free text in it can close the Lua string (`5" disk/main.sy`, `src\\main.sy`)
    from hir import find_formats, binding_inits
    n_msg = 0
    for fn in F.fns_in("sylt_compiler::intermediate::"):
        inits = None
        for c in nodes(fn_body(fn), "Call"):
            if not (callee(c) or "").endswith("IR::HaltAndCatchFire") or not c.get("args"):
                continue
            n_msg += 1
            a = peel(c["args"][0])
            if a.get("k") == "Path" and a.get("res") == "Local":
                inits = inits or binding_inits(fn_body(fn))
                a = peel(inits.get(a["hid"]) or a)
            fmts = list(find_formats(a))
            bad = None
            if a.get("k") == "Lit":
                if set(str(a.get("v"))) & {'"', "\\", "\n", "\r"}:
                    bad = "the literal %r" % a.get("v")
            elif len(fmts) != 1:
                bad = "a text whose making cannot be followed (`%s`)" % pp(a)[:60]
            else:
                for part in fmts[0][1]:
                    if isinstance(part, str):
                        if set(part) & {'"', "\\", "\n", "\r"}:
                            bad = "the literal piece %r" % part
                    else:
                        ty = ((part.get("e") or {}).get("ty") or "").lstrip("&").strip()
                        if ty not in ("usize", "u8", "u16", "u32", "u64", "i8", "i16", "i32", "i64", "isize", "bool"):
                            bad = "`%s` of type %s (free text)" % (pp(part.get("e") or {})[:40], ty or "?")
            rep.ob("LEX-SAFE", "HaltAndCatchFire|message-made-of-fixed-text-and-numbers#%d" % n_msg, bad is None,
                   "the crash message is fixed text and numbers" if bad is None else
                   "the message of a crash instruction built in %s contains %s: it is written between double quotes without "
                   "escaping, so a quote, backslash or line break in it makes the emitted Lua unloadable (or a different string)" % (
                       last(fn["_path"], 2), bad), line_of(c))
    rep.floor("LEX-SAFE", "crash messages built by the lowering", n_msg, 1)
    # (d) numbers
    s = T.S.get("Int")
    it = tk.rules.get("Int")
    rep.ob("LEX-SAFE", "Int|digits", bool(s) and bool(it) and luatpl.render(s["value"]) == "{num:1}" and tk.payload_chars("Int") <= set("0123456789"),
           "int literals are non-negative digit strings parsed to i64 and written with Display")
    s = T.S.get("Float")
    rep.ob("LEX-SAFE", "Float|debug", bool(s) and luatpl.render(s["value"]) == "{num-debug:1}",
           "float literals are written with f64's Debug form (digits, '.', 'e', '-', or the identifiers inf/NaN: all Lua tokens)")
    # labels: Display of Label = L<n>
    lf = F.fn("sylt_compiler::intermediate::[Label as Display]::fmt")
    from hir import find_formats
    parts = [p for _, p in find_formats(fn_body(lf))]
    ok = len(parts) == 1 and parts[0][0] == "L" and len(parts[0]) == 2
    rep.ob("LEX-SAFE", "Label|name", ok, "labels are written as L<n>")
    vf = F.fn("sylt_compiler::intermediate::Var::format")
    parts = [p for _, p in find_formats(fn_body(vf))]
    rep.ob("LEX-SAFE", "Var|name", len(parts) == 1 and parts[0][0] == "V" and len(parts[0]) == 2, "variables are written as V<n>")


def no_expr_statement(F, rep, T):
    """an op either defines a local, is dropped when unused, or is a statement of its own"""
    for name, s in sorted(T.S.items()):
        if s["dest"] is not None:
            rep.ob("NO-EXPR-STATEMENT", name, s["droppable"] and s["text_many"].startswith("local {name:%d} = " % s["dest"]),
                   "IR::%s: unused -> nothing, used once -> inlined, otherwise `%s`" % (name, s["text_many"]) if s["droppable"] else
                   "IR::%s: when its value is unused the emitter still writes something on some path (an arm for use count 0 has a "
                   "write): the expression text (`%s`) alone on a line is not a Lua statement unless it happens to be a call"
                   % (name, s["text_many"]))
    s = T.S.get("Call")
    rep.ob("NO-EXPR-STATEMENT", "Call", bool(s) and s["text_many"].startswith("local {expand:0} = "),
           "a call is always bound: `%s`" % (s["text_many"] if s else None))
