"""Reader for the declaration layer of std/*.sy: externals, aliases, imports and the Sylt type syntax
(enough for names, arities and callback arities).  It does not use sylt's own parser."""
import re


class SyError(Exception):
    pass


TOK = re.compile(r"\s*(->|::|:=|[A-Za-z_][A-Za-z0-9_]*|\*|[\[\]\(\),:<>+=]|\S)")


def tokens(s):
    out = []
    i = 0
    while i < len(s):
        m = TOK.match(s, i)
        if not m:
            break
        out.append(m.group(1))
        i = m.end()
    return out


class TypeParser:
    """Sylt types: int float str bool void nil, *X, *, [T], (A, B), Name(args), fn/pu [<constraints>] params -> ret"""

    def __init__(self, toks):
        self.t = toks
        self.i = 0

    def peek(self):
        return self.t[self.i] if self.i < len(self.t) else None

    def nxt(self):
        x = self.peek()
        self.i += 1
        return x

    def parse(self):
        t = self.peek()
        if t in ("fn", "pu"):
            self.nxt()
            if self.peek() == "<":
                depth = 0
                while True:
                    x = self.nxt()
                    if x == "<":
                        depth += 1
                    elif x == ">":
                        depth -= 1
                        if depth == 0:
                            break
                    if x is None:
                        raise SyError("unterminated constraint list")
            params = []
            ret = ("void",)
            while True:
                p = self.peek()
                if p == "->":
                    self.nxt()
                    save = self.i
                    try:
                        ret = self.parse()
                    except SyError:
                        self.i = save
                        ret = ("void",)
                    break
                if p is None or p in (")", "]", ":", "="):
                    break
                params.append(self.parse())
                if self.peek() == ",":
                    self.nxt()
                elif self.peek() == "->":
                    continue
                else:
                    break
            return ("fn", t == "pu", params, ret)
        if t == "*":
            self.nxt()
            if self.peek() and re.fullmatch(r"[A-Za-z_][A-Za-z0-9_]*", self.peek()):
                return ("generic", self.nxt())
            return ("unknown",)
        if t == "[":
            self.nxt()
            inner = self.parse()
            if self.nxt() != "]":
                raise SyError("expected ]")
            return ("list", inner)
        if t == "(":
            self.nxt()
            items = []
            is_tuple = self.peek() in (",", ")")
            while self.peek() not in (")", None):
                if self.peek() == ",":
                    self.nxt()
                    is_tuple = True
                    continue
                items.append(self.parse())
                if self.peek() == ",":
                    is_tuple = True
            if self.nxt() != ")":
                raise SyError("expected )")
            if is_tuple or len(items) != 1:
                return ("tuple", items)
            return items[0]
        if t in ("int", "float", "str", "bool", "void", "nil"):
            self.nxt()
            return (t,)
        if t and re.fullmatch(r"[A-Za-z_][A-Za-z0-9_]*", t):
            name = self.nxt()
            while self.peek() == ".":
                self.nxt()
                name += "." + self.nxt()
            args = []
            if self.peek() == "(":
                self.nxt()
                while self.peek() not in (")", None):
                    if self.peek() == ",":
                        self.nxt()
                        continue
                    args.append(self.parse())
                self.nxt()
            return ("user", name, args)
        raise SyError("no type starts with %r" % t)


def parse_type(text):
    p = TypeParser(tokens(text))
    return p.parse()


EXTERNAL = re.compile(r"^([A-Za-z_][A-Za-z0-9_]*)\s*:\s*(.+?)\s*[:=]\s*external\s*$")
ALIAS = re.compile(r"^([A-Za-z_][A-Za-z0-9_]*)\s*::\s*([A-Za-z_][A-Za-z0-9_]*)\s*$")
DEF = re.compile(r"^([A-Za-z_][A-Za-z0-9_]*)\s*(::|:=|:[^:=]+[:=])")


def read_module(text):
    """dict(externals={name: type}, aliases={name: target}, defs=set(names), imports=[..])"""
    ext, aliases, defs, imports = {}, {}, set(), []
    for raw in text.split("\n"):
        line = raw.split("//")[0].rstrip()
        if not line or line[0].isspace():
            continue
        m = EXTERNAL.match(line)
        if m:
            ext.setdefault(m.group(1), []).append(parse_type(m.group(2)))
            defs.add(m.group(1))
            continue
        m = ALIAS.match(line)
        if m and m.group(2) not in ("blob", "enum", "fn", "pu", "externblob"):
            aliases[m.group(1)] = m.group(2)
            defs.add(m.group(1))
            continue
        m = DEF.match(line)
        if m:
            defs.add(m.group(1))
            continue
        if line.startswith(("from ", "use ")):
            imports.append(line)
    return dict(externals=ext, aliases=aliases, defs=defs, imports=imports)
