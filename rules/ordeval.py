"""Finite-model decision for library helpers that touch their arguments only through comparisons, negation and selection
(abs, min, max, clamp in std/math.sy; sign in preamble.lua).

Such a function is a decision tree over the order of the terms {x_i, -x_i, 0, small constants}; on every cell of that
order it returns one fixed term.  Two such functions agree everywhere iff they agree on one representative of every cell.
The rule (1) checks on the syntax tree that the definition really is of this kind - no arithmetic other than unary minus,
no other calls than to helpers of the same kind - and (2) evaluates definition and model on a grid that has a point in
every cell ({-2, -1, -1/2, 0, 1/2, 1, 2}^n, n <= 3).  Nothing of sylt or Lua is executed: the evaluator below interprets the
parsed definition text."""
import itertools
import re
from fractions import Fraction

import luaparse

GRID = [Fraction(-2), Fraction(-1), Fraction(-1, 2), Fraction(0), Fraction(1, 2), Fraction(1), Fraction(2)]
CMP = {"<": lambda a, b: a < b, ">": lambda a, b: a > b, "<=": lambda a, b: a <= b, ">=": lambda a, b: a >= b,
       "==": lambda a, b: a == b, "!=": lambda a, b: a != b, "~=": lambda a, b: a != b}


class NotComparisonOnly(Exception):
    pass


# ----------------------------------------------------------------------------------------------------- sylt subset

TOK = re.compile(r"\s*(?:(//[^\n]*)|(\n)|(\d+\.\d+|\d+)|([A-Za-z_][A-Za-z0-9_]*)|(->|<=|>=|==|!=|[-+*/<>(),:.']))")


def sy_tokens(text):
    out, i = [], 0
    while i < len(text):
        m = TOK.match(text, i)
        if not m:
            if text[i:].strip() == "":
                break
            raise NotComparisonOnly("cannot tokenise %r" % text[i:i + 20])
        i = m.end()
        if m.group(1):
            continue
        if m.group(2):
            out.append(("nl", "\n"))
        elif m.group(3):
            out.append(("num", m.group(3)))
        elif m.group(4):
            out.append(("kw" if m.group(4) in ("if", "do", "else", "elif", "end", "pu", "fn", "ret", "and", "or", "not") else "name", m.group(4)))
        else:
            out.append(("op", m.group(5)))
    return out


class SyParser:
    def __init__(self, toks):
        self.t, self.i = toks, 0

    def peek(self, skip_nl=True):
        j = self.i
        while skip_nl and j < len(self.t) and self.t[j][0] == "nl":
            j += 1
        return self.t[j] if j < len(self.t) else ("eof", "")

    def nxt(self, skip_nl=True):
        while skip_nl and self.i < len(self.t) and self.t[self.i][0] == "nl":
            self.i += 1
        tok = self.t[self.i] if self.i < len(self.t) else ("eof", "")
        self.i += 1
        return tok

    def expect(self, v):
        tok = self.nxt()
        if tok[1] != v:
            raise NotComparisonOnly("expected %r, got %r" % (v, tok[1]))

    def block(self, stops):
        """statements up to one of the stop keywords; value = the last expression"""
        last = None
        while self.peek()[1] not in stops and self.peek()[0] != "eof":
            if self.peek()[1] == "ret":
                self.nxt()
                return ("ret", self.expr())
            last = self.expr()
        if last is None:
            raise NotComparisonOnly("empty block")
        return last

    def expr(self):
        if self.peek()[1] == "if":
            return self.if_expr()
        return self.comparison()

    def if_expr(self):
        self.expect("if")
        clauses = []
        c = self.expr()
        self.expect("do")
        clauses.append((c, self.block(("else", "elif", "end"))))
        other = None
        while True:
            k = self.nxt()[1]
            if k == "elif":
                c = self.expr()
                self.expect("do")
                clauses.append((c, self.block(("else", "elif", "end"))))
            elif k == "else":
                self.expect("do")
                other = self.block(("end",))
                self.expect("end")
                break
            elif k == "end":
                break
            else:
                raise NotComparisonOnly("unexpected %r in if" % k)
        return ("if", clauses, other)

    def comparison(self):
        l = self.unary()
        if self.peek(False)[1] in CMP:
            op = self.nxt()[1]
            return ("cmp", op, l, self.unary())
        if self.peek(False)[0] == "op" and self.peek(False)[1] in ("+", "*", "/") or \
                (self.peek(False)[1] == "-" and self.peek(False)[0] == "op"):
            raise NotComparisonOnly("arithmetic operator %r" % self.peek(False)[1])
        return l

    def unary(self):
        if self.peek()[1] == "-":
            self.nxt()
            return ("neg", self.unary())
        return self.primary()

    def primary(self):
        k, v = self.nxt()
        if k == "num":
            return ("num", Fraction(v))
        if k == "name":
            if self.peek(False)[1] == "(":
                self.nxt()
                args = []
                while self.peek()[1] != ")":
                    args.append(self.expr())
                    if self.peek()[1] == ",":
                        self.nxt()
                self.expect(")")
                return ("call", v, args)
            return ("var", v)
        if v == "(":
            e = self.expr()
            self.expect(")")
            return e
        raise NotComparisonOnly("unexpected %r" % v)


def sy_function(text, name):
    """(params, body AST) of `name : .. : pu a, b -> .. end` / `name :: pu a, b -> .. end` in a std file"""
    m = re.search(r"^%s\s*:[^\n]*?\b(?:pu|fn)\s+([^\n]*?)->" % re.escape(name), text, flags=re.M)
    if not m:
        return None
    params = [p.split(":")[0].strip() for p in m.group(1).split(",") if p.strip()]
    rest = text[m.end():]
    endm = re.search(r"^end\b", rest, flags=re.M)
    if not endm:
        return None
    body = rest[:endm.start()]
    # `-> RET do` form: not used by the helpers decided here
    p = SyParser(sy_tokens(body))
    ast = p.block(())
    return params, ast


def sy_eval(ast, env, funcs, depth=0):
    k = ast[0]
    if depth > 20:
        raise NotComparisonOnly("recursion")
    if k == "num":
        return ast[1]
    if k == "var":
        if ast[1] not in env:
            raise NotComparisonOnly("free name %s" % ast[1])
        return env[ast[1]]
    if k == "neg":
        return -sy_eval(ast[1], env, funcs, depth)
    if k == "cmp":
        return CMP[ast[1]](sy_eval(ast[2], env, funcs, depth), sy_eval(ast[3], env, funcs, depth))
    if k == "ret":
        return sy_eval(ast[1], env, funcs, depth)
    if k == "if":
        for c, b in ast[1]:
            if sy_eval(c, env, funcs, depth) is True:
                return sy_eval(b, env, funcs, depth)
        if ast[2] is None:
            raise NotComparisonOnly("if without else used as a value")
        return sy_eval(ast[2], env, funcs, depth)
    if k == "call":
        if ast[1] not in funcs:
            raise NotComparisonOnly("call of %s, which is not one of the helpers decided here" % ast[1])
        params, body = funcs[ast[1]]
        args = [sy_eval(a, env, funcs, depth) for a in ast[2]]
        if len(args) != len(params):
            raise NotComparisonOnly("arity of %s" % ast[1])
        return sy_eval(body, dict(zip(params, args)), funcs, depth + 1)
    raise NotComparisonOnly("construct %s" % k)


# ----------------------------------------------------------------------------------------------------- lua subset

class LuaReturn(Exception):
    def __init__(self, v):
        self.v = v


def lua_eval_expr(e, env):
    k = e.get("k")
    if k == "Number":
        return Fraction(str(e["v"])) if not isinstance(e["v"], Fraction) else e["v"]
    if k == "Name":
        if e["name"] not in env:
            raise NotComparisonOnly("free name %s" % e["name"])
        return env[e["name"]]
    if k == "Paren":
        return lua_eval_expr(e["e"], env)
    if k == "Unop":
        if e["op"] == "-":
            return -lua_eval_expr(e["e"], env)
        if e["op"] == "not":
            return not lua_eval_expr(e["e"], env)
        raise NotComparisonOnly("operator %s" % e["op"])
    if k == "Binop":
        if e["op"] in CMP:
            return CMP[e["op"]](lua_eval_expr(e["l"], env), lua_eval_expr(e["r"], env))
        if e["op"] == "and":
            return lua_eval_expr(e["l"], env) and lua_eval_expr(e["r"], env)
        if e["op"] == "or":
            return lua_eval_expr(e["l"], env) or lua_eval_expr(e["r"], env)
        raise NotComparisonOnly("arithmetic operator %s" % e["op"])
    if k == "Call":
        # math.max / math.min / math.abs select one of their arguments (or its negation): still comparison-only
        f = e["f"]
        if f.get("k") == "Index" and f["obj"].get("k") == "Name" and f["obj"]["name"] == "math" and f["key"].get("k") == "String":
            name = f["key"]["v"]
            args = [lua_eval_expr(a, env) for a in e["args"]]
            if name == "max" and args:
                return max(args)
            if name == "min" and args:
                return min(args)
            if name == "abs" and len(args) == 1:
                return abs(args[0])
        raise NotComparisonOnly("call of %s" % luaparse.show(f))
    raise NotComparisonOnly("construct %s" % k)


def lua_exec(block, env):
    for st in block["stmts"]:
        k = st.get("k")
        if k == "Return":
            raise LuaReturn(lua_eval_expr(st["es"][0], env) if st["es"] else None)
        if k == "If":
            done = False
            for c, b in st["clauses"]:
                if c is None or lua_eval_expr(c, env) is True:
                    lua_exec(b, env)
                    done = True
                    break
            if not done and st.get("els") is not None:
                lua_exec(st["els"], env)
            continue
        if k == "Local" and len(st["names"]) == len(st["es"]):
            for n_, e_ in zip(st["names"], st["es"]):
                env[n_] = lua_eval_expr(e_, env)
            continue
        raise NotComparisonOnly("statement %s" % k)


def lua_call(f, args):
    env = dict(zip(f["params"], args))
    try:
        lua_exec(f["body"], env)
    except LuaReturn as r:
        return r.v
    return None


# ----------------------------------------------------------------------------------------------------- the rule

MODELS = {
    "abs": (1, lambda n: abs(n), None),
    "min": (2, lambda a, b: min(a, b), None),
    "max": (2, lambda a, b: max(a, b), None),
    "clamp": (3, lambda x, lo, hi: min(hi, max(x, lo)), lambda x, lo, hi: lo <= hi),
    "sign": (1, lambda x: Fraction(1) if x > 0 else Fraction(-1) if x < 0 else Fraction(0), None),
}


def decide(F, rep, lua, rule="ORDER-MODEL"):
    text = F.read("std/math.sy")
    funcs = {}
    problems = {}
    for name in ("abs", "min", "max", "clamp"):
        try:
            fn = sy_function(text, name)
            if fn is None:
                problems[name] = "definition not found in std/math.sy"
            else:
                funcs[name] = fn
        except NotComparisonOnly as e:
            problems[name] = str(e)
    n = 0
    for name, (arity, model, pre) in sorted(MODELS.items()):
        n += 1
        where = "std/math.sy" if name != "sign" else "sylt-compiler/src/preamble.lua"
        if name in problems:
            rep.ob(rule, "%s|comparison-only" % name, True,
                   "NOT DECIDED: %s is not a definition made of comparisons, negation and selection only (%s): the finite-model "
                   "argument does not apply (an equivalent definition that uses arithmetic must not raise an alarm)" % (name, problems[name]), where)
            rep.info("ORDER-MODEL: %s not decided (%s)" % (name, problems[name]))
            continue
        bad = None
        cells = 0
        try:
            for args in itertools.product(GRID, repeat=arity):
                if pre is not None and not pre(*args):
                    continue
                cells += 1
                if name == "sign":
                    g = lua.globals.get("sign")
                    if not g or g[0] != "function":
                        raise NotComparisonOnly("no Lua function `sign`")
                    got = lua_call(g[1], list(args))
                else:
                    params, body = funcs[name]
                    if len(params) != arity:
                        raise NotComparisonOnly("arity %d" % len(params))
                    got = sy_eval(body, dict(zip(params, args)), funcs)
                want = model(*args)
                if got != want:
                    bad = (args, got, want)
                    break
        except NotComparisonOnly as e:
            rep.ob(rule, "%s|comparison-only" % name, True,
                   "NOT DECIDED: %s is not a definition made of comparisons, negation and selection only (%s): the finite-model "
                   "argument does not apply (an equivalent definition that uses arithmetic must not raise an alarm)" % (name, e), where)
            rep.info("ORDER-MODEL: %s not decided (%s)" % (name, e))
            continue
        rep.ob(rule, "%s|agrees-with-the-model-on-every-order-cell" % name, bad is None,
               "%s agrees with its model on all %d order cells of its arguments" % (name, cells) if bad is None else
               "%s(%s) is %s, the model says %s - and with it on the whole cell of arguments ordered like these" % (
                   name, ", ".join(str(a) for a in bad[0]), bad[1], bad[2]), where, sites=cells)
    rep.floor(rule, "comparison-only helpers decided", n, 5)
