"""Witness corpus (thorough tier): for each stored one-edit mutant of sylt, apply it to a scratch copy of /repo's
current working tree, re-analyse, and record whether the named rule instance fires (or, for behaviour-preserving
twins, whether the checks stay silent).  Results go into the evidence; they never change the exit status."""
import concurrent.futures
import json
import os
import shutil
import subprocess
import tempfile

VERIF = os.path.dirname(os.path.dirname(os.path.abspath(__file__)))
WITNESS = os.path.join(VERIF, "witness")


SEEDED = os.path.join(VERIF, "seeded")
TWINS = os.path.join(VERIF, "twins")


def load(prop):
    """one-edit mutants and twins (witness/*.json), the seeded changes written against this property by independent
    sub-agents (seeded/*/patch.diff: must be reported, unless neutralised by a later fix) and the behaviour-preserving
    maintenance patches (twins/*.diff: must stay silent for every property)"""
    out = []
    if os.path.isdir(WITNESS):
        for f in sorted(os.listdir(WITNESS)):
            if not f.endswith(".json"):
                continue
            w = json.load(open(os.path.join(WITNESS, f)))
            w["name"] = f[:-5]
            if prop in w["properties"]:
                out.append(w)
    if os.path.isdir(SEEDED):
        for d in sorted(os.listdir(SEEDED)):
            mp = os.path.join(SEEDED, d, "meta.json")
            pp_ = os.path.join(SEEDED, d, "patch.diff")
            if not (os.path.exists(mp) and os.path.exists(pp_)):
                continue
            m = json.load(open(mp))
            if m.get("property") != prop:
                continue
            out.append(dict(name="seeded/" + d, properties=[prop], patch=pp_,
                            expect="silent" if m.get("obsolete") else [""]))
    if os.path.isdir(TWINS) and not os.environ.get("VERIF_NO_TWINS"):
        for f in sorted(os.listdir(TWINS)):
            if f.endswith(".diff"):
                out.append(dict(name="twins/" + f[:-5], properties=[prop], patch=os.path.join(TWINS, f), expect="silent"))
    return out


def run_one(w, prop, repo):
    tmp = tempfile.mkdtemp(prefix="sylt-witness-", dir=os.environ.get("VERIF_TMP", "/var/tmp"))
    try:
        src = os.path.join(tmp, "src")
        r = subprocess.run(["rsync", "-a", "--exclude", "/target", "--exclude", ".git", repo + "/", src + "/"])
        if r.returncode != 0:
            return w["name"], "skipped", "rsync failed"
        if w.get("patch"):
            r = subprocess.run(["git", "apply", w["patch"]], cwd=src, stdout=subprocess.PIPE, stderr=subprocess.STDOUT, text=True)
            if r.returncode != 0:
                return w["name"], "skipped", "patch does not apply to the current tree"
        for ed in w.get("edits", []):
            p = os.path.join(src, ed["file"])
            if not os.path.exists(p):
                return w["name"], "skipped", "file missing: " + ed["file"]
            s = open(p, encoding="utf-8").read()
            if s.count(ed["old"]) != ed.get("count", 1):
                return w["name"], "skipped", "edit anchor not found exactly %d time(s) in %s" % (ed.get("count", 1), ed["file"])
            open(p, "w", encoding="utf-8").write(s.replace(ed["old"], ed["new"]))
        ev = os.path.join(tmp, "ev")
        os.makedirs(ev)
        env = dict(os.environ, VERIF_REPO=src, VERIF_EVIDENCE_DIR=ev, VERIF_TIER="quick", VERIF_CACHE=os.path.join(tmp, "cache"), VERIF_TMP=tmp)
        r = subprocess.run([os.path.join(VERIF, "check"), prop, "--tier", "quick"], cwd=VERIF, env=env,
                           stdout=subprocess.PIPE, stderr=subprocess.STDOUT, text=True)
        keys = []
        for line in r.stdout.split("\n"):
            line = line.strip()
            if line.startswith("rule=") and " key=" in line:
                rule, key = line[5:].split(" key=", 1)
                keys.append(rule + "|" + key)
        if r.returncode == 2:
            return w["name"], "infra", r.stdout[-400:]
        expect = w["expect"]
        if expect == "silent":
            return w["name"], ("silent" if not keys else "false-alarm"), keys
        hit = [k for k in keys if any(k.startswith(e) for e in expect)]
        return w["name"], ("fired" if hit else "missed"), keys
    finally:
        shutil.rmtree(tmp, ignore_errors=True)


def run_for(prop, rep, repo):
    ws = load(prop)
    if not ws:
        rep.extra["witness"] = {"mutants": 0}
        return
    res = {"fired": [], "missed": [], "silent": [], "false-alarm": [], "skipped": [], "infra": []}
    with concurrent.futures.ThreadPoolExecutor(max_workers=int(os.environ.get("VERIF_JOBS", "8"))) as ex:
        for name, status, detail in ex.map(lambda w: run_one(w, prop, repo), ws):
            res[status].append({"mutant": name, "detail": detail} if status in ("missed", "false-alarm", "skipped", "infra") else name)
    rep.extra["witness"] = {
        "mutants": len(ws),
        "witness_fired": res["fired"], "witness_missed": res["missed"], "witness_silent": res["silent"],
        "witness_false_alarm": res["false-alarm"], "witness_skipped": res["skipped"], "witness_infra": res["infra"],
        "note": "each mutant is one edit applied to a scratch copy of the current tree; `fired` = the named rule instance "
                "reported it, `silent` = a behaviour-preserving twin raised no alarm",
    }
    print("witness corpus for %s: %d mutants: %d fired, %d missed, %d silent twins, %d false alarms, %d skipped" % (
        prop, len(ws), len(res["fired"]), len(res["missed"]), len(res["silent"]), len(res["false-alarm"]), len(res["skipped"])))
