"""Binding origins and a simple may-flow ("derived from") relation inside one function body."""
from hir import walk, nodes, peel, pat_bindings, pat_strip, children, callee, norm_path


def _pat_paths(p, path=()):
    """yield (binding node, access path) for all bindings in pattern p; path elements are
    ('variant', V, field) / ('tuple', i) / ('ref',) / ('slice',)"""
    if not isinstance(p, dict):
        return
    k = p.get("k")
    if k == "Binding":
        yield p, path
        if p.get("sub"):
            yield from _pat_paths(p["sub"], path)
    elif k == "Struct":
        for f in p["fields"]:
            yield from _pat_paths(f["pat"], path + (("field", norm_path(p["path"]), f["name"]),))
    elif k == "TupleStruct":
        for i, x in enumerate(p["pats"]):
            idx = i
            if p.get("dd") is not None and i >= p["dd"]:
                idx = -(len(p["pats"]) - i)  # counted from the end
            yield from _pat_paths(x, path + (("field", norm_path(p["path"]), str(idx)),))
    elif k == "Tuple":
        for i, x in enumerate(p["pats"]):
            yield from _pat_paths(x, path + (("tuple", i),))
    elif k == "Or":
        for x in p["pats"]:
            yield from _pat_paths(x, path)
    elif k in ("Ref", "Box", "Deref", "GuardPat"):
        yield from _pat_paths(p["pat"], path)
    elif k == "Slice":
        for x in p["before"] + ([p["mid"]] if p.get("mid") else []) + p["after"]:
            yield from _pat_paths(x, path + (("slice",),))


class Flow:
    """origins of every local binding of one function"""

    def __init__(self, fn, body=None):
        self.fn = fn
        self.body = body if body is not None else fn["body"]
        self.origin = {}  # hid -> dict(kind=..., src=expr|None, path=..., node=...)
        self.names = {}
        for i, prm in enumerate(fn.get("params", [])):
            for b, path in _pat_paths(prm["pat"]):
                self._set(b, dict(kind="param", index=i, src=None, path=path, node=prm))
        self._scan(self.body)

    def _set(self, b, o):
        self.origin[b["hid"]] = o
        self.names[b["hid"]] = b["name"]
        o["binding"] = b

    def _scan(self, root):
        for n, parents in walk(root):
            k = n.get("k")
            if k == "Block":
                for st in n["stmts"]:
                    if st.get("k") == "Let":
                        init = st.get("init")
                        tup = peel(init) if isinstance(init, dict) else None
                        for b, path in _pat_paths(st["pat"]):
                            # `let (a, b) = (x, y)`: each binding has its own initialiser
                            if path and path[0][0] == "tuple" and isinstance(tup, dict) and tup.get("k") == "Tup" and \
                                    path[0][1] < len(tup.get("es") or []):
                                self._set(b, dict(kind="let", src=tup["es"][path[0][1]], path=path[1:], node=st))
                                continue
                            self._set(b, dict(kind="let", src=init, path=path, node=st))
            elif k == "Match":
                for arm in n["arms"]:
                    for b, path in _pat_paths(arm["pat"]):
                        self._set(b, dict(kind="arm", src=n["scrut"], path=path, node=n, arm=arm))
            elif k == "LetCond":
                for b, path in _pat_paths(n["pat"]):
                    self._set(b, dict(kind="iflet", src=n["init"], path=path, node=n))
            elif k == "ForLoop":
                for b, path in _pat_paths(n["pat"]):
                    self._set(b, dict(kind="for", src=n["iter"], path=path, node=n))
            elif k == "Closure":
                # the closure is usually an argument of a method call: its parameters are fed by the
                # receiver / other arguments of that call
                par = parents[-1] if parents else None
                src = None
                if par is not None and par.get("k") == "MethodCall":
                    src = par["recv"]
                elif par is not None and par.get("k") == "Call":
                    src = par
                for i, p in enumerate(n["params"]):
                    for b, path in _pat_paths(p):
                        self._set(b, dict(kind="closure", src=src, path=path, node=n, index=i, call=par))

    # ---- may-flow
    def derived(self, seeds):
        """set of binding hids that may carry (part of) the value of any seed hid"""
        t = set(seeds)
        changed = True
        while changed:
            changed = False
            for hid, o in self.origin.items():
                if hid in t:
                    continue
                src = o.get("src")
                if src is None:
                    continue
                if o["kind"] == "closure" and o.get("call") is not None:
                    # any argument / receiver of the adaptor call feeding the closure
                    srcs = [o["call"].get("recv")] + [a for a in o["call"].get("args", []) if a.get("k") != "Closure"]
                else:
                    srcs = [src]
                if any(self.mentions(s, t) for s in srcs if s is not None):
                    t.add(hid)
                    changed = True
        return t

    @staticmethod
    def mentions(e, hids):
        for x in nodes(e, "Path"):
            if x.get("res") == "Local" and x["hid"] in hids:
                return True
        return False

    def trace(self, e, depth=12):
        """follow a local through trivial lets: returns the expression a local was initialised with
        (peeling &, clone, ...) until something that is not a plain local"""
        from hir import peel_clone
        e = peel_clone(e)
        while depth > 0 and isinstance(e, dict) and e.get("k") == "Path" and e.get("res") == "Local":
            o = self.origin.get(e["hid"])
            if not o or o["kind"] != "let" or o["path"] != () or o["src"] is None:
                break
            e = peel_clone(o["src"])
            depth -= 1
        return e

    def origin_of(self, e):
        from hir import peel_clone
        e = peel_clone(e)
        if isinstance(e, dict) and e.get("k") == "Path" and e.get("res") == "Local":
            return self.origin.get(e["hid"])
        return None


def uncond_nodes(n):
    """sub-nodes of n that are evaluated whenever n is evaluated to completion without an early exit:
    does not descend into if/match branches, closure bodies, loop bodies, or the rhs of && / ||"""
    if isinstance(n, list):
        for x in n:
            yield from uncond_nodes(x)
        return
    if not isinstance(n, dict):
        return
    yield n
    k = n.get("k")
    if k == "If":
        yield from uncond_nodes(n["c"])
        return
    if k == "Match":
        yield from uncond_nodes(n["scrut"])
        return
    if k in ("Closure",):
        return
    if k == "ForLoop":
        yield from uncond_nodes(n["iter"])
        return
    if k == "While":
        return
    if k == "Loop":
        return
    if k == "Binary" and n.get("op") in ("And", "Or"):
        yield from uncond_nodes(n["l"])
        return
    if k is None and "pat" in n and "body" in n:
        return
    for c in children(n):
        yield from uncond_nodes(c)
