"""C16 — compilation is deterministic (DESIGN §4 C16, engine HASH §3.9)."""
import re

from hir import nodes, walk, fn_body, callee, last, line_of, find_formats, norm_path, peel
from engines import strip_ty

EXPLANATION = (
    "Decides the clause 'no hash-iteration order and no ambient source reaches the output or the error list': "
    "(HASH) every place where a std HashMap/HashSet is iterated (iter/keys/values/into_iter/drain or a for loop) in the "
    "five workspace crates is followed to its terminal consumer and must end in an order-insensitive sink "
    "(collect into a map/set with infallible pure closures, min/max/sum/count/all/any over pure closures); "
    "(HASH-fmt) no hash collection is rendered with {:?}/{} ; (AMBIENT) no address turned into text or a number ({:p}, pointer-to-integer casts), no call into std::time, std::env, std::thread, "
    "std::process::id, rand or a RandomState constructor other than the collections' own default from the parser / "
    "compiler / common / tokenizer crates; (GLOBAL-STATE) those crates define no `static mut`/thread-local state that "
    "could carry information between compilations."
)
UNDECIDED = "byte-identity of the emitted Lua as such (follows only if the remaining code is a function of its inputs, which Rust's semantics give for safe code without the excluded sources); ordering effects inside std's BTreeMap are trusted."

MANIFEST = dict(
    text=EXPLANATION + " Not decided: " + UNDECIDED,
    technique="hash-order taint: source census of HashMap/HashSet iteration + terminal-sink classification over resolved HIR; who-may-call rule for ambient sources",
)

HASH_TY = re.compile(r"^std::collections::hash::(map::HashMap|set::HashSet)\b|^hashbrown::")
ITER_METHODS = {"iter", "iter_mut", "keys", "values", "values_mut", "into_iter", "drain", "into_keys", "into_values",
                # the set-algebra adaptors of HashSet are lazy iterators in the receiver's hash order
                "difference", "symmetric_difference", "intersection", "union", "extract_if", "drain_filter"}
INSENSITIVE_TERMINALS = {"min", "max", "sum", "count", "all", "any", "len", "is_empty", "product"}
ORDERED_TARGETS = ("HashMap<", "HashSet<", "BTreeMap<", "BTreeSet<")
ANALYSED_CRATES = ["sylt_compiler", "sylt_parser", "sylt_common", "sylt_tokenizer", "sylt"]
AMBIENT_PREFIXES = ("std::time::", "std::env::", "std::thread::", "std::process::id", "rand::", "std::hash::random::",
                    "std::collections::hash_map::RandomState", "std::fs::read_dir", "std::fs::metadata", "std::fs::symlink_metadata",
                    "std::io::stdin", "std::io::stdio::stdin", "std::net::", "std::os::", "std::process::Command",
                    "std::sys::", "std::backtrace::", "std::panic::Location", "core::panic::location::Location::caller",
                    "std::alloc::", "core::sync::atomic::", "std::sync::atomic::")
INT_TYPES = ("usize", "u64", "u32", "u128", "isize", "i64", "i32", "i128", "u16", "i16", "u8", "i8")


def no_unsafe(F, rep, rule):
    n_unsafe = 0
    for fn in F.own_fns(ANALYSED_CRATES):
        for b in nodes(fn_body(fn), "Block"):
            if b.get("unsafe"):
                n_unsafe += 1
                rep.ob(rule, "%s|unsafe-block" % last(fn["_path"], 2), False,
                       "an `unsafe` block in the compile path: uninitialised memory, data races and out-of-bounds reads are sources of "
                       "run-to-run differences and of crashes that none of the other rules sees", line_of(b))
    rep.ob(rule, "no-unsafe-code", n_unsafe == 0, "the five crates contain no user-written `unsafe` block (%d)" % n_unsafe, sites=n_unsafe)


def is_hash_ty(t):
    return bool(HASH_TY.match(strip_ty(t)))


def yields_hash_iterator(n):
    """any method of a hash collection whose result is one of std's hash-order iterator types (whatever it is called)"""
    t = (n.get("ty") or "").lstrip("&").replace("mut ", "")
    return t.startswith(("std::collections::hash::map::", "std::collections::hash::set::", "hashbrown::")) and \
        not t.startswith(("std::collections::hash::map::HashMap", "std::collections::hash::set::HashSet",
                          "std::collections::hash::map::Entry", "std::collections::hash::map::OccupiedEntry",
                          "std::collections::hash::map::VacantEntry"))


def closure_impure(c):
    """a closure in an iterator chain is impure/fallible if it contains `?`, an assignment, or a call
    through a `&mut` receiver (push/insert/push_type ...)"""
    for x in nodes(c["body"]):
        k = x.get("k")
        if k in ("Try", "Assign", "AssignOp", "Ret"):
            return "contains `%s`" % k
        if k == "MethodCall" and x.get("recv_ty", "").startswith("&mut"):
            return "calls %s through &mut" % x["m"]
    return None


def run(F, rep, tier):
    rep.explanation = EXPLANATION
    rep.undecided = UNDECIDED
    n_src = 0
    n_fmt = 0
    for fn in F.own_fns(ANALYSED_CRATES):
        if fn["_path"].startswith("sylt::formatter"):
            continue  # the source formatter is not part of compilation
        rep.analysed(fn)
        body = fn_body(fn)
        fname = last(fn["_path"], 2)
        # ---- HASH sources
        for n, parents in walk(body):
            k = n.get("k")
            if k == "MethodCall" and is_hash_ty(n.get("recv_ty", "")) and (n["m"] in ITER_METHODS or yields_hash_iterator(n)):
                n_src += 1
                classify(rep, fname, n, parents)
            elif k == "ForLoop" and is_hash_ty(n.get("iter_ty", "")):
                # `for x in &map` (an explicit .iter() receiver is caught above)
                it = peel(n["iter"])
                if it.get("k") == "MethodCall" and it["m"] in ITER_METHODS:
                    continue
                n_src += 1
                rep.ob("HASH", "%s|for-loop over %s" % (fname, _short(n["iter_ty"])), False,
                       "for loop over a hash collection: the body runs in hash order (type-node numbering / first error / "
                       "output order depend on the hash seed)", line_of(n))
        # ---- Debug/Display of hash collections
        for call, parts in find_formats(body):
            for p in parts:
                if isinstance(p, dict) and p.get("e") is not None:
                    n_fmt += 1
                    t = p["e"].get("ty", "")
                    if "HashMap<" in t or "HashSet<" in t:  # any path ending in HashMap/HashSet
                        rep.ob("HASH-fmt", "%s|%s" % (fname, _short(t)), False,
                               "a hash collection is formatted into text (iteration order is seed-dependent)", line_of(call))
        # ---- addresses: where a value lives differs from run to run (ASLR, allocator state)
        if fn["_crate"] != "sylt":
            for call, parts in find_formats(body):
                for p in parts:
                    if isinstance(p, dict) and str(p.get("spec", "")).lower().startswith("pointer"):
                        rep.ob("AMBIENT", "%s|{:p}" % fname, False, "an address is formatted into text with {:p}: it differs between processes", line_of(call))
            for c in nodes(body, "Cast"):
                inner = (peel(c["e"]).get("ty") or "").strip()
                outer = (c.get("ty") or "").strip()
                if inner.startswith(("*const", "*mut", "&")) and outer in INT_TYPES:
                    rep.ob("AMBIENT", "%s|address-as-integer" % fname, False,
                           "`%s as %s` turns an address into a number: ids, orderings or hashes derived from it differ between processes" % (inner[:40], outer),
                           line_of(c))
            for c in nodes(body, "MethodCall"):
                rt = (c.get("recv_ty") or "").strip()
                if c["m"] in ("addr", "expose_provenance", "expose_addr") and rt.startswith(("*const", "*mut")):
                    rep.ob("AMBIENT", "%s|pointer.%s()" % (fname, c["m"]), False, "the address of a value is read as a number", line_of(c))
        # ---- ambient sources
        if fn["_crate"] != "sylt":
            for c in nodes(body):
                if c.get("k") in ("Call", "MethodCall"):
                    cal = callee(c) or ""
                    if cal.startswith(AMBIENT_PREFIXES):
                        rep.ob("AMBIENT", "%s|%s" % (fname, cal), False,
                               "compile path consults an ambient source: %s" % cal, line_of(c))
    # the argument `safe Rust without these sources is a function of its inputs` needs the code to be safe Rust
    no_unsafe(F, rep, "AMBIENT")
    rep.ob("HASH-fmt", "census", True, "%d formatted arguments inspected; none is a HashMap/HashSet" % n_fmt, sites=n_fmt)
    rep.floor("HASH", "hash-iteration sources", n_src, 4)
    # positive control for the ambient matcher: the driver crate `sylt` starts `lua` via std::process::Command
    pc = 0
    for fn in F.own_fns(["sylt"]):
        for c in nodes(fn_body(fn)):
            if c.get("k") in ("Call", "MethodCall") and (callee(c) or "").startswith("std::process::Command"):
                pc += 1
    rep.ob("AMBIENT", "positive-control", pc >= 1,
           "matcher control: resolved std::process::Command calls found in crate sylt (%d)" % pc, sites=pc)
    n_calls = sum(1 for fn in F.own_fns(ANALYSED_CRATES[:4]) for c in nodes(fn_body(fn)) if c.get("k") in ("Call", "MethodCall"))
    rep.ob("AMBIENT", "census", True, "%d resolved calls in parser/compiler/common/tokenizer inspected" % n_calls, sites=n_calls)
    # ---- global mutable state
    n_static = 0
    for crate in ANALYSED_CRATES[:4]:
        for fn in F.crates[crate]["fns"]:
            if fn["kind"].startswith("Static"):
                n_static += 1
                t = fn.get("ty", "?")
                mutable = "mutability: Mut" in fn["kind"]
                interior = re.search(r"\b(Cell|RefCell|Mutex|RwLock|Atomic\w+|OnceLock|OnceCell|LazyLock|LocalKey|UnsafeCell)\b", t)
                rep.ob("GLOBAL-STATE", "%s|%s" % (crate, last(norm_path(fn["def"]), 2)), not mutable and not interior,
                       "static item of type `%s`%s" % (t[:60], " is mutable or has interior mutability: state could survive "
                                                       "between compilations" if (mutable or interior) else " is immutable data"),
                       fn["sp"])
    rep.ob("GLOBAL-STATE", "census", True, "%d static items of the four compile-path crates enumerated" % n_static, sites=n_static)
    # "independent of how many compilations ran before": the one piece of state that does survive a compilation is the output
    # file itself - it has to be opened so that nothing of an earlier, longer output is left behind (the C20 instance)
    import core
    import c20
    scratch = core.Report("_", "quick")
    c20.atomic(F, scratch)
    for o in scratch.obs:
        if o["rule"] == "ATOMIC" and o["key"] == "output-truncated":
            rep.obs.append(o)
            rep.sites += 1
    # "independent of environment": which directory the compiler was started in, and how the path of the main file was spelled
    # (`main.sy`, `./main.sy`, `/abs/main.sy`), do not decide which files are one module - the source root is the main file's parent
    # as the path gives it, never a directory looked up from the process (the C12 instance)
    import c12
    core.borrow(rep, c12.path_forms, lambda o: o["rule"] == "PATH-FORMS" and o["key"].startswith("root|"), F)


def _short(t):
    t = strip_ty(t)
    return re.sub(r"<.*", "", t).split("::")[-1]


def classify(rep, fname, src, parents):
    """follow `src` (a hash iteration call) up its method chain to the terminal consumer"""
    chain = [src]
    cur = src
    closures = []
    for par in reversed(parents):
        if par.get("k") == "MethodCall" and peel(par["recv"]) is cur:
            chain.append(par)
            closures += [a for a in par["args"] if a.get("k") == "Closure"]
            cur = par
        elif par.get("k") in ("AddrOf",) and par.get("e") is cur:
            cur = par
        else:
            break
    term = chain[-1]
    desc = ".".join(c["m"] for c in chain)
    from hir import pp
    key = "%s|%s:%s.%s" % (fname, pp(peel(src["recv"])), _short(src["recv_ty"]), desc)
    where = line_of(src)
    # consumed by a for loop?
    for par in reversed(parents):
        if par.get("k") == "ForLoop" and any(x is term for x in nodes(par["iter"])):
            rep.ob("HASH", key + "|for", False,
                   "hash iteration drives a for loop: the body runs in hash order", where)
            return
        break
    impure = None
    for c in closures:
        impure = impure or closure_impure(c)
    if term is src:
        rep.ob("HASH", key, False, "hash iterator escapes without a recognised order-insensitive consumer", where)
        return
    m = term["m"]
    if m == "collect":
        target = (term.get("gargs") or ["", ""])[-1]
        ordered_ok = target.startswith(("std::collections::hash::map::HashMap<", "std::collections::hash::set::HashSet<",
                                        "alloc::collections::btree::map::BTreeMap<", "alloc::collections::btree::set::BTreeSet<"))
        if ordered_ok and not impure:
            rep.ob("HASH", key, True, "collected into %s with pure closures: order-insensitive" % _short(target), where)
        elif ordered_ok:
            rep.ob("HASH", key, False, "collected into %s but a closure %s" % (_short(target), impure), where)
        else:
            rep.ob("HASH", key, False,
                   "collected into `%s`: order-sensitive (%s)" % (target[:60], "first Err wins" if "Result<" in target else
                                                                   "sequence order is hash order"), where)
        return
    if m in INSENSITIVE_TERMINALS:
        if impure:
            rep.ob("HASH", key, False, "order-insensitive consumer %s but a closure %s" % (m, impure), where)
        else:
            rep.ob("HASH", key, True, "consumed by %s over pure closures: order-insensitive" % m, where)
        return
    rep.ob("HASH", key, False, "terminal consumer `%s` is order-sensitive" % m, where)
